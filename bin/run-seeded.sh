#!/bin/bash
# usage: bin/run-seeded.sh <seeded-id> [<Cnn> ...]   (default: the property the mutant was written for)
# Applies /verif/seeded/<id>/patch.diff to /repo, runs the quick check(s), and
# ALWAYS restores /repo afterwards. Prints one line per check: DETECTED / MISSED / BROKEN.
set -u
VERIF=$(cd "$(dirname "$0")/.." && pwd)
ID=$1; shift
P=$VERIF/seeded/$ID/patch.diff
[ -f "$P" ] || { echo "no such seeded mutant $ID"; exit 2; }
PROPS="$*"; [ -z "$PROPS" ] && PROPS=${ID%%-*}
if [ -n "$(git -C /repo status --porcelain)" ]; then echo "/repo is not clean, refusing"; exit 2; fi
restore() { git -C /repo reset -q --hard HEAD; git -C /repo clean -fdq; }
trap restore EXIT
git -C /repo apply "$P" 2>/dev/null || { echo "$ID: patch does not apply to the current /repo HEAD"; exit 2; }
EVD=$(mktemp -d /tmp/verif-seeded-ev.XXXXXX)
trap 'restore; rm -rf "$EVD"' EXIT
for C in $PROPS; do
  out=$(VERIF_EVIDENCE_DIR=$EVD bash "$VERIF/bin/check.sh" "$C" ${VERIF_TIER:-quick} 2>&1); rc=$?
  keys=$(echo "$out" | grep '^VIOLATION' | sed 's/.*key=\([^ ]*\).*/\1/' | sort -u | head -5 | tr '\n' ' ')
  case $rc in
    1) echo "$ID vs $C: DETECTED keys: $keys";;
    0) echo "$ID vs $C: MISSED";;
    *) echo "$ID vs $C: BROKEN rc=$rc $(echo "$out" | grep INCONCLUSIVE | head -2)";;
  esac
done
