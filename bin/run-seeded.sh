#!/bin/bash
# usage: bin/run-seeded.sh <seeded-id | path/to/patch.diff> [<Cnn> ...]
# Runs the quick check(s) (default: the property the change was written for) against a scratch
# worktree of /repo's HEAD with the change applied (VERIF_REPO). /repo itself is never touched,
# evidence goes to a temp dir. Prints one line per check: DETECTED / MISSED / BROKEN.
# (Equivalent to `git -C /repo apply <patch>; bin/check.sh ...; git -C /repo checkout -- .`,
#  but safe while other runs are reading /repo.)
set -u
VERIF=$(cd "$(dirname "$0")/.." && pwd)
ARG=$1; shift
if [ -f "$ARG" ]; then P=$ARG; ID=$(basename "$(dirname "$ARG")"); PROPDEF=""; else P=$VERIF/seeded/$ARG/patch.diff; ID=$ARG; PROPDEF=${ARG%%-*}; fi
[ -f "$P" ] || { echo "no such patch: $P"; exit 2; }
PROPS="$*"; [ -z "$PROPS" ] && PROPS=$PROPDEF
[ -z "$PROPS" ] && { echo "give the property id(s) to run"; exit 2; }
TAG=rs-$$-$(echo "$ID" | tr -c 'A-Za-z0-9\n' '_')
W=/tmp/$TAG; EVD=/tmp/$TAG-ev
cleanup() { git -C /repo worktree remove --force "$W" >/dev/null 2>&1; rm -rf "$W" "$EVD" "$VERIF/.build/$TAG"; }
trap cleanup EXIT
mkdir -p "$EVD"
git -C /repo worktree add -q --detach "$W" HEAD >/dev/null 2>&1 || { echo "$ID: cannot create scratch worktree"; exit 2; }
git -C "$W" apply "$P" 2>/dev/null || { echo "$ID: patch does not apply to the current /repo HEAD"; exit 2; }
for C in $PROPS; do
  out=$(VERIF_BUILD_TAG=$TAG VERIF_REPO=$W VERIF_EVIDENCE_DIR=$EVD bash "$VERIF/bin/check.sh" "$C" ${VERIF_TIER:-quick} 2>&1); rc=$?
  keys=$(echo "$out" | grep '^VIOLATION' | sed 's/.*key=\([^ ]*\).*/\1/' | sort -u | head -5 | tr '\n' ' ')
  case $rc in
    1) echo "$ID vs $C: DETECTED keys: $keys";;
    0) echo "$ID vs $C: MISSED";;
    *) echo "$ID vs $C: BROKEN rc=$rc $(echo "$out" | grep INCONCLUSIVE | head -2)";;
  esac
done
