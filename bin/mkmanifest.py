#!/usr/bin/env python3
"""Regenerates /verif/MANIFEST.json from the table below (run after adding a check)."""
import json, os, sys

HERE = os.path.dirname(os.path.abspath(__file__))
VERIF = os.path.dirname(HERE)

ALL = ["C%02d" % i for i in range(1, 18)]

# id -> (category, technique, level text, level note, design ref)
CHECKS = {
 "C01": ("exploration",
  "runtime monitoring: reference-model oracle over decoded package payloads (generated configs + source trees, 5 formats, independent decoders)",
  "Every generated case is built by the real packagers and every payload entry (kind, bytes, stored mode field, owner, group, file mtime, link target) is compared with a reference plan derived from the documentation; formats are also compared with each other. Held on the K cases of the run; no claim beyond the generated space.",
  "Trusts the harness decoders (raw tar walker, ar, gzip splitter, rpm header+cpio parser, klauspost zstd / ulikunitz xz decoders) and the generator's by-construction knowledge of glob match sets. Corners listed under 'not explored' in DESIGN.md section 4/C01 are outside the claim.",
  "4/C01"),
}

NOT_YET = "check not yet registered in this session (under construction)"

def main():
    checks = []
    for pid in ALL:
        if pid not in CHECKS:
            continue
        cat, tech, text, note, ref = CHECKS[pid]
        checks.append({
            "property_id": pid,
            "quick_cmd": "bash bin/check.sh %s quick" % pid,
            "thorough_cmd": "bash bin/check.sh %s thorough" % pid,
            "evidence_file": "/verif/evidence/%s.json" % pid,
            "replay_cmd_template": "bash bin/check.sh %s quick --replay {path}" % pid,
            "engine": "verifharness",
            "level_claimed": {"category": cat, "text": text, "design_ref": "DESIGN.md section " + ref},
            "level_note": note,
            "technique": tech,
        })
    m = {
        "version": 1,
        "setup_cmd": "bash bin/setup.sh",
        "hooks": {
            "guard": "verif",
            "enable": "bin/check.sh builds the harness and cmd/nfpm with `go build -tags verif` against /repo's working tree (no guarded source files exist: every monitor sits on a public boundary)",
            "baseline_off_cmd": "cd /repo && GOFLAGS=-mod=mod GOPROXY=off GOSUMDB=off GOTOOLCHAIN=local go test -mod=mod -json -vet=off -count=1 -timeout 25m ./...",
            "source_commits": [],
            "add_only": True,
        },
        "engines": [{
            "name": "verifharness",
            "path": "/verif/harness",
            "serves_properties": [c["property_id"] for c in checks],
            "kind_free_text": "Go harness driving the real nfpm packagers/CLI under generated, hostile and fault-injecting workloads; oracles = harness-owned decoders + reference models + race detector",
        }],
        "checks": checks,
        "notes": "Known findings: /verif/known_findings.json. Seeded mutants: /verif/seeded/. See DESIGN.md.",
        "not_applicable": [{"property_id": p, "reason": NOT_YET} for p in ALL if p not in CHECKS],
    }
    with open(os.path.join(VERIF, "MANIFEST.json"), "w") as f:
        json.dump(m, f, indent=1)
        f.write("\n")
    try:
        import jsonschema
        jsonschema.validate(m, json.load(open("/root/.vp/MANIFEST.schema.json")))
        print("MANIFEST.json written and valid: %d checks" % len(checks))
    except ImportError:
        print("MANIFEST.json written (jsonschema not available to validate)")

if __name__ == "__main__":
    main()
