#!/usr/bin/env python3
"""Regenerates /verif/MANIFEST.json from the table below (run after adding a check)."""
import json, os, sys

HERE = os.path.dirname(os.path.abspath(__file__))
VERIF = os.path.dirname(HERE)

ALL = ["C%02d" % i for i in range(1, 18)]

# id -> (category, technique, level text, level note, design ref)
CHECKS = {
 "C01": ("exploration",
  "runtime monitoring: reference-model oracle over decoded package payloads (generated configs + source trees, 5 formats, independent decoders)",
  "Every generated case is built by the real packagers and every payload entry (kind, bytes, stored mode field, owner, group, file mtime, link target) is compared with a reference plan derived from the documentation; formats are also compared with each other. Half of the cases build every format from ONE parsed configuration (rotating order), the other half from a fresh parse per format; some cases have sources owned by canary numeric ids (must not appear in any package) and are rebuilt after the sources changed. Held on the K cases of the run; no claim beyond the generated space.",
  "Trusts the harness decoders (raw tar walker, ar, gzip splitter, rpm header+cpio parser, klauspost zstd / ulikunitz xz decoders) and the generator's by-construction knowledge of glob match sets. Corners listed under 'not explored' in DESIGN.md section 4/C01 are outside the claim.",
  "4/C01"),
 "C02": ("exploration",
  "runtime monitoring: field-by-field oracle over decoded control metadata (exhaustive GOARCH x format matrix parsed from the documentation, all 32 optional version-component combinations, generated metadata)",
  "Every metadata field decoded from control / rpm header / .PKGINFO of really built packages is compared with the configured value; the architecture matrix and the version-component combinations are enumerated completely, the rest is generated. dpkg-deb -f cross-reads deb fields.",
  "Trusts the harness deb822 / rpm header / PKGINFO parsers and the per-format field map written from the documentation. Relations are demanded only where the format has a field for them; archlinux pkgver cannot carry metadata (tolerated).",
  "4/C02"),
 "C03": ("exploration",
  "runtime monitoring: recomputation oracle - every stored digest, checksum and size is recomputed by the harness from the decoded shipped bytes (incl. rebuild after in-place source change)",
  "All digests/sizes a package states about itself are recomputed without nfpm code from the bytes actually shipped, over generated payloads biased to block-size boundaries and all compressions, including a second build in the same process after sources changed, several packages built at the same time into slowly draining destinations (GOMAXPROCS 1 and N), and the nfpm binary rebuilding to a target that holds a longer file.",
  "Trusts the harness decoders and Go's crypto hashes. rpm sig tag 1007 accepted as cpio length or sum of file sizes; md5sums names with or without './'.",
  "4/C03"),
 "C04": ("exploration",
  "runtime monitoring: structural monitors over raw archive bytes (raw tar block walker + archive/tar reader, ar, gzip member splitter, rpm lead/header/cpio, mtree) plus dpkg-deb and xz as independent readers",
  "Every structural rule in the statement is asserted on every generated output (signed and unsigned, all compressions, empty to multi-MiB payloads, apk 512-byte boundary cases); deb files are additionally fed to dpkg-deb -I/-c and xz/lzma payloads to the xz CLI.",
  "rpm, cpio, zstd, bsdtar, apk, pacman CLIs are not installed: those formats are read only by harness-owned parsers and the decoder halves of the compression libraries.",
  "4/C04"),
 "C08": ("exploration",
  "runtime monitoring: exhaustive (entry type x packager tag x format) matrix plus generated mixed lists; conffiles / rpm FILEFLAGS / archlinux backup decoded from built packages vs declared types",
  "The 12x6x5 matrix is enumerated completely (each cell built and decoded), config globs expanding to 1..20 files and generated mixed lists are added; registration of configuration and special files is compared with the declaration in both directions.",
  "Trusts the harness decoders and the rpm FILEFLAGS constants taken from rpm's rpmfiles.h.",
  "4/C08"),
 "C06": ("fault_enumeration",
  "runtime monitoring with fault injection: fault-injecting io.Writer at every write index (sticky error, short write, one-shot), source/script/changelog/key references removed one at a time, failing sign callbacks, invalid-setting classes, and the real nfpm binary against /dev/full (strace ENOSPC injection in thorough)",
  "For every generated config x format x signed/unsigned the clean run's N writes are counted and EVERY k in [0,N) is replayed with three fault variants (exhaustive over k); every file reference is removed one at a time; every invalid-setting class and signer failure is injected; every source is also replaced by a unix socket; the CLI must exit non-zero, print the cause and leave nothing at the target. Package must return non-nil whenever the fault was reached.",
  "A write fault is an error return (full or short count); writers that break the io.Writer contract are out of scope. Exhaustive over write indices of the configs that were generated, not over configs.",
  "4/C06"),
 "C07": ("exploration",
  "runtime monitoring: differential replay of the same build under varied clock, GOMAXPROCS, timezone, process, path spelling and mtime source, with a timestamp monitor over every decoded time field",
  "Each (case, format) is built 9 times in-process (repeat, GOMAXPROCS 1..16, across a wall-clock second) and 5-7 times through the nfpm binary (TZ, GOMAXPROCS, relative/absolute paths, YAML mtime vs SOURCE_DATE_EPOCH incl. 0, after 2038 and before 1970, each twice a second apart); history scenarios (failed builds in between, a dateless changelog entry after a second, rebuilding from the same parsed configuration after source metadata changed); all outputs must be byte-identical and every stored timestamp must come from the configuration or the sources.",
  "Package mtimes are drawn from 2001-2037, far from the build clock, so a clock leak cannot coincide with an allowed value. gzip MTIME 0 and pgzip's constant 2288912640 both mean 'unset'.",
  "4/C07"),
 "C05": ("exploration",
  "runtime monitoring: bounded-exhaustive enumeration of content lists against a set-based reference planner, plus normal-form invariant monitors on every returned plan and 25x repetition for map-order dependence",
  "Every content list up to the length bound over a universe of overlapping destinations x types x packager tags x targets is prepared by the real files.PrepareForPackager and compared with a reference planner; all destination spellings up to a length bound are checked for the normal form; generated larger lists are compared with the reference plan. exhaustive for the stated bounds (quick: lists <= 2, spellings <= 5; thorough: lists <= 3, spellings <= 6).",
  "The reference planner encodes the collision rule of the property (same path twice, or an entry beneath a non-directory; an explicit directory may replace an implied one; directories of a tree count as explicit). Beyond the bounds nothing is claimed.",
  "4/C05"),
 "C09": ("exploration",
  "runtime monitoring: exhaustive enumeration of script-slot subsets per format with unique per-slot tokens; slots decoded from built packages compared byte-for-byte with the files written",
  "All 400 subsets of configurable slots (deb 2^7, rpm 2^7, apk 2^6, archlinux 2^6, ipk 2^4) are built for several body variants (binary, CRLF, no trailing newline, empty, 1 MiB in thorough); a slot must be populated iff configured, with exactly the configured bytes and mode.",
  "rpm bodies are NUL-free (header strings cannot carry NUL); an empty rpm scriptlet may be absent.",
  "4/C09"),
 "C10": ("exploration",
  "runtime monitoring: signature extraction + independent verification (go-crypto, crypto/rsa, gpg, openssl) over verifier bytes recomputed from stored members; recording sign callbacks; injected signer failures checked with errors.As / errors.Is",
  "Signatures of really built deb (debsign all types, dpkg-sig), rpm and apk packages are verified with the matching public key over the bytes the format's verifier uses, recomputed from the stored members, for all key kinds shipped with the repository, generated RSA-2048/3072/4096 keys (gpg must accept the armor), keys locked with odd passphrases, rotated key files, SOURCE_DATE_EPOCH set while signing, empty key ids, and for callbacks (which must receive exactly those bytes); every failure injection must yield an error identifiable as *nfpm.ErrSigningFailure that still wraps the signer's error.",
  "Keys are the repository's test keys. gpg and openssl are used when installed (they are in this image); the harness-owned verification always runs.",
  "4/C10"),
 "C11": ("exploration",
  "runtime monitoring: bounded-exhaustive operation sequences over {validate, file-name(f), package(f)} on one parsed configuration, differential against fresh-parse baselines (bytes) and reflective deep snapshots of Config.Get(f)",
  "For aliasing-rich generated configurations every sequence up to the length bound, all 120 packaging orders and random longer sequences are executed on a freshly parsed configuration (both with fresh settings per operation and with package reusing the settings a file name was asked for); every package is compared byte-for-byte with the fresh-parse build and the settings afterwards with a fresh parse. exhaustive for sequences <= 2 (quick) / <= 3 (thorough).",
  "Relies on deterministic builds (checked per baseline, covered by C07). Function values are excluded from the deep comparison.",
  "4/C11"),
 "C12": ("exploration",
  "runtime monitoring with the Go race detector: -race build of the harness drives concurrent packagings in child processes per GOMAXPROCS value; race-log parsing, overlap-set measurement, byte comparison with sequential builds",
  "Three concurrency scenarios (shared parsed config with Get up front / inside goroutines, independent settings with 8/32 goroutines incl. same format) x generated aliasing-rich configs (incl. signed with protected keys) x GOMAXPROCS values are run under the race detector; reports are counted in log_path files (exit codes are not trusted), results compared with sequential builds; a run that observed < 2 distinct overlap sets is inconclusive.",
  "The race detector decides only the executions it saw. Signed outputs are compared for success, not bytes.",
  "4/C12"),
 "C13": ("exploration",
  "runtime monitoring: reflective reference-merge oracle over Config.Get for every overridable leaf x format x placement (exhaustive, leaves discovered by reflection), random combinations, every Get order, before/after snapshots of base settings, package-level confirmation",
  "For every leaf of nfpm.Overridables a configuration is marshalled from nfpm's own types, parsed, and Get(g) for all formats is compared leaf-by-leaf with a reference merge of an untouched parse; base settings and override blocks must stay unchanged; random multi-block combinations are checked under all Get orders and by decoding built packages; all formats are built from one parsed configuration in sampled (quick) / all 120 (thorough) orders and compared with fresh-parse builds; override lists whose items expand to nothing; CLI packager spellings; Validate must reject override keys without a packager.",
  "The reference merge encodes: scalars replaced iff non-zero, lists wholesale iff non-empty, nested blocks field by field, maps key by key (non-empty values), pointers by pointee. Empty-valued override map entries and null override blocks are not explored.",
  "4/C13"),
 "C14": ("exploration",
  "runtime monitoring: grammar-generated version strings against a by-construction split oracle on nfpm.WithDefaults; ordering oracles (harness Debian algorithm cross-checked with dpkg --compare-versions, harness port of rpmvercmp + EVR) applied to version strings decoded from built packages",
  "Strings are assembled from the semver grammar so the expected split is known by construction; near-misses must stay verbatim (also when the version arrives through the environment mapping; numbers up to 2^64-1); prerelease < release, numeric order and epoch order are checked on versions decoded from really built deb, ipk and rpm packages under the package managers' own comparison algorithms.",
  "Leading-zero shapes are not generated. dpkg is used when installed; the harness implementations always run. Epochs beyond dpkg's C int are only used for rpm.",
  "4/C14"),
 "C15": ("exploration",
  "runtime monitoring: ConventionalFileName vs conventional name composed from metadata decoded out of Package on the same settings object; byte comparison name-then-package vs package; the real nfpm binary with every target spelling",
  "Generated name/version/arch combinations x 5 formats: the proposed file name must equal the name composed from the decoded metadata, end in the conventional extension and not alter the package; the CLI is run with target = file, directory, symlinked directory, blank, with and without -p, with .deb/.rpm/.apk/.ipk extensions, over a longer existing file, and with version/arch supplied through the process environment.",
  "File names never carry the epoch. Format detection of CLI output uses the harness decoders.",
  "4/C15"),
 "C16": ("exploration",
  "runtime monitoring: unknown-key injection at every struct-typed mapping of a full document (sites found by walking the YAML tree in parallel with nfpm's Go types), recording env-mapping callback, expected-value oracle for documented expandable fields, exhaustive passphrase-variable combinations",
  "Every mapping that decodes into a struct receives one unknown key per misspelling class and the parser must fail (exhaustive over sites x classes); every field documented as expandable is given each value shape under generated environments and compared with the expected expansion; the callback recorder shows which variables were looked up; all 16 passphrase-variable combinations are checked.",
  "The must-expand set is taken from the wording of www/docs/configuration.md. Fields the code expands beyond the documentation are not given '$' values.",
  "4/C16"),
 "C17": ("exploration",
  "runtime monitoring: the schema emitted by the built binary is compared with the published file, its key-path set with the parser's (reflection, exhaustive), and generated/enumerated documents that parse and build are validated by a harness subset validator and python jsonschema",
  "Published file == `nfpm jsonschema -o` output (also when regenerated over an existing file); schema key paths == parser key paths (exhaustive); every documented enumerated value and generated valid configurations that the parser accepts and the packagers build must validate under two independent validators; upper/mixed-case spellings of enumerated values are probes: if parser and packager accept one, the schema must too (one known finding: version_schema).",
  "Documents always carry name, arch and version (documented as required). Undocumented deb signature roles are not generated.",
  "4/C17"),
}

NOT_YET = "not claimed"

def main():
    checks = []
    for pid in ALL:
        if pid not in CHECKS:
            continue
        cat, tech, text, note, ref = CHECKS[pid]
        checks.append({
            "property_id": pid,
            "quick_cmd": "bash bin/check.sh %s quick" % pid,
            "thorough_cmd": "bash bin/check.sh %s thorough" % pid,
            "evidence_file": "/verif/evidence/%s.json" % pid,
            "replay_cmd_template": "bash bin/check.sh %s quick --replay {path}" % pid,
            "engine": "verifharness",
            "level_claimed": {"category": cat, "text": text, "design_ref": "DESIGN.md section " + ref},
            "level_note": note,
            "technique": tech,
        })
    m = {
        "version": 1,
        "setup_cmd": "bash bin/setup.sh",
        "hooks": {
            "guard": "verif",
            "enable": "bin/check.sh builds the harness and cmd/nfpm with `go build -tags verif` against /repo's working tree (no guarded source files exist: every monitor sits on a public boundary)",
            "baseline_off_cmd": "cd /repo && GOFLAGS=-mod=mod GOPROXY=off GOSUMDB=off GOTOOLCHAIN=local go test -mod=mod -json -vet=off -count=1 -timeout 25m ./...",
            "source_commits": [],
            "add_only": True,
        },
        "engines": [{
            "name": "verifharness",
            "path": "/verif/harness",
            "serves_properties": [c["property_id"] for c in checks],
            "kind_free_text": "Go harness driving the real nfpm packagers/CLI under generated, hostile and fault-injecting workloads; oracles = harness-owned decoders + reference models + race detector",
        }],
        "checks": checks,
        "notes": "Known findings: /verif/known_findings.json. Seeded mutants: /verif/seeded/. See DESIGN.md.",
        "not_applicable": [{"property_id": p, "reason": NOT_YET} for p in ALL if p not in CHECKS],
    }
    with open(os.path.join(VERIF, "MANIFEST.json"), "w") as f:
        json.dump(m, f, indent=1)
        f.write("\n")
    try:
        import jsonschema
        jsonschema.validate(m, json.load(open("/root/.vp/MANIFEST.schema.json")))
        print("MANIFEST.json written and valid: %d checks" % len(checks))
    except ImportError:
        print("MANIFEST.json written (jsonschema not available to validate)")

if __name__ == "__main__":
    main()
