#!/usr/bin/env python3
"""usage: bin/seeded-table.py [matrix-file ...]

With matrix files (output of bin/seeded-matrix.sh: "<id> <prop> DETECTED|MISSED|BROKEN keys..."):
writes the result into seeded/<id>/meta.json ("detected_by"), keeping an existing entry that names
another check when the own check missed the change.
Always: regenerates the table of DESIGN.md section 8 between the markers
<!-- seeded-table:begin --> and <!-- seeded-table:end --> from the meta.json files.
"""
import json, os, re, sys

VERIF = os.path.dirname(os.path.dirname(os.path.abspath(__file__)))
SEEDED = os.path.join(VERIF, "seeded")
HOW = "bin/run-seeded.sh / bin/seeded-matrix.sh (patch applied to a scratch worktree of /repo HEAD, check rebuilt against it)"


def ids():
    out = [d for d in os.listdir(SEEDED) if re.fullmatch(r"C\d+-\d+", d)]
    return sorted(out, key=lambda s: (s.split("-")[0], int(s.split("-")[1])))


def load(i):
    with open(os.path.join(SEEDED, i, "meta.json")) as f:
        return json.load(f)


def save(i, m):
    with open(os.path.join(SEEDED, i, "meta.json"), "w") as f:
        json.dump(m, f, indent=1)
        f.write("\n")


def ingest(path):
    for line in open(path):
        parts = line.split()
        if len(parts) < 3 or not re.fullmatch(r"C\d+-\d+", parts[0]):
            continue
        i, prop, res, keys = parts[0], parts[1], parts[2], parts[3:]
        if not os.path.isdir(os.path.join(SEEDED, i)):
            continue
        m = load(i)
        old = m.get("detected_by")
        if res == "DETECTED":
            m["detected_by"] = {"check": prop, "tier": "quick", "seed": 1, "result": "DETECTED",
                                "violation_keys_sample": keys[:4], "how": HOW}
        elif res == "MISSED":
            if old and old.get("result") == "DETECTED" and old.get("check") != prop:
                continue  # caught by another check, recorded by hand
            if old and old.get("result") == "MISSED" and old.get("why"):
                continue  # keep the explanation
            m["detected_by"] = {"check": prop, "tier": "quick", "seed": 1, "result": "MISSED", "how": HOW}
        else:
            continue
        save(i, m)


def short(s, n):
    s = " ".join(str(s).split()).replace("|", "\\|")
    return s if len(s) <= n else s[: n - 3] + "..."


def table():
    rows = ["| id | change | caught by check | violation keys (sample) |", "|---|---|---|---|"]
    det = miss = 0
    for i in ids():
        m = load(i)
        d = m.get("detected_by") or {}
        if d.get("result") == "DETECTED":
            det += 1
            keys = [k for k in d.get("violation_keys_sample", []) if not k.startswith("(")]
            keys = [re.sub(r"^C\d+/", "", k) for k in keys][:2]
            note = [k for k in d.get("violation_keys_sample", []) if k.startswith("(")]
            rows.append("| %s | %s | %s | %s |" % (i, short(m.get("summary", ""), 160), d.get("check"), short(", ".join(keys + note), 300)))
        else:
            miss += 1
            rows.append("| %s | %s | **not caught** | %s |" % (i, short(m.get("summary", ""), 160), short(d.get("why", "-"), 400)))
    return "\n".join(rows), det, miss


def main():
    for p in sys.argv[1:]:
        ingest(p)
    t, det, miss = table()
    dp = os.path.join(VERIF, "DESIGN.md")
    s = open(dp).read()
    b, e = "<!-- seeded-table:begin -->", "<!-- seeded-table:end -->"
    block = "%s\n%d changes kept; %d caught, %d not caught (reasons in the table).\n\n%s\n%s" % (b, det + miss, det, miss, t, e)
    if b in s and e in s:
        s = s[: s.index(b)] + block + s[s.index(e) + len(e):]
    else:
        # first use: replace the old hand-made table (starts at the header row inside section 8)
        h = "| id | change | caught by check | violation keys (sample) |"
        start = s.index(h)
        end = s.index("\n## 9. Running")
        s = s[:start] + block + "\n" + s[end:]
    open(dp, "w").write(s)
    print("table: %d rows, %d caught, %d not caught" % (det + miss, det, miss))


if __name__ == "__main__":
    main()
