#!/bin/bash
# Offline setup: warm the Go build cache by compiling the harness once (normal
# and -race) and the nfpm binary. Everything comes from files on disk.
set -u
export GOFLAGS=-mod=mod GOPROXY=off GOSUMDB=off GOTOOLCHAIN=local
VERIF=$(cd "$(dirname "$0")/.." && pwd)
REPO=${VERIF_REPO:-/repo}
B=$VERIF/.build/setup
mkdir -p "$B" "$VERIF/evidence"
cat > "$B/go.mod" <<MOD
module verifharness

go 1.23.0

require github.com/goreleaser/nfpm/v2 v2.0.0-00010101000000-000000000000

replace github.com/goreleaser/nfpm/v2 => $REPO
MOD
cp "$REPO/go.sum" "$B/go.sum"
(cd "$VERIF/harness" && go build -tags verif -modfile="$B/go.mod" -o "$B/check" ./cmd/check) || exit 1
(cd "$VERIF/harness" && go build -race -tags verif -modfile="$B/go.mod" -o "$B/check-race" ./cmd/check) || exit 1
(cd "$REPO" && go build -tags verif -o "$B/nfpm" ./cmd/nfpm) || exit 1
echo "setup ok"
