#!/bin/bash
# usage: bin/seeded-matrix.sh [report-file] [id-regex]  -- runs every seeded mutant (matching id-regex) against the check of
# its own property (quick tier) in a scratch worktree of /repo (VERIF_REPO), in parallel.
# /repo itself is never touched. Prints "<id> <prop> DETECTED|MISSED|BROKEN keys...".
SRC=$(cd "$(dirname "$0")/.." && pwd)
OUT=${1:-/tmp/seeded-matrix.txt}
FILTER=${2:-.}
: > "$OUT"
# work from a snapshot of the machinery, so that /verif can be edited while the matrix runs
VERIF=/tmp/sm-snapshot-$$
rm -rf "$VERIF"; mkdir -p "$VERIF"
cp -r "$SRC/bin" "$SRC/harness" "$SRC/seeded" "$SRC/known_findings.json" "$SRC/properties.jsonl" "$VERIF/"
trap 'rm -rf "$VERIF"' EXIT
one() {
  ID=$1; VERIF=$2; OUT=$3
  P=$VERIF/seeded/$ID/patch.diff
  PROP=${ID%%-*}
  W=/tmp/sm-$ID; EVD=/tmp/sm-ev-$ID
  rm -rf "$W" "$EVD"; mkdir -p "$EVD"
  git -C /repo worktree add -q --detach "$W" HEAD >/dev/null 2>&1 || { echo "$ID $PROP BROKEN worktree" >> "$OUT"; return; }
  if ! git -C "$W" apply "$P" 2>/dev/null; then echo "$ID $PROP BROKEN patch-does-not-apply" >> "$OUT";
  else
    out=$(VERIF_BUILD_TAG=sm-$ID VERIF_REPO=$W VERIF_EVIDENCE_DIR=$EVD bash "$VERIF/bin/check.sh" "$PROP" quick 2>&1); rc=$?
    keys=$(echo "$out" | grep '^VIOLATION' | sed 's/.*key=\([^ ]*\).*/\1/' | sort -u | head -4 | tr '\n' ' ')
    case $rc in 1) echo "$ID $PROP DETECTED $keys" >> "$OUT";; 0) echo "$ID $PROP MISSED" >> "$OUT";; *) echo "$ID $PROP BROKEN rc=$rc $(echo "$out" | grep INCONCLUSIVE | head -1 | cut -c1-150)" >> "$OUT";; esac
  fi
  git -C /repo worktree remove --force "$W" >/dev/null 2>&1; rm -rf "$W" "$EVD" "$VERIF/.build/sm-$ID"
}
export -f one
ls "$VERIF/seeded" | grep -E '^C[0-9]+-[0-9]+$' | grep -E -e "$FILTER" | xargs -P 4 -I{} bash -c 'one {} '"$VERIF"' '"$OUT"
sort "$OUT"
