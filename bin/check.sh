#!/bin/bash
# usage: bin/check.sh <Cnn> [quick|thorough] [extra args for the check binary]
# Rebuilds the harness (and the nfpm binary when needed) against the current
# working tree of ${VERIF_REPO:-/repo} with -tags verif, then runs the check.
# exit 0: held; exit 1: VIOLATION line printed; exit 2: inconclusive / build failure.
set -u
export GOFLAGS=-mod=mod GOPROXY=off GOSUMDB=off GOTOOLCHAIN=local
export CARGO_NET_OFFLINE=true PIP_NO_INDEX=1
VERIF=$(cd "$(dirname "$0")/.." && pwd)
export VERIF_DIR=$VERIF
REPO=${VERIF_REPO:-/repo}
ID=${1:?property id}
shift
TIER=${VERIF_TIER:-quick}
if [ "${1:-}" = quick ] || [ "${1:-}" = thorough ]; then TIER=$1; shift; fi
B=$VERIF/.build/${VERIF_BUILD_TAG:-$ID}
mkdir -p "$B"
log() { echo "[check.sh] $*" >&2; }

# generated module file: the harness always compiles against $REPO's working tree
cat > "$B/go.mod" <<MOD
module verifharness

go 1.23.0

require github.com/goreleaser/nfpm/v2 v2.0.0-00010101000000-000000000000

replace github.com/goreleaser/nfpm/v2 => $REPO
MOD
cp "$REPO/go.sum" "$B/go.sum"

RACE=""
case "$ID" in C12) RACE="-race";; esac
if [ "${VERIF_RACE:-}" = 1 ]; then RACE="-race"; fi

if ! (cd "$VERIF/harness" && go build $RACE -tags verif -modfile="$B/go.mod" -o "$B/check" ./cmd/check) 2> "$B/build.log"; then
  cat "$B/build.log" >&2
  echo "INCONCLUSIVE property=$ID harness or repository does not compile (see above)"
  exit 2
fi

NFPM=""
case "$ID" in C*)
  if ! (cd "$REPO" && go build -tags verif -o "$B/nfpm" ./cmd/nfpm) 2> "$B/build-nfpm.log"; then
    cat "$B/build-nfpm.log" >&2
    echo "INCONCLUSIVE property=$ID nfpm binary does not compile"
    exit 2
  fi
  NFPM="$B/nfpm";;
esac

export VERIF_NFPM=$NFPM VERIF_TIER=$TIER VERIF_BUILD=$B
"$B/check" "$ID" --tier "$TIER" --repo "$REPO" ${NFPM:+--nfpm "$NFPM"} "$@"
rc=$?
if [ $rc -ne 0 ] && [ $rc -ne 1 ] && [ $rc -ne 2 ]; then
  echo "INCONCLUSIVE property=$ID check process died with status $rc"
  rc=2
fi
exit $rc
