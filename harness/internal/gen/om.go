// Package gen holds the seeded generators: configuration documents (as an
// ordered tree that renders to YAML and to JSON), source trees, and the
// by-construction knowledge of what each generated entry denotes.
package gen

import (
	"bytes"
	"encoding/json"
	"fmt"
	"strconv"
	"strings"
	"time"
)

// KV is one key of an ordered mapping.
type KV struct {
	K string
	V any // string, int64, int, bool, Raw, *OM, []any
}

// OM is an ordered mapping; documents are built from OM, []any and scalars.
type OM struct{ Items []KV }

// Raw is emitted verbatim in YAML (timestamps, octal literals); JSON gets J.
type Raw struct {
	Y string
	J any
}

func NewOM() *OM { return &OM{} }

func (m *OM) Set(k string, v any) *OM {
	for i := range m.Items {
		if m.Items[i].K == k {
			m.Items[i].V = v
			return m
		}
	}
	m.Items = append(m.Items, KV{k, v})
	return m
}

func (m *OM) Get(k string) (any, bool) {
	for _, it := range m.Items {
		if it.K == k {
			return it.V, true
		}
	}
	return nil, false
}

func (m *OM) Del(k string) {
	for i := range m.Items {
		if m.Items[i].K == k {
			m.Items = append(m.Items[:i:i], m.Items[i+1:]...)
			return
		}
	}
}

func (m *OM) Len() int { return len(m.Items) }

// SetStr sets k only when v is non-empty.
func (m *OM) SetStr(k, v string) *OM {
	if v != "" {
		m.Set(k, v)
	}
	return m
}

func (m *OM) SetList(k string, v []string) *OM {
	if len(v) > 0 {
		l := make([]any, len(v))
		for i, s := range v {
			l[i] = s
		}
		m.Set(k, l)
	}
	return m
}

// Clone deep-copies a document tree.
func Clone(v any) any {
	switch x := v.(type) {
	case *OM:
		if x == nil {
			return x
		}
		n := &OM{}
		for _, it := range x.Items {
			n.Items = append(n.Items, KV{it.K, Clone(it.V)})
		}
		return n
	case []any:
		n := make([]any, len(x))
		for i := range x {
			n[i] = Clone(x[i])
		}
		return n
	}
	return v
}

func quote(s string) string {
	// JSON string syntax is a subset of YAML double-quoted scalars
	var b bytes.Buffer
	enc := json.NewEncoder(&b)
	enc.SetEscapeHTML(false)
	_ = enc.Encode(s)
	return strings.TrimSuffix(b.String(), "\n")
}

func scalarYAML(v any) (string, bool) {
	switch x := v.(type) {
	case string:
		return quote(x), true
	case int:
		return strconv.Itoa(x), true
	case int64:
		return strconv.FormatInt(x, 10), true
	case bool:
		if x {
			return "true", true
		}
		return "false", true
	case Raw:
		return x.Y, true
	case nil:
		return "null", true
	}
	return "", false
}

func emitYAML(b *bytes.Buffer, v any, indent int, inList bool) {
	pad := strings.Repeat("  ", indent)
	switch x := v.(type) {
	case *OM:
		if len(x.Items) == 0 {
			b.WriteString(" {}\n")
			return
		}
		for i, it := range x.Items {
			if i == 0 && inList {
				// first key continues the "- " line
			} else {
				b.WriteString(pad)
			}
			b.WriteString(quoteKey(it.K))
			b.WriteString(":")
			if s, ok := scalarYAML(it.V); ok {
				b.WriteString(" " + s + "\n")
				continue
			}
			switch y := it.V.(type) {
			case *OM:
				if len(y.Items) == 0 {
					b.WriteString(" {}\n")
				} else {
					b.WriteString("\n")
					emitYAML(b, y, indent+1, false)
				}
			case []any:
				if len(y) == 0 {
					b.WriteString(" []\n")
				} else {
					b.WriteString("\n")
					emitYAML(b, y, indent+1, false)
				}
			default:
				panic(fmt.Sprintf("gen: cannot emit %T", it.V))
			}
		}
	case []any:
		for _, el := range x {
			b.WriteString(pad + "- ")
			if s, ok := scalarYAML(el); ok {
				b.WriteString(s + "\n")
				continue
			}
			switch y := el.(type) {
			case *OM:
				if len(y.Items) == 0 {
					b.WriteString("{}\n")
				} else {
					emitYAML(b, y, indent+1, true)
				}
			default:
				panic(fmt.Sprintf("gen: cannot emit list element %T", el))
			}
		}
	default:
		panic(fmt.Sprintf("gen: cannot emit %T", v))
	}
}

func quoteKey(k string) string {
	plain := k != ""
	for _, c := range k {
		if !(c >= 'a' && c <= 'z' || c >= 'A' && c <= 'Z' || c >= '0' && c <= '9' || c == '_' || c == '-') {
			plain = false
		}
	}
	if plain && k != "null" && k != "true" && k != "false" && k != "y" && k != "n" && k != "yes" && k != "no" && k != "on" && k != "off" {
		if _, err := strconv.ParseFloat(k, 64); err != nil {
			return k
		}
	}
	return quote(k)
}

// YAML renders a document as block-style YAML with double-quoted strings.
func YAML(doc *OM) string {
	var b bytes.Buffer
	if len(doc.Items) == 0 {
		return "{}\n"
	}
	emitYAML(&b, doc, 0, false)
	return b.String()
}

func toJSONValue(v any) any {
	switch x := v.(type) {
	case *OM:
		return x
	case Raw:
		return x.J
	}
	return v
}

// MarshalJSON keeps key order.
func (m *OM) MarshalJSON() ([]byte, error) {
	var b bytes.Buffer
	b.WriteByte('{')
	for i, it := range m.Items {
		if i > 0 {
			b.WriteByte(',')
		}
		b.WriteString(quote(it.K))
		b.WriteByte(':')
		jv, err := jsonOf(it.V)
		if err != nil {
			return nil, err
		}
		b.Write(jv)
	}
	b.WriteByte('}')
	return b.Bytes(), nil
}

func jsonOf(v any) ([]byte, error) {
	switch x := v.(type) {
	case []any:
		var b bytes.Buffer
		b.WriteByte('[')
		for i, el := range x {
			if i > 0 {
				b.WriteByte(',')
			}
			j, err := jsonOf(el)
			if err != nil {
				return nil, err
			}
			b.Write(j)
		}
		b.WriteByte(']')
		return b.Bytes(), nil
	case Raw:
		return json.Marshal(x.J)
	case string:
		return []byte(quote(x)), nil
	}
	return json.Marshal(v)
}

// JSON renders the document as JSON (used by the schema checks).
func JSON(doc *OM) string {
	b, err := doc.MarshalJSON()
	if err != nil {
		panic(err)
	}
	return string(b)
}

// TimeRaw renders a unix time as an unquoted YAML timestamp.
func TimeRaw(unix int64) Raw {
	s := time.Unix(unix, 0).UTC().Format(time.RFC3339)
	return Raw{Y: s, J: s}
}

// OctRaw renders a mode as a YAML octal literal (0o755) and a JSON integer.
func OctRaw(v int64) Raw { return Raw{Y: "0o" + strconv.FormatInt(v, 8), J: v} }
