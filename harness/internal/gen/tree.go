package gen

import (
	"fmt"
	"os"
	"path/filepath"
	"sort"
	"time"

	"verifharness/internal/rng"
)

// Node is one object of the source tree the harness materialises.
type Node struct {
	Rel   string      `json:"rel"`  // path relative to the case root
	Kind  string      `json:"kind"` // "file", "dir", "symlink"
	Perm  os.FileMode `json:"perm"` // permission bits incl. os.ModeSetuid/Setgid/Sticky
	MTime int64       `json:"mtime"`
	// MTimeNS is the sub-second part of the on-disk mtime, derived from Rel when
	// the tree is written (real build hosts have nanosecond mtimes; archive
	// writers round or truncate them)
	MTimeNS int64  `json:"mtime_ns,omitempty"`
	Size    int    `json:"size,omitempty"`
	Seed    uint64 `json:"seed,omitempty"`
	Target  string `json:"target,omitempty"`
	Bytes   []byte `json:"-"` // explicit content (scripts, keys); overrides Seed/Size
}

// Content returns the bytes of a file node.
func (n *Node) Content() []byte {
	if n.Bytes != nil {
		return n.Bytes
	}
	if n.Size == 0 {
		return []byte{}
	}
	r := rng.New(n.Seed)
	// semi-compressible: random runs interleaved with repeated text
	out := make([]byte, 0, n.Size)
	for len(out) < n.Size {
		if r.P(1, 3) {
			run := r.Range(1, 4096)
			out = append(out, r.Bytes(run)...)
		} else {
			w := fmt.Sprintf("line %d of %x\n", r.Intn(1000), n.Seed)
			for i := r.Range(1, 64); i > 0; i-- {
				out = append(out, w...)
			}
		}
	}
	return out[:n.Size]
}

// Tree is a set of nodes keyed by relative path.
type Tree struct {
	Root  string
	Nodes map[string]*Node
}

func NewTree() *Tree { return &Tree{Nodes: map[string]*Node{}} }

func (t *Tree) Add(n *Node) *Node {
	// make sure all parents exist as dirs
	d := filepath.Dir(n.Rel)
	for d != "." && d != "/" {
		if _, ok := t.Nodes[d]; !ok {
			t.Nodes[d] = &Node{Rel: d, Kind: "dir", Perm: 0o755, MTime: n.MTime}
		}
		d = filepath.Dir(d)
	}
	t.Nodes[n.Rel] = n
	return n
}

func (t *Tree) Sorted() []*Node {
	var out []*Node
	for _, n := range t.Nodes {
		out = append(out, n)
	}
	sort.Slice(out, func(i, j int) bool { return out[i].Rel < out[j].Rel })
	return out
}

func (t *Tree) Abs(rel string) string { return filepath.Join(t.Root, rel) }

// Materialize writes the tree below root with explicit modes and mtimes.
func (t *Tree) Materialize(root string) error {
	t.Root = root
	nodes := t.Sorted()
	for _, n := range nodes {
		p := filepath.Join(root, n.Rel)
		switch n.Kind {
		case "dir":
			if err := os.MkdirAll(p, 0o755); err != nil {
				return err
			}
		case "file":
			if err := os.MkdirAll(filepath.Dir(p), 0o755); err != nil {
				return err
			}
			if err := os.WriteFile(p, n.Content(), 0o600); err != nil {
				return err
			}
		case "symlink":
			if err := os.MkdirAll(filepath.Dir(p), 0o755); err != nil {
				return err
			}
			_ = os.Remove(p)
			if err := os.Symlink(n.Target, p); err != nil {
				return err
			}
		}
	}
	// modes and times after all children exist (deepest first for dir mtimes)
	for i := len(nodes) - 1; i >= 0; i-- {
		n := nodes[i]
		p := filepath.Join(root, n.Rel)
		if n.Kind == "symlink" {
			continue
		}
		if err := os.Chmod(p, n.Perm); err != nil {
			return err
		}
		n.MTimeNS = subSecond(n.Rel)
		mt := time.Unix(n.MTime, n.MTimeNS)
		if err := os.Chtimes(p, mt, mt); err != nil {
			return err
		}
	}
	return nil
}

// Under lists file/symlink/dir nodes strictly below rel (recursively).
func (t *Tree) Under(rel string) []*Node {
	var out []*Node
	pre := rel + "/"
	for _, n := range t.Sorted() {
		if len(n.Rel) > len(pre) && n.Rel[:len(pre)] == pre {
			out = append(out, n)
		}
	}
	return out
}

// subSecond picks the sub-second part of a node's mtime from its name: none for
// half of the nodes, just below and at / above half a second for the others.
func subSecond(rel string) int64 {
	h := uint32(2166136261)
	for i := 0; i < len(rel); i++ {
		h = (h ^ uint32(rel[i])) * 16777619
	}
	return []int64{0, 0, 0, 0, 499999999, 500000000, 730000000, 999999999}[h%8]
}

// MTimeRounded is the on-disk mtime rounded to the nearest second.
func (n *Node) MTimeRounded() int64 {
	if n.MTimeNS >= 500000000 {
		return n.MTime + 1
	}
	return n.MTime
}
