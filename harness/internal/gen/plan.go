package gen

import (
	"os"
	"path"
	"sort"
)

// PlanEntry is one entry of the reference logical tree of a package.
type PlanEntry struct {
	Path      string
	Kind      string // file | dir | symlink
	Mode      int64  // expected permission bits (low 12 bits); -1 = not asserted
	Owner     string
	Group     string
	MTime     int64 // expected mtime of a regular file; 0 = not asserted
	MTimeAlt  int64 // second acceptable value (source mtime rounded instead of truncated); 0 = none
	Node      *Node
	Src       string
	Link      string
	Implied   bool
	CType     string // content type of the originating entry ("file" when unset)
	Special   bool   // mode defaulted from a source that carries setuid/setgid/sticky
	FromTree  bool
	Ghost     bool
	Changelog bool
	Entry     *Content
}

// EffectiveUmask mirrors the documented default (0o002 when unset).
func (s *Spec) EffectiveUmask(format string) int64 {
	u := s.Umask
	if o := s.Overrides[format]; o != nil && o.Umask != 0 {
		u = o.Umask
	}
	if u == 0 {
		u = 0o002
	}
	return u
}

// EffectiveContents returns the content list that applies to a format:
// the override block's list replaces the base list wholesale when non-empty.
func (s *Spec) EffectiveContents(format string) []*Content {
	if o := s.Overrides[format]; o != nil && len(o.Contents) > 0 {
		return o.Contents
	}
	return s.Contents
}

func permOf(m os.FileMode) int64 {
	p := int64(m & 0o777)
	if m&os.ModeSetuid != 0 {
		p |= 0o4000
	}
	if m&os.ModeSetgid != 0 {
		p |= 0o2000
	}
	if m&os.ModeSticky != 0 {
		p |= 0o1000
	}
	return p
}

func rpmOnly(t string) bool {
	switch t {
	case "ghost", "doc", "licence", "license", "readme":
		return true
	}
	return false
}

// Plan computes the reference payload of the case for one format, written
// from the documentation and the property text (not from the implementation).
func (c *Case) Plan(format string) map[string]*PlanEntry {
	s := c.Spec
	umask := s.EffectiveUmask(format)
	plan := map[string]*PlanEntry{}
	for _, e := range s.EffectiveContents(format) {
		if e.Packager != "" && e.Packager != format {
			continue
		}
		t := e.Type
		if t == "" {
			t = "file"
		}
		if rpmOnly(t) && format != "rpm" {
			continue
		}
		for _, x := range e.Exp {
			pe := &PlanEntry{Path: x.Dst, Kind: x.Kind, Owner: "root", Group: "root", Node: x.Node, Src: x.Src, Link: x.Link, CType: t, Entry: e, Mode: -1}
			fi := e.FI
			if fi != nil {
				if fi.Owner != "" {
					pe.Owner = fi.Owner
				}
				if fi.Group != "" {
					pe.Group = fi.Group
				}
			}
			switch {
			case t == "tree":
				pe.FromTree = true
				// owner/group of the tree entry apply to the whole tree; modes come from the sources
				switch x.Kind {
				case "dir", "file":
					pe.Mode = permOf(x.Node.Perm) &^ umask
					if x.Kind == "file" {
						pe.Special = x.Node.Perm&(os.ModeSetuid|os.ModeSetgid|os.ModeSticky) != 0
						pe.MTime = firstNonZero(s.MTime, x.Node.MTime)
						if s.MTime == 0 {
							pe.MTimeAlt = x.Node.MTimeRounded()
						}
					}
				}
			case x.Kind == "dir":
				pe.Mode = 0o755
				if x.Node != nil { // type: dir with a source directory: mode copied from it, minus the umask
					pe.Mode = permOf(x.Node.Perm) &^ umask
				}
				if fi != nil && fi.Mode != 0 {
					pe.Mode = fi.Mode & 0o7777
				}
			case x.Kind == "symlink":
				// only the literal target is asserted
			case t == "ghost":
				pe.Ghost = true
				pe.Mode = 0o644
				if fi != nil && fi.Mode != 0 {
					pe.Mode = fi.Mode & 0o7777
				}
			default: // regular files
				if fi != nil && fi.Mode != 0 {
					pe.Mode = fi.Mode & 0o7777
				} else {
					pe.Mode = permOf(x.Node.Perm) &^ umask
					pe.Special = x.Node.Perm&(os.ModeSetuid|os.ModeSetgid|os.ModeSticky) != 0
				}
				var em int64
				if fi != nil {
					em = fi.MTime
				}
				pe.MTime = firstNonZero(em, s.MTime, x.Node.MTime)
				if em == 0 && s.MTime == 0 {
					pe.MTimeAlt = x.Node.MTimeRounded()
				}
			}
			plan[pe.Path] = pe
		}
	}
	if format == "deb" && s.Changelog != "" {
		p := "/usr/share/doc/" + s.Name + "/changelog.Debian.gz"
		plan[p] = &PlanEntry{Path: p, Kind: "file", Mode: 0o644, Owner: "", Group: "", MTime: s.MTime, Changelog: true, CType: "debian changelog"}
	}
	// implied parents: every ancestor of every entry, 0755 root:root, in every
	// format except rpm
	if format != "rpm" {
		var paths []string
		for p := range plan {
			paths = append(paths, p)
		}
		sort.Strings(paths)
		for _, p := range paths {
			for d := path.Dir(p); d != "/" && d != "."; d = path.Dir(d) {
				if _, ok := plan[d]; !ok {
					plan[d] = &PlanEntry{Path: d, Kind: "dir", Mode: 0o755, Owner: "root", Group: "root", Implied: true, CType: "implicit dir"}
				}
			}
		}
	}
	return plan
}

func firstNonZero(v ...int64) int64 {
	for _, x := range v {
		if x != 0 {
			return x
		}
	}
	return 0
}

// SortedPaths lists plan paths in byte order.
func SortedPaths(p map[string]*PlanEntry) []string {
	var out []string
	for k := range p {
		out = append(out, k)
	}
	sort.Strings(out)
	return out
}
