package gen

import "sort"

// FI mirrors file_info. Zero values mean "not configured".
type FI struct {
	Owner string `json:"owner,omitempty"`
	Group string `json:"group,omitempty"`
	Mode  int64  `json:"mode,omitempty"`
	MTime int64  `json:"mtime,omitempty"`
}

// Expect is one payload entry a content entry denotes (known by construction).
type Expect struct {
	Dst  string `json:"dst"`            // absolute, clean, no trailing slash
	Kind string `json:"kind"`           // file | dir | symlink
	Src  string `json:"src,omitempty"`  // absolute source path on disk (files)
	Link string `json:"link,omitempty"` // literal symlink target
	Node *Node  `json:"-"`              // source node (files, tree dirs)
}

// Content is one entry of a contents list plus what it denotes.
type Content struct {
	Src      string   `json:"src,omitempty"`
	Dst      string   `json:"dst"`
	Type     string   `json:"type,omitempty"`
	Packager string   `json:"packager,omitempty"`
	FI       *FI      `json:"file_info,omitempty"`
	Expand   bool     `json:"expand,omitempty"`
	Exp      []Expect `json:"-"`
	Shape    string   `json:"shape,omitempty"` // generator's name for the source/destination shape
}

func (c *Content) OM() *OM {
	m := NewOM()
	m.SetStr("src", c.Src)
	m.Set("dst", c.Dst)
	m.SetStr("type", c.Type)
	m.SetStr("packager", c.Packager)
	if c.FI != nil {
		f := NewOM()
		f.SetStr("owner", c.FI.Owner)
		f.SetStr("group", c.FI.Group)
		if c.FI.Mode != 0 {
			f.Set("mode", OctRaw(c.FI.Mode))
		}
		if c.FI.MTime != 0 {
			f.Set("mtime", TimeRaw(c.FI.MTime))
		}
		m.Set("file_info", f)
	}
	if c.Expand {
		m.Set("expand", true)
	}
	return m
}

type Scripts struct {
	PreInstall, PostInstall, PreRemove, PostRemove string
}

func (s Scripts) om() *OM {
	m := NewOM()
	m.SetStr("preinstall", s.PreInstall)
	m.SetStr("postinstall", s.PostInstall)
	m.SetStr("preremove", s.PreRemove)
	m.SetStr("postremove", s.PostRemove)
	return m
}

type Sig struct {
	KeyFile string
	KeyID   string
	// deb only
	Method, Type, Signer string
	// apk only
	KeyName string
}

func (s Sig) om() *OM {
	m := NewOM()
	m.SetStr("key_file", s.KeyFile)
	m.SetStr("key_id", s.KeyID)
	m.SetStr("method", s.Method)
	m.SetStr("type", s.Type)
	m.SetStr("signer", s.Signer)
	m.SetStr("key_name", s.KeyName)
	return m
}

type StrMap struct {
	Keys []string
	Vals map[string]string
}

func (s *StrMap) Set(k, v string) {
	if s.Vals == nil {
		s.Vals = map[string]string{}
	}
	if _, ok := s.Vals[k]; !ok {
		s.Keys = append(s.Keys, k)
	}
	s.Vals[k] = v
}

func (s StrMap) om() *OM {
	m := NewOM()
	for _, k := range s.Keys {
		m.Set(k, s.Vals[k])
	}
	return m
}

func (s StrMap) SortedKeys() []string {
	k := append([]string{}, s.Keys...)
	sort.Strings(k)
	return k
}

type Deb struct {
	Arch                                  string
	Rules, Templates, Config              string
	Interest, InterestAwait, InterestNoAw []string
	Activate, ActivateAwait, ActivateNoAw []string
	Breaks, Predepends                    []string
	Sig                                   Sig
	Compression                           string
	Fields                                StrMap
}

func (d Deb) om() *OM {
	m := NewOM()
	m.SetStr("arch", d.Arch)
	sc := NewOM()
	sc.SetStr("rules", d.Rules).SetStr("templates", d.Templates).SetStr("config", d.Config)
	if sc.Len() > 0 {
		m.Set("scripts", sc)
	}
	tr := NewOM()
	tr.SetList("interest", d.Interest).SetList("interest_await", d.InterestAwait).SetList("interest_noawait", d.InterestNoAw)
	tr.SetList("activate", d.Activate).SetList("activate_await", d.ActivateAwait).SetList("activate_noawait", d.ActivateNoAw)
	if tr.Len() > 0 {
		m.Set("triggers", tr)
	}
	m.SetList("breaks", d.Breaks)
	if s := d.Sig.om(); s.Len() > 0 {
		m.Set("signature", s)
	}
	m.SetStr("compression", d.Compression)
	if len(d.Fields.Keys) > 0 {
		m.Set("fields", d.Fields.om())
	}
	m.SetList("predepends", d.Predepends)
	return m
}

type RPM struct {
	Arch, BuildHost             string
	PreTrans, PostTrans, Verify string
	Group, Summary, Compression string
	Sig                         Sig
	Packager                    string
	Prefixes                    []string
}

func (r RPM) om() *OM {
	m := NewOM()
	m.SetStr("arch", r.Arch).SetStr("buildhost", r.BuildHost)
	sc := NewOM()
	sc.SetStr("pretrans", r.PreTrans).SetStr("posttrans", r.PostTrans).SetStr("verify", r.Verify)
	if sc.Len() > 0 {
		m.Set("scripts", sc)
	}
	m.SetStr("group", r.Group).SetStr("summary", r.Summary).SetStr("compression", r.Compression)
	if s := r.Sig.om(); s.Len() > 0 {
		m.Set("signature", s)
	}
	m.SetStr("packager", r.Packager)
	m.SetList("prefixes", r.Prefixes)
	return m
}

type APK struct {
	Arch                    string
	Sig                     Sig
	PreUpgrade, PostUpgrade string
}

func (a APK) om() *OM {
	m := NewOM()
	m.SetStr("arch", a.Arch)
	if s := a.Sig.om(); s.Len() > 0 {
		m.Set("signature", s)
	}
	sc := NewOM()
	sc.SetStr("preupgrade", a.PreUpgrade).SetStr("postupgrade", a.PostUpgrade)
	if sc.Len() > 0 {
		m.Set("scripts", sc)
	}
	return m
}

type ArchLinux struct {
	Pkgbase, Arch, Packager string
	PreUpgrade, PostUpgrade string
}

func (a ArchLinux) om() *OM {
	m := NewOM()
	m.SetStr("pkgbase", a.Pkgbase).SetStr("arch", a.Arch).SetStr("packager", a.Packager)
	sc := NewOM()
	sc.SetStr("preupgrade", a.PreUpgrade).SetStr("postupgrade", a.PostUpgrade)
	if sc.Len() > 0 {
		m.Set("scripts", sc)
	}
	return m
}

type IPKAlt struct {
	Priority int
	Target   string
	LinkName string
}

type IPK struct {
	ABIVersion    string
	Alternatives  []IPKAlt
	Arch          string
	AutoInstalled bool
	Essential     bool
	Fields        StrMap
	Predepends    []string
	Tags          []string
}

func (i IPK) om() *OM {
	m := NewOM()
	m.SetStr("abi_version", i.ABIVersion)
	if len(i.Alternatives) > 0 {
		var l []any
		for _, a := range i.Alternatives {
			am := NewOM()
			if a.Priority != 0 {
				am.Set("priority", a.Priority)
			}
			am.SetStr("target", a.Target).SetStr("link_name", a.LinkName)
			l = append(l, am)
		}
		m.Set("alternatives", l)
	}
	m.SetStr("arch", i.Arch)
	if i.AutoInstalled {
		m.Set("auto_installed", true)
	}
	if i.Essential {
		m.Set("essential", true)
	}
	if len(i.Fields.Keys) > 0 {
		m.Set("fields", i.Fields.om())
	}
	m.SetList("predepends", i.Predepends)
	m.SetList("tags", i.Tags)
	return m
}

// Over mirrors nfpm's overridable block.
type Over struct {
	Replaces, Provides, Depends, Recommends, Suggests, Conflicts []string
	Contents                                                     []*Content
	HasContents                                                  bool  // emit `contents:` even when empty
	Umask                                                        int64 // 0 = not configured
	Scripts                                                      Scripts
	RPM                                                          RPM
	Deb                                                          Deb
	APK                                                          APK
	ArchL                                                        ArchLinux
	IPK                                                          IPK
}

func (o *Over) fill(m *OM) {
	m.SetList("replaces", o.Replaces).SetList("provides", o.Provides).SetList("depends", o.Depends)
	m.SetList("recommends", o.Recommends).SetList("suggests", o.Suggests).SetList("conflicts", o.Conflicts)
	if len(o.Contents) > 0 || o.HasContents {
		l := []any{}
		for _, c := range o.Contents {
			l = append(l, c.OM())
		}
		m.Set("contents", l)
	}
	if o.Umask != 0 {
		m.Set("umask", OctRaw(o.Umask))
	}
	if s := o.Scripts.om(); s.Len() > 0 {
		m.Set("scripts", s)
	}
	if x := o.RPM.om(); x.Len() > 0 {
		m.Set("rpm", x)
	}
	if x := o.Deb.om(); x.Len() > 0 {
		m.Set("deb", x)
	}
	if x := o.APK.om(); x.Len() > 0 {
		m.Set("apk", x)
	}
	if x := o.ArchL.om(); x.Len() > 0 {
		m.Set("archlinux", x)
	}
	if x := o.IPK.om(); x.Len() > 0 {
		m.Set("ipk", x)
	}
}

// Spec is a whole configuration.
type Spec struct {
	Over
	Name, Arch, Platform, Epoch, Version, VersionSchema string
	Release, Prerelease, VersionMetadata                string
	Section, Priority, Maintainer, Description          string
	Vendor, Homepage, License, Changelog                string
	DisableGlobbing                                     bool
	MTime                                               int64 // 0 = not configured
	Overrides                                           map[string]*Over
	OverrideOrder                                       []string
}

// Doc renders the spec as an ordered document.
func (s *Spec) Doc() *OM {
	m := NewOM()
	m.SetStr("name", s.Name).SetStr("arch", s.Arch).SetStr("platform", s.Platform).SetStr("epoch", s.Epoch)
	m.SetStr("version", s.Version).SetStr("version_schema", s.VersionSchema).SetStr("release", s.Release)
	m.SetStr("prerelease", s.Prerelease).SetStr("version_metadata", s.VersionMetadata)
	m.SetStr("section", s.Section).SetStr("priority", s.Priority).SetStr("maintainer", s.Maintainer)
	m.SetStr("description", s.Description).SetStr("vendor", s.Vendor).SetStr("homepage", s.Homepage)
	m.SetStr("license", s.License).SetStr("changelog", s.Changelog)
	if s.DisableGlobbing {
		m.Set("disable_globbing", true)
	}
	if s.MTime != 0 {
		m.Set("mtime", TimeRaw(s.MTime))
	}
	s.Over.fill(m)
	if len(s.Overrides) > 0 {
		ov := NewOM()
		for _, f := range s.OverrideOrder {
			o := s.Overrides[f]
			if o == nil {
				continue
			}
			om := NewOM()
			o.fill(om)
			ov.Set(f, om)
		}
		m.Set("overrides", ov)
	}
	return m
}

func (s *Spec) YAML() string { return YAML(s.Doc()) }

func (s *Spec) SetOverride(format string, o *Over) {
	if s.Overrides == nil {
		s.Overrides = map[string]*Over{}
	}
	if _, ok := s.Overrides[format]; !ok {
		s.OverrideOrder = append(s.OverrideOrder, format)
	}
	s.Overrides[format] = o
}
