package gen

import (
	"fmt"
	"os"
	"path"
	"path/filepath"
	"sort"
	"strings"

	"verifharness/internal/rng"
)

var Formats = []string{"deb", "rpm", "apk", "ipk", "archlinux"}

// Opts steer the case generator; every check passes the regime it needs.
type Opts struct {
	NEntries     [2]int // min,max number of content entries
	Big          int    // 0: small files only, 1: up to 1 MiB+1, 2: up to 5 MiB
	SpecialSrc   bool   // setuid/setgid/sticky bits on some *source* files (no explicit mode)
	NoPkgMTime   bool   // leave the package mtime unset (source mtimes apply)
	HostSymlinks bool   // symlink entries whose target exists on the build host (C11 only)
	Scripts      bool   // generate maintainer scripts
	PerPackager  bool   // per-entry packager tags
	RpmOnlyTypes bool   // ghost/doc/licence/readme entries
	Overrides    bool   // per-format override blocks (umask, contents)
	Changelog    bool
	WeirdNames   bool // spaces, unicode and glob metacharacters in names
	OnDiskLinks  bool // on-disk symlinks inside directory / tree sources
	MetaRich     bool // rich metadata (relations, custom fields ...)
}

func DefaultOpts() Opts {
	return Opts{NEntries: [2]int{3, 9}, Scripts: true, PerPackager: true, RpmOnlyTypes: true, WeirdNames: true, OnDiskLinks: true}
}

// Case is one generated configuration plus its source tree.
type Case struct {
	Index    int
	Seed     uint64
	Root     string
	Tree     *Tree
	Spec     *Spec
	Opts     Opts
	Features map[string]bool
	Tokens   map[string]string // script slot -> unique token

	ChangelogEntries []ChangelogEntry
}

func (c *Case) Feature(f string) { c.Features[f] = true }

// Fingerprint names the shape of a case: the sorted feature set.
func (c *Case) Fingerprint() string {
	var fs []string
	for f := range c.Features {
		fs = append(fs, f)
	}
	sort.Strings(fs)
	return strings.Join(fs, ",")
}

type G struct {
	r    *rng.R
	c    *Case
	o    Opts
	nsrc int
	used map[string]bool
}

var plainWords = []string{"alpha", "beta", "gamma", "delta", "eps", "zeta", "eta", "theta", "iota", "kappa", "lam", "mu", "nu", "xi", "omi", "pi", "rho", "sig", "tau", "ups"}
var weirdBits = []string{" ", "ü", "é-", "中", "+", "@", "#", "~", ",", "=", "'", "%", "%s", "%20", "&", ";", "!", "e\u0301", "A\u030a"} // the last two: decomposed (NFD) spellings
var metaBits = []string{"{", "}", "[", "]", "*", "?"}

// word returns a path component. level: 0 plain, 1 may contain spaces/unicode,
// 2 may also contain glob metacharacters.
func (g *G) word(level int) string {
	w := rng.Pick(g.r, plainWords)
	if g.r.P(1, 3) {
		w += fmt.Sprintf("%d", g.r.Intn(100))
	}
	if level >= 1 && g.o.WeirdNames && g.r.P(1, 4) {
		w = w[:1+g.r.Intn(len(w)-1)] + rng.Pick(g.r, weirdBits) + w[1:]
		g.c.Feature("weird-name")
	}
	if level >= 2 && g.o.WeirdNames && g.r.P(1, 3) {
		w += rng.Pick(g.r, metaBits) + "x"
		g.c.Feature("glob-meta-name")
	}
	return w
}

var exts = []string{".txt", ".conf", ".bin", ".so", ".sh", ".json", ""}

func (g *G) fileSize() int {
	switch {
	case g.r.P(1, 8):
		return 0
	case g.r.P(1, 2):
		return g.r.Range(1, 3000)
	case g.r.P(1, 2):
		return rng.Pick(g.r, []int{4095, 4096, 4097, 511, 512, 513, 1023, 1024, 1025, 10240})
	}
	if g.o.Big >= 1 && g.r.P(1, 3) {
		g.c.Feature("big-file")
		if g.o.Big >= 2 && g.r.P(1, 4) {
			return 5*1024*1024 + g.r.Intn(3)
		}
		return rng.Pick(g.r, []int{128*1024 - 1, 128 * 1024, 128*1024 + 1, 1024*1024 + 1, 300000})
	}
	return g.r.Range(3000, 40000)
}

var filePerms = []os.FileMode{0o644, 0o755, 0o600, 0o664, 0o777, 0o640, 0o444, 0o775, 0o700, 0o666}

func (g *G) mtime() int64 {
	// [2001-01-01, 2037-01-01], second precision, far from "now"
	return 978307200 + int64(g.r.U64()%(2114380800-978307200))
}

func (g *G) newFile(rel string) *Node {
	n := &Node{Rel: rel, Kind: "file", Perm: rng.Pick(g.r, filePerms), MTime: g.mtime(), Size: g.fileSize(), Seed: g.r.U64()}
	if g.o.SpecialSrc && g.r.P(1, 3) {
		n.Perm |= rng.Pick(g.r, []os.FileMode{os.ModeSetuid, os.ModeSetgid, os.ModeSticky, os.ModeSetuid | os.ModeSetgid})
		n.Perm |= 0o100 // keep it executable-ish; irrelevant to the oracle
		g.c.Feature("special-src-mode")
	}
	return g.c.Tree.Add(n)
}

func (g *G) srcDir() string {
	g.nsrc++
	return fmt.Sprintf("src/s%d", g.nsrc)
}

var dstBases = []string{"/opt", "/usr/share", "/etc", "/var/lib", "/usr/lib", "/srv", "/usr/local/share", "/.dot-base", "/..two-dots"}

// dstFor returns a fresh destination below a base directory shared with other
// entries (so that implied parents are shared).
func (g *G) dstFor(i int) string {
	base := rng.Pick(g.r, dstBases) + "/" + g.c.Spec.Name
	if g.r.P(1, 3) {
		base += "/" + g.word(1)
	}
	if g.r.P(1, 8) {
		base += "/." + g.word(0)
		g.c.Feature("dot-dir-in-dst")
	}
	for {
		d := fmt.Sprintf("%s/e%d-%s", base, i, g.word(2))
		if !g.used[d] {
			g.used[d] = true
			return d
		}
	}
}

func (g *G) fi(forDir bool) *FI {
	if !g.r.P(1, 2) {
		return nil
	}
	f := &FI{}
	if g.r.P(1, 2) {
		f.Owner = rng.Pick(g.r, []string{"daemon", "www-data", "app user", "nobody", "root"})
	}
	if g.r.P(1, 2) {
		f.Group = rng.Pick(g.r, []string{"daemon", "adm", "staff", "wheel", "root"})
	}
	if g.r.P(1, 2) {
		f.Mode = rng.Pick(g.r, []int64{0o644, 0o755, 0o600, 0o4755, 0o2755, 0o1777, 0o6711, 0o400, 0o750, 0o7777, 0o1})
		if f.Mode > 0o777 {
			g.c.Feature("explicit-special-mode")
		}
	}
	if g.r.P(1, 3) {
		f.MTime = g.mtime()
		g.c.Feature("per-entry-mtime")
	}
	if *f == (FI{}) {
		g.c.Feature("empty-file_info")
	}
	return f
}

var fileTypes = []string{"", "file", "config", "config|noreplace", "config|missingok"}

// fileEntry builds a file-like entry (file / config*) in one of the
// source/destination shapes.
func (g *G) fileEntry(i int, typ string) *Content {
	c := &Content{Type: typ, FI: g.fi(false)}
	t := g.c.Tree
	root := g.c.Root
	dst := g.dstFor(i)
	nameLevel := 1
	if g.c.Spec.DisableGlobbing {
		nameLevel = 2
	}
	shapes := []string{"exact", "exact", "intodir", "dirsrc", "dirsrc-flat", "glob", "glob"}
	if g.c.Spec.DisableGlobbing {
		shapes = []string{"exact", "exact", "intodir", "dirsrc", "dirsrc-flat"}
	}
	c.Shape = rng.Pick(g.r, shapes)
	g.c.Feature("shape-" + c.Shape)
	sd := g.srcDir()
	switch c.Shape {
	case "exact":
		n := g.newFile(sd + "/" + g.word(nameLevel) + rng.Pick(g.r, exts))
		c.Src = filepath.Join(root, n.Rel)
		c.Dst = dst
		c.Exp = []Expect{{Dst: dst, Kind: "file", Src: c.Src, Node: n}}
	case "intodir":
		n := g.newFile(sd + "/" + g.word(nameLevel) + rng.Pick(g.r, exts))
		c.Src = filepath.Join(root, n.Rel)
		c.Dst = dst + "/"
		c.Exp = []Expect{{Dst: dst + "/" + path.Base(n.Rel), Kind: "file", Src: c.Src, Node: n}}
	case "dirsrc", "dirsrc-flat":
		// a directory with >=1 file directly inside (so that "the directory"
		// and "deepest common directory of the matches" coincide)
		flat := c.Shape == "dirsrc-flat"
		var nodes []*Node
		seen := map[string]bool{}
		add := func(rel string) {
			b := path.Base(rel)
			if flat && seen[b] {
				return
			}
			seen[b] = true
			if _, dup := t.Nodes[rel]; dup {
				return
			}
			nodes = append(nodes, g.newFile(rel))
		}
		add(sd + "/" + g.word(2) + rng.Pick(g.r, exts))
		for k := g.r.Intn(4); k > 0; k-- {
			add(sd + "/" + g.word(2) + rng.Pick(g.r, exts))
		}
		for k := g.r.Intn(3); k > 0; k-- {
			sub := sd + "/dir-" + g.word(1)
			for m := g.r.Range(1, 3); m > 0; m-- {
				add(sub + "/" + g.word(2) + rng.Pick(g.r, exts))
			}
			if g.r.P(1, 3) {
				add(sub + "/nest-" + g.word(1) + "/nest-" + g.word(1) + "/" + g.word(2))
				g.c.Feature("deep-nesting")
			}
		}
		var links []*Node
		if g.o.OnDiskLinks && g.r.P(1, 3) {
			// on-disk symlinks: dangling, and relative to a sibling file
			l1 := &Node{Rel: sd + "/" + "lnk-" + g.word(0), Kind: "symlink", Target: "/nonexistent-verif/" + g.word(1), MTime: g.mtime()}
			t.Add(l1)
			links = append(links, l1)
			if g.r.Bool() {
				l2 := &Node{Rel: sd + "/" + "rel-" + g.word(0), Kind: "symlink", Target: path.Base(nodes[0].Rel), MTime: g.mtime()}
				if !seen[path.Base(l2.Rel)] {
					t.Add(l2)
					links = append(links, l2)
				}
			}
			g.c.Feature("on-disk-symlink-in-dirsrc")
		}
		c.Src = filepath.Join(root, sd)
		if g.r.Bool() {
			c.Src += "/"
		}
		c.Dst = dst
		if flat {
			c.Dst = dst + "/"
		}
		for _, n := range nodes {
			rel := strings.TrimPrefix(n.Rel, sd+"/")
			d := dst + "/" + rel
			if flat {
				d = dst + "/" + path.Base(rel)
			}
			c.Exp = append(c.Exp, Expect{Dst: d, Kind: "file", Src: filepath.Join(root, n.Rel), Node: n})
		}
		for _, l := range links {
			c.Exp = append(c.Exp, Expect{Dst: dst + "/" + path.Base(l.Rel), Kind: "symlink", Link: l.Target, Node: l})
		}
	case "glob":
		// files: <w>.E1 x2..3 at top, sub dirs with .E1/.E2 files
		e1 := rng.Pick(g.r, []string{".conf", ".txt", ".so"})
		e2 := rng.Pick(g.r, []string{".bin", ".json", ".sh"})
		type gf struct {
			n   *Node
			rel string
		}
		var all []gf
		mk := func(rel string) {
			if _, dup := t.Nodes[sd+"/"+rel]; dup {
				return
			}
			all = append(all, gf{g.newFile(sd + "/" + rel), rel})
		}
		// names without glob metacharacters inside a globbed directory
		w := func() string { return g.word(1) }
		mk("a" + w() + e1)
		mk("b" + w() + e1)
		mk("c" + w() + e2)
		s1, s2 := "sub1"+g.word(0), "sub2"+g.word(0)
		mk(s1 + "/x" + w() + e1)
		mk(s2 + "/y" + w() + e1)
		mk(s2 + "/z" + w() + e2)
		// sibling directories where one name is a prefix of the other
		l1 := "lib" + g.word(0)
		l2 := l1 + "64"
		mk(l1 + "/p" + w() + e1)
		mk(l2 + "/q" + w() + e1)
		kind := g.r.Intn(7)
		var pat string
		match := func(rel string) bool { return false }
		common := sd
		switch kind {
		case 0: // top-level by extension
			pat = "*" + e1
			match = func(rel string) bool { return !strings.Contains(rel, "/") && strings.HasSuffix(rel, e1) }
		case 1: // one level down by extension
			pat = "*/*" + e1
			match = func(rel string) bool { return strings.Count(rel, "/") == 1 && strings.HasSuffix(rel, e1) }
		case 2: // question mark
			pat = "sub?" + strings.TrimPrefix(s2, "sub2") + "/*"
			match = func(rel string) bool { return strings.HasPrefix(rel, s2+"/") }
			if strings.TrimPrefix(s1, "sub1") == strings.TrimPrefix(s2, "sub2") {
				match = func(rel string) bool { return strings.HasPrefix(rel, "sub") && strings.Contains(rel, "/") }
			} else {
				common = sd + "/" + s2
			}
		case 3: // character class
			pat = "[ab]*" + e1
			match = func(rel string) bool {
				return !strings.Contains(rel, "/") && (rel[0] == 'a' || rel[0] == 'b') && strings.HasSuffix(rel, e1)
			}
		case 4: // alternation
			pat = "{a,c}*"
			match = func(rel string) bool { return !strings.Contains(rel, "/") && (rel[0] == 'a' || rel[0] == 'c') }
		case 6: // sibling directories sharing a name prefix
			pat = "lib*/*" + e1
			match = func(rel string) bool { return strings.HasPrefix(rel, "lib") && strings.HasSuffix(rel, e1) }
		case 5: // single match
			pat = "c*" + e2
			match = func(rel string) bool {
				return !strings.Contains(rel, "/") && rel[0] == 'c' && strings.HasSuffix(rel, e2)
			}
		}
		g.c.Feature(fmt.Sprintf("glob-kind-%d", kind))
		c.Src = filepath.Join(root, sd) + "/" + pat
		c.Dst = dst
		for _, f := range all {
			if match(f.rel) {
				rel := strings.TrimPrefix(f.n.Rel, common+"/")
				c.Exp = append(c.Exp, Expect{Dst: dst + "/" + rel, Kind: "file", Src: filepath.Join(root, f.n.Rel), Node: f.n})
			}
		}
		if len(c.Exp) == 0 {
			panic("gen: glob without matches")
		}
	}
	return c
}

// directories that belong to the distribution's filesystem package; declaring
// one explicitly (to set owner/mode) is legal and must be honoured everywhere
var fsOwnedDirs = []string{"/var/spool/mail", "/etc/sysconfig", "/usr/local/share/man/man1", "/var/log", "/usr/share/licenses", "/etc/logrotate.d", "/usr/lib/systemd/system", "/opt", "/var/cache"}

func (g *G) dirEntry(i int) *Content {
	d := g.dstFor(i)
	if g.r.P(1, 5) {
		if cand := rng.Pick(g.r, fsOwnedDirs); !g.used[cand] {
			g.used[cand] = true
			d = cand
			g.c.Feature("explicit-dir-at-filesystem-owned-path")
		}
	}
	c := &Content{Type: "dir", Dst: d, FI: g.fi(true), Shape: "dir"}
	if g.r.P(1, 3) {
		c.Dst += "/"
	}
	c.Exp = []Expect{{Dst: d, Kind: "dir"}}
	if g.r.P(1, 3) {
		// a directory of the build environment as source: its mode is copied
		// (documented), minus the umask, unless file_info declares one
		n := &Node{Rel: g.srcDir() + "/dirsrc-" + g.word(0), Kind: "dir", Perm: rng.Pick(g.r, []os.FileMode{0o700, 0o750, 0o775, 0o711, 0o755, 0o777}), MTime: g.mtime()}
		g.c.Tree.Add(n)
		c.Src = filepath.Join(g.c.Root, n.Rel)
		c.Exp[0].Node = n
		c.Shape = "dir-from-src"
		g.c.Feature("dir-with-src")
	}
	return c
}

func (g *G) symlinkEntry(i int) *Content {
	d := g.dstFor(i)
	target := rng.Pick(g.r, []string{"/nonexistent-verif/" + g.word(1), "../" + g.word(0) + "/nonexistent-verif", "nonexistent-verif-" + g.word(0), "/nonexistent-verif/a b",
		"./nonexistent-verif/../y", "/nonexistent-verif//double", "/nonexistent-verif/trailing/"})
	if g.o.HostSymlinks && g.r.P(1, 2) {
		// a target that exists on the build host (inside the materialised tree)
		n := g.newFile(g.srcDir() + "/hosttarget-" + g.word(0))
		n.Size = g.r.Range(1000, 5000)
		target = filepath.Join(g.c.Root, n.Rel)
		g.c.Feature("symlink-target-exists-on-host")
	}
	c := &Content{Type: "symlink", Src: target, Dst: d, Shape: "symlink"}
	if g.r.P(1, 4) {
		c.FI = g.fi(false)
	}
	c.Exp = []Expect{{Dst: d, Kind: "symlink", Link: target}}
	return c
}

func (g *G) treeEntry(i int) *Content {
	sd := g.srcDir()
	t := g.c.Tree
	root := g.c.Root
	d := g.dstFor(i)
	c := &Content{Type: "tree", Src: filepath.Join(root, sd), Dst: d, Shape: "tree"}
	if g.r.P(1, 3) {
		c.FI = &FI{Owner: rng.Pick(g.r, []string{"treeowner", ""}), Group: rng.Pick(g.r, []string{"treegroup", ""})}
		g.c.Feature("tree-owner")
	}
	dirPerm := func() os.FileMode { return rng.Pick(g.r, []os.FileMode{0o755, 0o775, 0o700, 0o750, 0o777}) }
	rootNode := &Node{Rel: sd, Kind: "dir", Perm: dirPerm(), MTime: g.mtime()}
	t.Add(rootNode)
	c.Exp = append(c.Exp, Expect{Dst: d, Kind: "dir", Node: rootNode})
	var dirs = []string{""}
	for k := g.r.Range(1, 4); k > 0; k-- {
		parent := rng.Pick(g.r, dirs)
		rel := strings.TrimPrefix(parent+"/"+g.word(2), "/")
		if _, dup := t.Nodes[sd+"/"+rel]; dup {
			continue
		}
		n := &Node{Rel: sd + "/" + rel, Kind: "dir", Perm: dirPerm(), MTime: g.mtime()}
		t.Add(n)
		dirs = append(dirs, rel)
		c.Exp = append(c.Exp, Expect{Dst: d + "/" + rel, Kind: "dir", Node: n})
	}
	for k := g.r.Range(1, 6); k > 0; k-- {
		parent := rng.Pick(g.r, dirs)
		rel := strings.TrimPrefix(parent+"/"+g.word(2)+rng.Pick(g.r, exts), "/")
		if _, dup := t.Nodes[sd+"/"+rel]; dup {
			continue
		}
		n := g.newFile(sd + "/" + rel)
		c.Exp = append(c.Exp, Expect{Dst: d + "/" + rel, Kind: "file", Src: filepath.Join(root, n.Rel), Node: n})
	}
	if g.o.OnDiskLinks && g.r.P(1, 2) {
		parent := rng.Pick(g.r, dirs)
		rel := strings.TrimPrefix(parent+"/tl-"+g.word(0), "/")
		if _, dup := t.Nodes[sd+"/"+rel]; !dup {
			target := rng.Pick(g.r, []string{"/nonexistent-verif/t", "../nonexistent-verif", "sibling-nonexistent",
				"./nonexistent-verif/../x", "nonexistent-verif//double", "/nonexistent-verif/trailing/", "nonexistent-verif/./dot"})
			n := &Node{Rel: sd + "/" + rel, Kind: "symlink", Target: target, MTime: g.mtime()}
			t.Add(n)
			c.Exp = append(c.Exp, Expect{Dst: d + "/" + rel, Kind: "symlink", Link: target, Node: n})
			g.c.Feature("on-disk-symlink-in-tree")
		}
	}
	// fix dir perms/mtimes that t.Add created implicitly
	return c
}

func (g *G) rpmOnlyEntry(i int) *Content {
	typ := rng.Pick(g.r, []string{"ghost", "doc", "licence", "license", "readme"})
	d := g.dstFor(i)
	c := &Content{Type: typ, Dst: d, Shape: "rpm-" + typ}
	if typ == "ghost" {
		if g.r.P(1, 3) {
			c.FI = &FI{Mode: rng.Pick(g.r, []int64{0o600, 0o640, 0o664})}
		}
		if g.r.P(1, 3) {
			// the file the ghost stands for, named as src: absent on the build host
			c.Src = "/nonexistent-verif/run/" + g.word(1) + ".state"
			g.c.Feature("ghost-with-missing-src")
		}
		c.Exp = []Expect{{Dst: d, Kind: "file"}}
		return c
	}
	n := g.newFile(g.srcDir() + "/" + g.word(1) + ".md")
	c.Src = filepath.Join(g.c.Root, n.Rel)
	c.FI = g.fi(false)
	c.Exp = []Expect{{Dst: d, Kind: "file", Src: c.Src, Node: n}}
	return c
}

// Contents generates n content entries.
func (g *G) Contents(n int) []*Content {
	var out []*Content
	for i := 0; i < n; i++ {
		var c *Content
		switch k := g.r.Intn(20); {
		case k < 9:
			c = g.fileEntry(len(g.used), rng.Pick(g.r, fileTypes))
		case k < 12:
			c = g.dirEntry(len(g.used))
		case k < 15:
			c = g.symlinkEntry(len(g.used))
		case k < 18:
			c = g.treeEntry(len(g.used))
		default:
			if g.o.RpmOnlyTypes {
				c = g.rpmOnlyEntry(len(g.used))
			} else {
				c = g.fileEntry(len(g.used), "")
			}
		}
		t := c.Type
		if t == "" {
			t = "file"
		}
		g.c.Feature("type-" + t)
		if c.FI != nil {
			g.c.Feature("file_info")
		} else if t != "dir" && t != "symlink" {
			g.c.Feature("mode-defaulted")
		}
		if g.o.PerPackager && g.r.P(1, 5) {
			c.Packager = rng.Pick(g.r, Formats)
			g.c.Feature("per-packager")
		}
		out = append(out, c)
	}
	// explicit dir that is also the implied parent of other entries
	if len(out) > 0 && g.r.P(1, 2) {
		e := out[g.r.Intn(len(out))]
		if len(e.Exp) > 0 {
			p := path.Dir(e.Exp[0].Dst)
			if p != "/" && !g.used[p] {
				g.used[p] = true
				c := &Content{Type: "dir", Dst: p, FI: g.fi(true), Shape: "dir-over-implied", Packager: e.Packager}
				c.Exp = []Expect{{Dst: p, Kind: "dir"}}
				if g.r.Bool() {
					out = append(out, c)
				} else {
					out = append([]*Content{c}, out...)
				}
				g.c.Feature("explicit-dir-over-implied")
			}
		}
	}
	return out
}

var arches = []string{"amd64", "386", "arm64", "arm5", "arm6", "arm7", "mips64le", "mipsle", "ppc64le", "s390", "riscv64", "all"}

// New generates case idx of the stream identified by seed. root must be an
// existing empty directory; the tree is materialised there.
func New(seed uint64, idx int, root string, o Opts) (*Case, error) {
	r := rng.New(seed).Fork(uint64(idx) + 1)
	c := &Case{Index: idx, Seed: seed, Root: root, Tree: NewTree(), Spec: &Spec{}, Opts: o, Features: map[string]bool{}, Tokens: map[string]string{}}
	g := &G{r: r, c: c, o: o, used: map[string]bool{}}
	s := c.Spec
	s.Name = rng.Pick(r, []string{"foo", "verif-pkg", "lib.x+y", "app_1", "a0"}) + fmt.Sprintf("%d", idx%7)
	s.Arch = rng.Pick(r, arches)
	s.Version = fmt.Sprintf("%d.%d.%d", r.Intn(20), r.Intn(20), r.Intn(20))
	if r.P(1, 3) {
		s.Release = fmt.Sprintf("%d", r.Range(1, 9))
	}
	s.Maintainer = "Verif Harness <verif@example.com>"
	s.Description = "Generated package\nfor verification."
	s.Section = "utils"
	s.RPM.BuildHost = "verif-host"
	if !o.NoPkgMTime {
		s.MTime = g.mtime()
	} else {
		c.Feature("no-package-mtime")
	}
	if o.WeirdNames && r.P(1, 4) {
		s.DisableGlobbing = true
		c.Feature("disable-globbing")
	}
	s.Umask = rng.Pick(r, []int64{0, 0, 0o002, 0o022, 0o027, 0o077, 0o7022, 0o2002}) // (a umask may also mask setuid / setgid / sticky)
	c.Feature(fmt.Sprintf("umask-%o", s.Umask))
	s.Contents = g.Contents(r.Range(o.NEntries[0], o.NEntries[1]))
	if o.Scripts {
		g.scripts()
	}
	if o.Overrides && r.P(1, 2) {
		f := rng.Pick(r, Formats)
		ov := &Over{Umask: rng.Pick(r, []int64{0o022, 0o077, 0o027})}
		if r.P(1, 2) {
			ov.Contents = g.Contents(r.Range(1, 3))
			c.Feature("override-contents")
		}
		s.SetOverride(f, ov)
		c.Feature("override-umask")
	}
	if o.Changelog {
		g.changelog()
	}
	s.Deb.Compression = rng.Pick(r, []string{"", "gzip", "xz", "zstd", "none"})
	s.RPM.Compression = rng.Pick(r, []string{"", "gzip", "gzip:1", "gzip:9", "xz", "lzma", "zstd", "zstd:1", "zstd:19"})
	if err := c.Tree.Materialize(root); err != nil {
		return nil, err
	}
	return c, nil
}

// scripts creates one script file per slot with a unique token and wires a
// random subset into the spec.
func (g *G) scripts() {
	s := g.c.Spec
	mk := func(slot string) string {
		tok := fmt.Sprintf("TOKEN-%s-%x", slot, g.r.U64())
		g.c.Tokens[slot] = tok
		body := "#!/bin/sh\n# " + tok + "\necho " + slot + "\n"
		if g.r.P(1, 3) {
			body += string(g.r.Bytes(g.r.Range(1, 200)))
			body = strings.ReplaceAll(body, "\x00", "0")
		}
		n := &Node{Rel: "scripts/" + slot + ".sh", Kind: "file", Perm: 0o644, MTime: g.mtime(), Bytes: []byte(body)}
		g.c.Tree.Add(n)
		return filepath.Join(g.c.Root, n.Rel)
	}
	set := func(p *string, slot string) {
		if g.r.P(1, 2) {
			*p = mk(slot)
			g.c.Feature("scripts")
		}
	}
	set(&s.Scripts.PreInstall, "preinstall")
	set(&s.Scripts.PostInstall, "postinstall")
	set(&s.Scripts.PreRemove, "preremove")
	set(&s.Scripts.PostRemove, "postremove")
	set(&s.RPM.PreTrans, "pretrans")
	set(&s.RPM.PostTrans, "posttrans")
	set(&s.RPM.Verify, "verify")
	set(&s.APK.PreUpgrade, "apk-preupgrade")
	set(&s.APK.PostUpgrade, "apk-postupgrade")
	set(&s.ArchL.PreUpgrade, "arch-preupgrade")
	set(&s.ArchL.PostUpgrade, "arch-postupgrade")
	set(&s.Deb.Rules, "rules")
	set(&s.Deb.Templates, "templates")
	set(&s.Deb.Config, "config")
}

// ChangelogEntry is what the generator wrote into the chglog YAML file.
type ChangelogEntry struct {
	Semver   string
	Date     int64
	Packager string
	Notes    []string
}

// changelog writes a chglog-format YAML file and points the spec at it.
func (g *G) changelog() {
	n := g.r.Range(1, 3)
	noNotes := g.r.P(1, 6) // no entry has notes at all
	var b strings.Builder
	for i := 0; i < n; i++ {
		e := ChangelogEntry{
			Semver:   fmt.Sprintf("%d.%d.%d", n-i, g.r.Intn(10), g.r.Intn(10)),
			Date:     g.mtime(),
			Packager: fmt.Sprintf("Packager %d <p%d@example.com>", i, i),
		}
		nn := g.r.Range(1, 3)
		if noNotes || g.r.P(1, 5) {
			nn = 0 // a bare entry without a changes list (e.g. "first release")
		}
		for k := nn; k > 0; k-- {
			e.Notes = append(e.Notes, fmt.Sprintf("note %s %d", g.word(0), g.r.Intn(1000)))
		}
		g.c.ChangelogEntries = append(g.c.ChangelogEntries, e)
		fmt.Fprintf(&b, "- semver: %q\n  date: %s\n  packager: %q\n", e.Semver, TimeRaw(e.Date).Y, e.Packager)
		if len(e.Notes) > 0 {
			b.WriteString("  changes:\n")
		}
		for _, nt := range e.Notes {
			fmt.Fprintf(&b, "    - note: %q\n", nt)
		}
	}
	nd := &Node{Rel: "changelog.yaml", Kind: "file", Perm: 0o644, MTime: g.mtime(), Bytes: []byte(b.String())}
	g.c.Tree.Add(nd)
	g.c.Spec.Changelog = filepath.Join(g.c.Root, nd.Rel)
	g.c.Feature("changelog")
}
