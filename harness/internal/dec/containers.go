package dec

import (
	"bytes"
	"compress/gzip"
	"encoding/binary"
	"errors"
	"fmt"
	"io"
	"os"
	"os/exec"
	"strconv"
	"strings"

	"github.com/klauspost/compress/zstd"
	"github.com/ulikunitz/xz"
	"github.com/ulikunitz/xz/lzma"
)

// ---------------------------------------------------------------- ar

type ArMember struct {
	Name  string
	MTime int64
	UID   int
	GID   int
	Mode  int64
	Size  int64
	Data  []byte
}

type ArArchive struct {
	Members []ArMember
	Errs    []string
}

func ParseAr(b []byte) *ArArchive {
	a := &ArArchive{}
	if len(b) < 8 || string(b[:8]) != "!<arch>\n" {
		a.Errs = append(a.Errs, "missing ar global header")
		return a
	}
	off := 8
	for off < len(b) {
		if len(b)-off < 60 {
			a.Errs = append(a.Errs, fmt.Sprintf("truncated member header at %d", off))
			break
		}
		h := b[off : off+60]
		if h[58] != '`' || h[59] != '\n' {
			a.Errs = append(a.Errs, fmt.Sprintf("bad member header terminator at %d", off))
			break
		}
		f := func(lo, hi int) string { return strings.TrimRight(string(h[lo:hi]), " ") }
		m := ArMember{Name: strings.TrimSuffix(f(0, 16), "/")}
		var err error
		pi := func(s string, base int) int64 {
			if s == "" {
				return 0
			}
			v, e := strconv.ParseInt(s, base, 64)
			if e != nil {
				err = e
			}
			return v
		}
		m.MTime = pi(f(16, 28), 10)
		m.UID = int(pi(f(28, 34), 10))
		m.GID = int(pi(f(34, 40), 10))
		m.Mode = pi(f(40, 48), 8)
		m.Size = pi(f(48, 58), 10)
		if err != nil {
			a.Errs = append(a.Errs, fmt.Sprintf("bad numeric field in member header at %d: %v", off, err))
			break
		}
		off += 60
		if off+int(m.Size) > len(b) {
			a.Errs = append(a.Errs, fmt.Sprintf("member %q data runs past end", m.Name))
			break
		}
		m.Data = b[off : off+int(m.Size)]
		off += int(m.Size)
		if off%2 == 1 {
			if off < len(b) {
				if b[off] != '\n' {
					a.Errs = append(a.Errs, fmt.Sprintf("member %q: padding byte is %#x, want newline", m.Name, b[off]))
				}
				off++
			} else {
				a.Errs = append(a.Errs, fmt.Sprintf("member %q: odd size without padding byte", m.Name))
			}
		}
		a.Members = append(a.Members, m)
	}
	return a
}

// ---------------------------------------------------------------- gzip members

type GzMember struct {
	Raw   []byte // compressed member exactly as stored
	Data  []byte // decompressed
	MTime uint32 // raw MTIME header field
	Name  string
}

// SplitGzip splits a concatenation of gzip members.
func SplitGzip(b []byte) ([]GzMember, error) {
	var out []GzMember
	r := bytes.NewReader(b)
	for r.Len() > 0 {
		start := len(b) - r.Len()
		zr, err := gzip.NewReader(r)
		if err != nil {
			return out, fmt.Errorf("gzip member %d at offset %d: %w", len(out), start, err)
		}
		zr.Multistream(false)
		data, err := io.ReadAll(zr)
		if err != nil {
			return out, fmt.Errorf("gzip member %d at offset %d: %w", len(out), start, err)
		}
		end := len(b) - r.Len()
		raw := b[start:end]
		m := GzMember{Raw: raw, Data: data, Name: zr.Header.Name}
		if len(raw) >= 8 {
			m.MTime = binary.LittleEndian.Uint32(raw[4:8])
		}
		out = append(out, m)
	}
	return out, nil
}

// Gunzip decompresses a single- or multi-member gzip stream fully.
func Gunzip(b []byte) ([]byte, []uint32, error) {
	ms, err := SplitGzip(b)
	var out []byte
	var mt []uint32
	for _, m := range ms {
		out = append(out, m.Data...)
		mt = append(mt, m.MTime)
	}
	return out, mt, err
}

// ---------------------------------------------------------------- other compressors

func HaveTool(name string) bool {
	_, err := exec.LookPath(name)
	return err == nil
}

func runTool(stdin []byte, name string, args ...string) ([]byte, error) {
	cmd := exec.Command(name, args...)
	cmd.Stdin = bytes.NewReader(stdin)
	var out, eb bytes.Buffer
	cmd.Stdout = &out
	cmd.Stderr = &eb
	if err := cmd.Run(); err != nil {
		return out.Bytes(), fmt.Errorf("%s %v: %v: %s", name, args, err, strings.TrimSpace(eb.String()))
	}
	return out.Bytes(), nil
}

// Unxz decodes with the library decoder and, when the xz CLI is installed,
// cross-checks with it (an implementation unrelated to the writer).
func Unxz(b []byte, useCLI bool) ([]byte, error) {
	r, err := xz.NewReader(bytes.NewReader(b))
	if err != nil {
		return nil, err
	}
	out, err := io.ReadAll(r)
	if err != nil {
		return nil, err
	}
	if useCLI && HaveTool("xz") {
		o2, err := runTool(b, "xz", "-dc")
		if err != nil {
			return out, fmt.Errorf("xz CLI rejects stream the library accepted: %w", err)
		}
		if !bytes.Equal(o2, out) {
			return out, errors.New("xz CLI and library decode to different bytes")
		}
	}
	return out, nil
}

func Unlzma(b []byte, useCLI bool) ([]byte, error) {
	r, err := lzma.NewReader(bytes.NewReader(b))
	if err != nil {
		return nil, err
	}
	out, err := io.ReadAll(r)
	if err != nil {
		return nil, err
	}
	if useCLI && HaveTool("xz") {
		o2, err := runTool(b, "xz", "--format=lzma", "-dc")
		if err != nil {
			return out, fmt.Errorf("xz --format=lzma rejects stream the library accepted: %w", err)
		}
		if !bytes.Equal(o2, out) {
			return out, errors.New("xz CLI and library decode to different bytes")
		}
	}
	return out, nil
}

func Unzstd(b []byte) ([]byte, error) {
	d, err := zstd.NewReader(bytes.NewReader(b), zstd.WithDecoderConcurrency(1))
	if err != nil {
		return nil, err
	}
	defer d.Close()
	return io.ReadAll(d)
}

// Sniff names the compression of a stream by its magic bytes.
func Sniff(b []byte) string {
	switch {
	case len(b) >= 2 && b[0] == 0x1f && b[1] == 0x8b:
		return "gzip"
	case len(b) >= 6 && bytes.Equal(b[:6], []byte{0xfd, '7', 'z', 'X', 'Z', 0}):
		return "xz"
	case len(b) >= 4 && bytes.Equal(b[:4], []byte{0x28, 0xb5, 0x2f, 0xfd}):
		return "zstd"
	case len(b) >= 13 && b[0] == 0x5d && b[1] == 0 && b[2] == 0:
		return "lzma"
	}
	return "none"
}

// Decompress decodes by algorithm name ("gzip","xz","zstd","lzma","none").
func Decompress(algo string, b []byte, useCLI bool) ([]byte, error) {
	switch algo {
	case "gzip":
		out, _, err := Gunzip(b)
		return out, err
	case "xz":
		return Unxz(b, useCLI)
	case "lzma":
		return Unlzma(b, useCLI)
	case "zstd":
		return Unzstd(b)
	case "none", "":
		return b, nil
	}
	return nil, fmt.Errorf("unknown compression %q", algo)
}

// ---------------------------------------------------------------- cpio newc

type CpioEntry struct {
	Name  string
	Mode  int64
	UID   int64
	GID   int64
	Nlink int64
	MTime int64
	Size  int64
	Ino   int64
	Data  []byte
}

type CpioArchive struct {
	Entries []CpioEntry
	Trailer bool
	Len     int64 // bytes up to and including the padded trailer
	Errs    []string
}

func ParseCpio(b []byte) *CpioArchive {
	a := &CpioArchive{}
	off := 0
	for {
		if len(b)-off < 110 {
			a.Errs = append(a.Errs, fmt.Sprintf("truncated cpio header at %d", off))
			return a
		}
		h := b[off : off+110]
		if string(h[:6]) != "070701" && string(h[:6]) != "070702" {
			a.Errs = append(a.Errs, fmt.Sprintf("bad cpio magic %q at %d", h[:6], off))
			return a
		}
		fld := func(i int) int64 {
			v, err := strconv.ParseUint(string(h[6+8*i:14+8*i]), 16, 64)
			if err != nil {
				a.Errs = append(a.Errs, fmt.Sprintf("bad hex field %d at %d", i, off))
			}
			return int64(v)
		}
		e := CpioEntry{Ino: fld(0), Mode: fld(1), UID: fld(2), GID: fld(3), Nlink: fld(4), MTime: fld(5), Size: fld(6)}
		namesize := int(fld(11))
		off += 110
		if off+namesize > len(b) {
			a.Errs = append(a.Errs, "cpio name runs past end")
			return a
		}
		e.Name = strings.TrimRight(string(b[off:off+namesize]), "\x00")
		off += namesize
		off = (off + 3) &^ 3
		if e.Name == "TRAILER!!!" {
			a.Trailer = true
			a.Len = int64(off)
			for _, c := range b[off:] {
				if c != 0 {
					a.Errs = append(a.Errs, "non-zero bytes after cpio trailer")
					break
				}
			}
			return a
		}
		if off+int(e.Size) > len(b) {
			a.Errs = append(a.Errs, fmt.Sprintf("cpio entry %q data runs past end", e.Name))
			return a
		}
		e.Data = b[off : off+int(e.Size)]
		off += int(e.Size)
		off = (off + 3) &^ 3
		a.Entries = append(a.Entries, e)
	}
}

// ---------------------------------------------------------------- text formats

type Field struct {
	Name  string
	Value string // continuation lines joined with "\n", leading space of each removed
}

// ParseDeb822 parses one control paragraph.
func ParseDeb822(b []byte) ([]Field, []string) {
	var fs []Field
	var errs []string
	lines := strings.Split(string(b), "\n")
	if n := len(lines); n > 0 && lines[n-1] == "" {
		lines = lines[:n-1]
	}
	for i, l := range lines {
		if strings.Trim(l, " \t") == "" {
			// deb822: a line that is empty or holds only blanks ends the paragraph
			errs = append(errs, fmt.Sprintf("line %d: blank line inside the control paragraph (ends the stanza for a deb822 parser)", i+1))
			continue
		}
		if l[0] == ' ' || l[0] == '\t' {
			if len(fs) == 0 {
				errs = append(errs, fmt.Sprintf("line %d: continuation line before any field", i+1))
				continue
			}
			fs[len(fs)-1].Value += "\n" + l[1:]
			continue
		}
		c := strings.IndexByte(l, ':')
		if c <= 0 {
			errs = append(errs, fmt.Sprintf("line %d: not a field: %q", i+1, l))
			continue
		}
		fs = append(fs, Field{Name: l[:c], Value: strings.TrimLeft(l[c+1:], " \t")})
	}
	return fs, errs
}

func Get(fs []Field, name string) (string, bool) {
	for _, f := range fs {
		if strings.EqualFold(f.Name, name) {
			return f.Value, true
		}
	}
	return "", false
}

func GetAll(fs []Field, name string) []string {
	var out []string
	for _, f := range fs {
		if f.Name == name {
			out = append(out, f.Value)
		}
	}
	return out
}

// ParsePkginfo parses "key = value" lines (apk and archlinux .PKGINFO). Lines
// that do not contain " = " continue the previous value (apk multi-line
// descriptions).
func ParsePkginfo(b []byte) []Field {
	var fs []Field
	for _, l := range strings.Split(strings.TrimSuffix(string(b), "\n"), "\n") {
		if strings.HasPrefix(l, "#") {
			continue
		}
		if i := strings.Index(l, " = "); i > 0 && !strings.HasPrefix(l, " ") {
			fs = append(fs, Field{Name: l[:i], Value: l[i+3:]})
		} else if len(fs) > 0 {
			fs[len(fs)-1].Value += "\n" + l
		}
	}
	return fs
}

type MtreeLine struct {
	Path string // decoded, as written (starts with "./")
	KV   map[string]string
	Raw  string
	Err  string
}

// ParseMtree parses an mtree(5) body the way libarchive does: words are
// separated by whitespace, the first word is the path with \ooo escapes.
func ParseMtree(b []byte) (lines []MtreeLine, header bool) {
	for i, l := range strings.Split(strings.TrimSuffix(string(b), "\n"), "\n") {
		if i == 0 && l == "#mtree" {
			header = true
			continue
		}
		if l == "" || strings.HasPrefix(l, "#") || strings.HasPrefix(l, "/set") {
			continue
		}
		words := strings.Fields(l)
		ml := MtreeLine{Raw: l, KV: map[string]string{}}
		ml.Path = unvis(words[0])
		for _, w := range words[1:] {
			eq := strings.IndexByte(w, '=')
			if eq <= 0 {
				ml.Err = fmt.Sprintf("word %q is not keyword=value", w)
				break
			}
			ml.KV[w[:eq]] = unvis(w[eq+1:])
		}
		lines = append(lines, ml)
	}
	return
}

func unvis(s string) string {
	if !strings.Contains(s, "\\") {
		return s
	}
	var out []byte
	for i := 0; i < len(s); i++ {
		if s[i] == '\\' && i+3 < len(s) && isOct(s[i+1]) && isOct(s[i+2]) && isOct(s[i+3]) {
			if v, err := strconv.ParseUint(s[i+1:i+4], 8, 8); err == nil {
				out = append(out, byte(v))
				i += 3
				continue
			}
		}
		out = append(out, s[i])
	}
	return string(out)
}

func isOct(c byte) bool { return c >= '0' && c <= '7' }

// ReadFileOrNil is a tiny helper for optional files.
func ReadFileOrNil(p string) []byte {
	b, err := os.ReadFile(p)
	if err != nil {
		return nil
	}
	return b
}
