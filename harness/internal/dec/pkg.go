package dec

import (
	"fmt"
	"path"
	"strings"
)

// Entry is one payload entry of a decoded package, in a format-neutral shape.
type Entry struct {
	Path   string // absolute, cleaned, no trailing slash
	Stored string // the name exactly as stored in the archive / header
	Kind   string // "file", "dir", "symlink", "other"
	Mode   int64  // stored mode field: tar header mode, or rpm FILEMODES (with type bits)
	Owner  string
	Group  string
	UID    int64
	GID    int64
	MTime  int64
	Size   int64
	Data   []byte
	Link   string
	Flags  int64 // rpm FILEFLAGS
	InCpio bool  // rpm: entry has a cpio record
	Tar    *TarEntry
}

type Stamp struct {
	Where string
	Val   int64
}

// Package is the logical view the monitors compare against reference views.
type Package struct {
	Format  string
	Entries []Entry
	Meta    []Field
	Scripts map[string][]byte // slot name as the format calls it -> bytes
	ScriptM map[string]int64  // slot -> stored mode (tar based formats)
	Conf    []string          // conffiles / backup lines
	Stamps  []Stamp
	Errs    []string // structural problems; C04 reports them, other checks treat them as fatal

	// deb
	Ar        *ArArchive
	DataName  string
	DataAlgo  string
	CtrlRaw   []byte // control.tar.gz member bytes as stored
	DataRaw   []byte // data member bytes as stored
	Control   *TarArchive
	DataTar   *TarArchive
	Md5sums   []byte
	Triggers  []byte
	HasCtrl   map[string]bool
	SigMember *ArMember

	// ipk
	Outer *TarArchive

	// apk
	GzMembers []GzMember
	SigTar    *TarArchive
	Pkginfo   []byte

	// archlinux
	Tar      *TarArchive
	MtreeRaw []byte
	MtreeGz  []GzMember
	Mtree    []MtreeLine
	MtreeHdr bool
	Install  []byte

	// rpm
	Rpm         *RpmPackage
	Cpio        *CpioArchive
	PayloadAlgo string
	PayloadUnc  []byte
}

func (p *Package) errf(f string, a ...any) {
	if len(p.Errs) < 40 {
		p.Errs = append(p.Errs, fmt.Sprintf(f, a...))
	}
}

func (p *Package) stamp(where string, v int64) { p.Stamps = append(p.Stamps, Stamp{where, v}) }

func (p *Package) Find(pth string) *Entry {
	for i := range p.Entries {
		if p.Entries[i].Path == pth {
			return &p.Entries[i]
		}
	}
	return nil
}

func (p *Package) MetaGet(name string) (string, bool) { return Get(p.Meta, name) }

func normPath(stored string) string {
	s := stored
	s = strings.TrimPrefix(s, "./")
	s = "/" + strings.TrimLeft(s, "/")
	s = path.Clean(s)
	return s
}

func tarKind(e *TarEntry) string {
	switch {
	case e.IsDir():
		return "dir"
	case e.IsSymlink():
		return "symlink"
	case e.IsReg():
		return "file"
	}
	return "other"
}

func entriesFromTar(p *Package, a *TarArchive, where string) []Entry {
	var out []Entry
	for i := range a.Entries {
		t := &a.Entries[i]
		out = append(out, Entry{
			Path: normPath(t.Name), Stored: t.Name, Kind: tarKind(t), Mode: t.Mode,
			Owner: t.Uname, Group: t.Gname, UID: t.UID, GID: t.GID, MTime: t.MTime,
			Size: t.Size, Data: t.Data, Link: t.Link, Tar: t,
		})
		p.stamp(where+":"+t.Name, t.MTime)
		if t.ATime != 0 {
			p.stamp(where+":atime:"+t.Name, t.ATime)
		}
		if t.CTime != 0 {
			p.stamp(where+":ctime:"+t.Name, t.CTime)
		}
	}
	return out
}

// ------------------------------------------------------------------ deb

var debScriptNames = []string{"preinst", "postinst", "prerm", "postrm", "rules", "templates", "config"}

func decodeControlTar(p *Package, ctrl *TarArchive, scriptNames []string) {
	p.HasCtrl = map[string]bool{}
	p.Scripts = map[string][]byte{}
	p.ScriptM = map[string]int64{}
	for i := range ctrl.Entries {
		e := &ctrl.Entries[i]
		name := strings.TrimPrefix(e.Name, "./")
		p.HasCtrl[name] = true
		p.stamp("control.tar:"+e.Name, e.MTime)
		if e.ATime != 0 {
			p.stamp("control.tar:atime:"+e.Name, e.ATime)
		}
		if e.CTime != 0 {
			p.stamp("control.tar:ctime:"+e.Name, e.CTime)
		}
		switch name {
		case "control":
			fs, errs := ParseDeb822(e.Data)
			p.Meta = fs
			for _, s := range errs {
				p.errf("control: %s", s)
			}
		case "md5sums":
			p.Md5sums = e.Data
		case "conffiles":
			for _, l := range strings.Split(string(e.Data), "\n") {
				if l != "" {
					p.Conf = append(p.Conf, l)
				}
			}
		case "triggers":
			p.Triggers = e.Data
		default:
			for _, s := range scriptNames {
				if s == name {
					p.Scripts[name] = e.Data
					p.ScriptM[name] = e.Mode
				}
			}
		}
	}
}

func DecodeDeb(b []byte, useCLI bool) *Package {
	p := &Package{Format: "deb"}
	p.Ar = ParseAr(b)
	for _, s := range p.Ar.Errs {
		p.errf("ar: %s", s)
	}
	for i := range p.Ar.Members {
		m := &p.Ar.Members[i]
		p.stamp("ar:"+m.Name, m.MTime)
		switch {
		case m.Name == "control.tar.gz":
			p.CtrlRaw = m.Data
		case strings.HasPrefix(m.Name, "data.tar"):
			p.DataName = m.Name
			p.DataRaw = m.Data
		case strings.HasPrefix(m.Name, "_gpg"):
			p.SigMember = m
		}
	}
	if p.CtrlRaw == nil {
		p.errf("no control.tar.gz member")
	} else {
		gz, err := SplitGzip(p.CtrlRaw)
		if err != nil {
			p.errf("control.tar.gz: %v", err)
		}
		var tb []byte
		for _, g := range gz {
			tb = append(tb, g.Data...)
			p.stamp("gzip:control.tar.gz", int64(g.MTime))
		}
		p.Control = ParseTar(tb)
		decodeControlTar(p, p.Control, debScriptNames)
	}
	if p.DataRaw == nil {
		p.errf("no data.tar* member")
		return p
	}
	switch p.DataName {
	case "data.tar.gz":
		p.DataAlgo = "gzip"
	case "data.tar.xz":
		p.DataAlgo = "xz"
	case "data.tar.zst":
		p.DataAlgo = "zstd"
	case "data.tar":
		p.DataAlgo = "none"
	default:
		p.errf("unexpected data member name %q", p.DataName)
		p.DataAlgo = Sniff(p.DataRaw)
	}
	if sn := Sniff(p.DataRaw); sn != p.DataAlgo {
		p.errf("data member %q holds a %s stream", p.DataName, sn)
	}
	if p.DataAlgo == "gzip" {
		if gz, err := SplitGzip(p.DataRaw); err == nil {
			for _, g := range gz {
				p.stamp("gzip:"+p.DataName, int64(g.MTime))
			}
		}
	}
	tb, err := Decompress(p.DataAlgo, p.DataRaw, useCLI)
	if err != nil {
		p.errf("%s: %v", p.DataName, err)
		return p
	}
	p.DataTar = ParseTar(tb)
	p.Entries = entriesFromTar(p, p.DataTar, "data.tar")
	return p
}

// ------------------------------------------------------------------ ipk

var ipkScriptNames = []string{"preinst", "postinst", "prerm", "postrm"}

func DecodeIpk(b []byte) *Package {
	p := &Package{Format: "ipk"}
	gz, err := SplitGzip(b)
	if err != nil {
		p.errf("outer gzip: %v", err)
		return p
	}
	if len(gz) != 1 {
		p.errf("outer stream has %d gzip members, want 1", len(gz))
	}
	var ob []byte
	for _, g := range gz {
		ob = append(ob, g.Data...)
		p.stamp("gzip:outer", int64(g.MTime))
	}
	p.Outer = ParseTar(ob)
	for i := range p.Outer.Entries {
		e := &p.Outer.Entries[i]
		p.stamp("outer.tar:"+e.Name, e.MTime)
		inner := func(label string) *TarArchive {
			g2, err := SplitGzip(e.Data)
			if err != nil {
				p.errf("%s: %v", e.Name, err)
			}
			var tb []byte
			for _, g := range g2 {
				tb = append(tb, g.Data...)
				p.stamp("gzip:"+label, int64(g.MTime))
			}
			return ParseTar(tb)
		}
		switch e.Name {
		case "./control.tar.gz":
			p.CtrlRaw = e.Data
			p.Control = inner("control.tar.gz")
			decodeControlTar(p, p.Control, ipkScriptNames)
		case "./data.tar.gz":
			p.DataRaw = e.Data
			p.DataName = "data.tar.gz"
			p.DataAlgo = "gzip"
			p.DataTar = inner("data.tar.gz")
			p.Entries = entriesFromTar(p, p.DataTar, "data.tar")
		}
	}
	if p.Control == nil {
		p.errf("no ./control.tar.gz in outer tar")
	}
	if p.DataTar == nil {
		p.errf("no ./data.tar.gz in outer tar")
	}
	return p
}

// ------------------------------------------------------------------ apk

var apkScriptNames = []string{".pre-install", ".post-install", ".pre-upgrade", ".post-upgrade", ".pre-deinstall", ".post-deinstall"}

func DecodeApk(b []byte) *Package {
	p := &Package{Format: "apk", Scripts: map[string][]byte{}, ScriptM: map[string]int64{}}
	gz, err := SplitGzip(b)
	if err != nil {
		p.errf("gzip members: %v", err)
	}
	p.GzMembers = gz
	for i, g := range gz {
		p.stamp(fmt.Sprintf("gzip:member%d", i), int64(g.MTime))
	}
	if len(gz) < 2 || len(gz) > 3 {
		p.errf("%d gzip members, want 2 (unsigned) or 3 (signed)", len(gz))
		if len(gz) < 2 {
			return p
		}
	}
	ci := 0
	if len(gz) >= 3 {
		p.SigTar = ParseTar(gz[0].Data)
		for i := range p.SigTar.Entries {
			p.stamp("sig.tar:"+p.SigTar.Entries[i].Name, p.SigTar.Entries[i].MTime)
		}
		ci = 1
	}
	p.CtrlRaw = gz[ci].Raw
	p.Control = ParseTar(gz[ci].Data)
	for i := range p.Control.Entries {
		e := &p.Control.Entries[i]
		p.stamp("control.tar:"+e.Name, e.MTime)
		if e.ATime != 0 {
			p.stamp("control.tar:atime:"+e.Name, e.ATime)
		}
		if e.CTime != 0 {
			p.stamp("control.tar:ctime:"+e.Name, e.CTime)
		}
		if e.Name == ".PKGINFO" {
			p.Pkginfo = e.Data
			p.Meta = ParsePkginfo(e.Data)
			continue
		}
		for _, s := range apkScriptNames {
			if s == e.Name {
				p.Scripts[s] = e.Data
				p.ScriptM[s] = e.Mode
			}
		}
	}
	p.DataRaw = gz[ci+1].Raw
	p.DataTar = ParseTar(gz[ci+1].Data)
	p.Entries = entriesFromTar(p, p.DataTar, "data.tar")
	return p
}

// ------------------------------------------------------------------ archlinux

func DecodeArch(b []byte) *Package {
	p := &Package{Format: "archlinux", Scripts: map[string][]byte{}}
	if Sniff(b) != "zstd" {
		p.errf("not a zstd stream")
	}
	tb, err := Unzstd(b)
	if err != nil {
		p.errf("zstd: %v", err)
		return p
	}
	p.Tar = ParseTar(tb)
	all := entriesFromTar(p, p.Tar, "tar")
	for _, e := range all {
		switch e.Stored {
		case ".PKGINFO":
			p.Pkginfo = e.Data
			p.Meta = ParsePkginfo(e.Data)
			for _, f := range p.Meta {
				if f.Name == "backup" {
					p.Conf = append(p.Conf, f.Value)
				}
				if f.Name == "builddate" {
					var v int64
					fmt.Sscan(f.Value, &v)
					p.stamp("pkginfo:builddate", v)
				}
			}
		case ".MTREE":
			p.MtreeRaw = e.Data
			g, err := SplitGzip(e.Data)
			if err != nil {
				p.errf(".MTREE: %v", err)
			}
			p.MtreeGz = g
			var mb []byte
			for _, m := range g {
				mb = append(mb, m.Data...)
				p.stamp("gzip:.MTREE", int64(m.MTime))
			}
			p.Mtree, p.MtreeHdr = ParseMtree(mb)
			for _, l := range p.Mtree {
				if t, ok := l.KV["time"]; ok {
					var v int64
					fmt.Sscan(strings.SplitN(t, ".", 2)[0], &v)
					p.stamp("mtree:"+l.Path, v)
				}
			}
		case ".INSTALL":
			p.Install = e.Data
		default:
			p.Entries = append(p.Entries, e)
		}
	}
	return p
}

// ------------------------------------------------------------------ rpm

func DecodeRpm(b []byte, useCLI bool) *Package {
	p := &Package{Format: "rpm", Scripts: map[string][]byte{}}
	r := ParseRpm(b)
	p.Rpm = r
	for _, s := range r.Errs {
		p.errf("rpm: %s", s)
	}
	if r.Hdr == nil {
		return p
	}
	for _, s := range r.Sig.Errs {
		p.errf("rpm signature header: %s", s)
	}
	for _, s := range r.Hdr.Errs {
		p.errf("rpm header: %s", s)
	}
	h := r.Hdr
	for tag, name := range map[int]string{
		RpmTagPrein: "prein", RpmTagPostin: "postin", RpmTagPreun: "preun", RpmTagPostun: "postun",
		RpmTagPretrans: "pretrans", RpmTagPosttrans: "posttrans", RpmTagVerifyScript: "verifyscript",
	} {
		if s, ok := h.Str(tag); ok {
			p.Scripts[name] = []byte(s)
		}
	}
	if bt := h.IntList(RpmTagBuildTime); len(bt) > 0 {
		p.stamp("rpm:buildtime", bt[0])
	}
	for i, v := range h.IntList(RpmTagChangelogTime) {
		p.stamp(fmt.Sprintf("rpm:changelogtime[%d]", i), v)
	}
	algo, _ := h.Str(RpmTagPayloadComp)
	p.PayloadAlgo = algo
	if sn := Sniff(r.PayloadRaw); sn != algo {
		p.errf("payload compressor tag says %q, stream looks like %q", algo, sn)
		algo = sn
	}
	if algo == "gzip" {
		if gz, err := SplitGzip(r.PayloadRaw); err == nil {
			for _, g := range gz {
				p.stamp("gzip:payload", int64(g.MTime))
			}
		}
	}
	unc, err := Decompress(algo, r.PayloadRaw, useCLI)
	if err != nil {
		p.errf("payload (%s): %v", algo, err)
		return p
	}
	p.PayloadUnc = unc
	p.Cpio = ParseCpio(unc)
	for _, s := range p.Cpio.Errs {
		p.errf("cpio: %s", s)
	}
	if !p.Cpio.Trailer {
		p.errf("cpio: no trailer")
	}
	cp := map[string]*CpioEntry{}
	for i := range p.Cpio.Entries {
		c := &p.Cpio.Entries[i]
		cp[normPath(c.Name)] = c
		p.stamp("cpio:"+c.Name, c.MTime)
	}
	if !h.Has(RpmTagBasenames) {
		if len(p.Cpio.Entries) > 0 {
			p.errf("header has no file list but the cpio has %d entries", len(p.Cpio.Entries))
		}
		return p
	}
	files, errs := r.Files()
	for _, s := range errs {
		p.errf("rpm file table: %s", s)
	}
	for _, f := range files {
		e := Entry{
			Path: normPath(f.Name), Stored: f.Name, Mode: f.Mode, Owner: f.User, Group: f.Group,
			MTime: f.MTime, Size: f.Size, Link: f.LinkTo, Flags: f.Flags,
		}
		switch f.Mode & 0o170000 {
		case 0o040000:
			e.Kind = "dir"
		case 0o120000:
			e.Kind = "symlink"
		case 0o100000:
			e.Kind = "file"
		default:
			e.Kind = "other"
		}
		if c := cp[e.Path]; c != nil {
			e.InCpio = true
			e.Data = c.Data
		}
		p.stamp("rpm:filemtime:"+f.Name, f.MTime)
		p.Entries = append(p.Entries, e)
	}
	return p
}

// Decode dispatches on the nfpm format name.
func Decode(format string, b []byte, useCLI bool) *Package {
	switch format {
	case "deb":
		return DecodeDeb(b, useCLI)
	case "ipk":
		return DecodeIpk(b)
	case "apk":
		return DecodeApk(b)
	case "archlinux":
		return DecodeArch(b)
	case "rpm":
		return DecodeRpm(b, useCLI)
	}
	p := &Package{Format: format}
	p.errf("unknown format")
	return p
}
