// Package dec contains the harness-owned readers for every container nfpm
// writes. None of this code is shared with nfpm's writers: tar is parsed from
// raw 512-byte blocks so that the checks can see what archive/tar's Reader
// hides (octal vs base-256 numeric fields, end-of-archive blocks, alignment).
package dec

import (
	"bytes"
	"fmt"
	"strconv"
	"strings"
)

type TarEntry struct {
	Name     string // effective name (after GNU long name / PAX path)
	RawName  string // name+prefix fields of the ustar header itself
	Link     string
	Type     byte
	Mode     int64
	UID, GID int64
	Uname    string
	Gname    string
	Size     int64
	MTime    int64
	Format   string // "v7", "ustar", "gnu"; "+pax" appended when a PAX header preceded it
	PAX      map[string]string
	Data     []byte
	Base256  []string // numeric header fields stored in base-256 (GNU binary) form
	Offset   int64
	ATime    int64 // GNU header / PAX access time (0 = absent)
	CTime    int64 // GNU header / PAX change time (0 = absent)
}

func (e *TarEntry) IsDir() bool     { return e.Type == '5' }
func (e *TarEntry) IsReg() bool     { return e.Type == '0' || e.Type == 0 || e.Type == '7' }
func (e *TarEntry) IsSymlink() bool { return e.Type == '2' }

type TarArchive struct {
	Entries   []TarEntry
	EndBlocks int   // number of all-zero 512 blocks terminating the archive
	Len       int64 // total length of the byte stream
	Aligned   bool  // Len is a multiple of 512
	Trailing  int64 // non-zero bytes after the end marker
	Errs      []string
}

func (a *TarArchive) Find(name string) *TarEntry {
	for i := range a.Entries {
		if a.Entries[i].Name == name {
			return &a.Entries[i]
		}
	}
	return nil
}

func allZero(b []byte) bool {
	for _, c := range b {
		if c != 0 {
			return false
		}
	}
	return true
}

func cstr(b []byte) string {
	if i := bytes.IndexByte(b, 0); i >= 0 {
		b = b[:i]
	}
	return string(b)
}

// numeric parses an octal or base-256 tar numeric field.
func numeric(b []byte) (v int64, base256 bool, err error) {
	if len(b) > 0 && b[0]&0x80 != 0 {
		// GNU base-256: first bit set; two's complement big endian
		var x uint64
		neg := b[0]&0x40 != 0
		for i, c := range b {
			if i == 0 {
				c &= 0x7f
				if neg {
					c |= 0x80
				}
			}
			if neg {
				c = ^c
			}
			if x>>56 != 0 {
				return 0, true, fmt.Errorf("base-256 overflow")
			}
			x = x<<8 | uint64(c)
		}
		if neg {
			return -int64(x) - 1, true, nil
		}
		return int64(x), true, nil
	}
	s := strings.Trim(cstr(b), " ")
	if s == "" {
		return 0, false, nil
	}
	u, err := strconv.ParseUint(s, 8, 64)
	if err != nil {
		return 0, false, fmt.Errorf("bad octal field %q", s)
	}
	return int64(u), false, nil
}

func parsePAX(b []byte) (map[string]string, error) {
	m := map[string]string{}
	for len(b) > 0 {
		sp := bytes.IndexByte(b, ' ')
		if sp < 0 {
			return m, fmt.Errorf("pax record without length")
		}
		n, err := strconv.Atoi(string(b[:sp]))
		if err != nil || n <= sp+1 || n > len(b) {
			return m, fmt.Errorf("pax record bad length %q", b[:sp])
		}
		rec := b[sp+1 : n]
		if len(rec) == 0 || rec[len(rec)-1] != '\n' {
			return m, fmt.Errorf("pax record not newline terminated")
		}
		rec = rec[:len(rec)-1]
		eq := bytes.IndexByte(rec, '=')
		if eq < 0 {
			return m, fmt.Errorf("pax record without '='")
		}
		m[string(rec[:eq])] = string(rec[eq+1:])
		b = b[n:]
	}
	return m, nil
}

// ParseTar walks the raw blocks of a tar byte stream.
func ParseTar(b []byte) *TarArchive {
	a := &TarArchive{Len: int64(len(b)), Aligned: len(b)%512 == 0}
	var off int64
	var longName, longLink string
	var pax map[string]string
	errf := func(f string, args ...any) {
		if len(a.Errs) < 20 {
			a.Errs = append(a.Errs, fmt.Sprintf(f, args...))
		}
	}
	for {
		if off == int64(len(b)) {
			break
		}
		if int64(len(b))-off < 512 {
			errf("truncated: %d stray bytes at offset %d", int64(len(b))-off, off)
			break
		}
		h := b[off : off+512]
		if allZero(h) {
			// end of archive: count zero blocks, look for trailing garbage
			rest := b[off:]
			n := 0
			for len(rest) >= 512 && allZero(rest[:512]) {
				n++
				rest = rest[512:]
			}
			a.EndBlocks = n
			for _, c := range rest {
				if c != 0 {
					a.Trailing++
				}
			}
			if len(rest) > 0 && !allZero(rest) {
				errf("non-zero data after end-of-archive marker at offset %d", int64(len(b))-int64(len(rest)))
			}
			break
		}
		// checksum
		var sum int64
		for i, c := range h {
			if i >= 148 && i < 156 {
				c = ' '
			}
			sum += int64(c)
		}
		want, _, err := numeric(h[148:156])
		if err != nil || want != sum {
			errf("bad header checksum at offset %d", off)
			break
		}
		e := TarEntry{Offset: off}
		num := func(field string, lo, hi int) int64 {
			v, b256, err := numeric(h[lo:hi])
			if err != nil {
				errf("%s: %v (offset %d)", field, err, off)
			}
			if b256 {
				e.Base256 = append(e.Base256, field)
			}
			return v
		}
		e.RawName = cstr(h[0:100])
		e.Mode = num("mode", 100, 108)
		e.UID = num("uid", 108, 116)
		e.GID = num("gid", 116, 124)
		e.Size = num("size", 124, 136)
		e.MTime = num("mtime", 136, 148)
		e.Type = h[156]
		e.Link = cstr(h[157:257])
		magic := string(h[257:265])
		switch {
		case magic == "ustar\x0000":
			e.Format = "ustar"
			e.Uname = cstr(h[265:297])
			e.Gname = cstr(h[297:329])
			if p := cstr(h[345:500]); p != "" {
				e.RawName = p + "/" + e.RawName
			}
		case magic == "ustar  \x00":
			e.Format = "gnu"
			e.Uname = cstr(h[265:297])
			e.Gname = cstr(h[297:329])
			if v, _, err := numeric(h[345:357]); err == nil {
				e.ATime = v
			}
			if v, _, err := numeric(h[357:369]); err == nil {
				e.CTime = v
			}
		default:
			e.Format = "v7"
		}
		e.Name = e.RawName
		dataLen := e.Size
		if e.Type == '1' || e.Type == '2' || e.Type == '3' || e.Type == '4' || e.Type == '5' || e.Type == '6' {
			dataLen = 0
		}
		padded := (dataLen + 511) &^ 511
		if off+512+padded > int64(len(b)) {
			errf("entry %q: data (%d bytes) runs past end of stream", e.Name, dataLen)
			break
		}
		data := b[off+512 : off+512+dataLen]
		off += 512 + padded
		switch e.Type {
		case 'L':
			longName = cstr(data)
			continue
		case 'K':
			longLink = cstr(data)
			continue
		case 'x':
			m, err := parsePAX(data)
			if err != nil {
				errf("pax header before offset %d: %v", off, err)
			}
			pax = m
			continue
		case 'g':
			continue
		}
		if longName != "" {
			e.Name = longName
			longName = ""
		}
		if longLink != "" {
			e.Link = longLink
			longLink = ""
		}
		if pax != nil {
			e.PAX = pax
			e.Format += "+pax"
			for k, v := range pax {
				switch k {
				case "path":
					e.Name = v
				case "linkpath":
					e.Link = v
				case "uname":
					e.Uname = v
				case "gname":
					e.Gname = v
				case "size":
					// the data length was taken from the header; nfpm never
					// writes files that need a PAX size record
					if n, err := strconv.ParseInt(v, 10, 64); err == nil && n != e.Size {
						errf("entry %q: PAX size %d differs from header size %d", e.Name, n, e.Size)
					}
				case "mtime":
					if i := strings.IndexByte(v, '.'); i >= 0 {
						v = v[:i]
					}
					if n, err := strconv.ParseInt(v, 10, 64); err == nil {
						e.MTime = n
					}
				case "atime", "ctime":
					t := v
					if i := strings.IndexByte(t, '.'); i >= 0 {
						t = t[:i]
					}
					if n, err := strconv.ParseInt(t, 10, 64); err == nil {
						if k == "atime" {
							e.ATime = n
						} else {
							e.CTime = n
						}
					}
				case "uid":
					if n, err := strconv.ParseInt(v, 10, 64); err == nil {
						e.UID = n
					}
				case "gid":
					if n, err := strconv.ParseInt(v, 10, 64); err == nil {
						e.GID = n
					}
				}
			}
			pax = nil
		}
		e.Data = data
		a.Entries = append(a.Entries, e)
	}
	return a
}
