package dec

import (
	"bytes"
	"encoding/binary"
	"fmt"
)

// RPM tag numbers used by the checks.
const (
	RpmTagName          = 1000
	RpmTagVersion       = 1001
	RpmTagRelease       = 1002
	RpmTagEpoch         = 1003
	RpmTagSummary       = 1004
	RpmTagDescription   = 1005
	RpmTagBuildTime     = 1006
	RpmTagBuildHost     = 1007
	RpmTagSize          = 1009
	RpmTagVendor        = 1011
	RpmTagLicense       = 1014
	RpmTagPackager      = 1015
	RpmTagGroup         = 1016
	RpmTagURL           = 1020
	RpmTagOS            = 1021
	RpmTagArch          = 1022
	RpmTagPrein         = 1023
	RpmTagPostin        = 1024
	RpmTagPreun         = 1025
	RpmTagPostun        = 1026
	RpmTagFileSizes     = 1028
	RpmTagFileModes     = 1030
	RpmTagFileMtimes    = 1034
	RpmTagFileDigests   = 1035
	RpmTagFileLinktos   = 1036
	RpmTagFileFlags     = 1037
	RpmTagFileUsername  = 1039
	RpmTagFileGroupname = 1040
	RpmTagSourceRPM     = 1044
	RpmTagProvideName   = 1047
	RpmTagRequireFlags  = 1048
	RpmTagRequireName   = 1049
	RpmTagRequireVer    = 1050
	RpmTagConflictFlags = 1053
	RpmTagConflictName  = 1054
	RpmTagConflictVer   = 1055
	RpmTagChangelogTime = 1080
	RpmTagChangelogName = 1081
	RpmTagChangelogText = 1082
	RpmTagVerifyScript  = 1079
	RpmTagObsoleteName  = 1090
	RpmTagPrefixes      = 1098
	RpmTagProvideFlags  = 1112
	RpmTagProvideVer    = 1113
	RpmTagObsoleteFlags = 1114
	RpmTagObsoleteVer   = 1115
	RpmTagDirIndexes    = 1116
	RpmTagBasenames     = 1117
	RpmTagDirnames      = 1118
	RpmTagPayloadFormat = 1124
	RpmTagPayloadComp   = 1125
	RpmTagPretrans      = 1151
	RpmTagPosttrans     = 1152
	RpmTagFileDigestAlg = 5011
	RpmTagRecommendName = 5046
	RpmTagRecommendVer  = 5047
	RpmTagRecommendFlag = 5048
	RpmTagSuggestName   = 5049
	RpmTagSuggestVer    = 5050
	RpmTagSuggestFlag   = 5051
	RpmTagPayloadDigest = 5092
	RpmTagPayloadDigAlg = 5093

	RpmSigSize        = 1000
	RpmSigPGP         = 1002
	RpmSigPayloadSize = 1007
	RpmSigRSA         = 268
	RpmSigSHA256      = 273
)

type RpmTag struct {
	Tag    int
	Type   int
	Offset int
	Count  int
	Ints   []int64
	Strs   []string
	Bin    []byte
}

type RpmHeader struct {
	Tags  map[int]*RpmTag
	Order []int
	Blob  []byte // the header exactly as stored (magic..store), what rpm hashes and signs
	Errs  []string
}

func (h *RpmHeader) Str(tag int) (string, bool) {
	t := h.Tags[tag]
	if t == nil || len(t.Strs) == 0 {
		return "", false
	}
	return t.Strs[0], true
}

func (h *RpmHeader) StrList(tag int) []string {
	t := h.Tags[tag]
	if t == nil {
		return nil
	}
	return t.Strs
}

func (h *RpmHeader) IntList(tag int) []int64 {
	t := h.Tags[tag]
	if t == nil {
		return nil
	}
	return t.Ints
}

func (h *RpmHeader) Has(tag int) bool { return h.Tags[tag] != nil }

type RpmFile struct {
	Name   string
	Size   int64
	Mode   int64
	MTime  int64
	Digest string
	LinkTo string
	Flags  int64
	User   string
	Group  string
}

type RpmPackage struct {
	Lead          []byte
	LeadName      string
	Sig           *RpmHeader
	SigOffset     int
	SigPad        int
	Hdr           *RpmHeader
	HdrOffset     int
	PayloadRaw    []byte
	PayloadOffset int
	Errs          []string
}

func parseRpmHeader(b []byte) (*RpmHeader, int, error) {
	if len(b) < 16 {
		return nil, 0, fmt.Errorf("header intro truncated")
	}
	if !bytes.Equal(b[:3], []byte{0x8e, 0xad, 0xe8}) || b[3] != 1 {
		return nil, 0, fmt.Errorf("bad header magic % x", b[:4])
	}
	nidx := int(binary.BigEndian.Uint32(b[8:12]))
	hsize := int(binary.BigEndian.Uint32(b[12:16]))
	total := 16 + 16*nidx + hsize
	if total > len(b) || nidx > 1<<20 {
		return nil, 0, fmt.Errorf("header claims %d index entries and %d store bytes, only %d bytes left", nidx, hsize, len(b))
	}
	h := &RpmHeader{Tags: map[int]*RpmTag{}, Blob: b[:total]}
	store := b[16+16*nidx : total]
	for i := 0; i < nidx; i++ {
		e := b[16+16*i : 32+16*i]
		t := &RpmTag{
			Tag:    int(binary.BigEndian.Uint32(e[0:4])),
			Type:   int(binary.BigEndian.Uint32(e[4:8])),
			Offset: int(binary.BigEndian.Uint32(e[8:12])),
			Count:  int(binary.BigEndian.Uint32(e[12:16])),
		}
		if t.Offset > len(store) {
			h.Errs = append(h.Errs, fmt.Sprintf("tag %d offset %d outside store (%d)", t.Tag, t.Offset, len(store)))
			continue
		}
		if t.Count == 0 {
			h.Errs = append(h.Errs, fmt.Sprintf("tag %d has count 0 (librpm rejects such a header: 'hdr data: BAD')", t.Tag))
		}
		d := store[t.Offset:]
		bad := func() {
			h.Errs = append(h.Errs, fmt.Sprintf("tag %d (type %d count %d) runs past the store", t.Tag, t.Type, t.Count))
		}
		switch t.Type {
		case 0: // NULL
		case 1, 2: // CHAR, INT8
			if len(d) < t.Count {
				bad()
				break
			}
			for j := 0; j < t.Count; j++ {
				t.Ints = append(t.Ints, int64(d[j]))
			}
		case 3:
			if t.Offset%2 != 0 {
				h.Errs = append(h.Errs, fmt.Sprintf("tag %d: INT16 data not 2-aligned", t.Tag))
			}
			if len(d) < 2*t.Count {
				bad()
				break
			}
			for j := 0; j < t.Count; j++ {
				t.Ints = append(t.Ints, int64(binary.BigEndian.Uint16(d[2*j:])))
			}
		case 4:
			if t.Offset%4 != 0 {
				h.Errs = append(h.Errs, fmt.Sprintf("tag %d: INT32 data not 4-aligned", t.Tag))
			}
			if len(d) < 4*t.Count {
				bad()
				break
			}
			for j := 0; j < t.Count; j++ {
				t.Ints = append(t.Ints, int64(binary.BigEndian.Uint32(d[4*j:])))
			}
		case 5:
			if t.Offset%8 != 0 {
				h.Errs = append(h.Errs, fmt.Sprintf("tag %d: INT64 data not 8-aligned", t.Tag))
			}
			if len(d) < 8*t.Count {
				bad()
				break
			}
			for j := 0; j < t.Count; j++ {
				t.Ints = append(t.Ints, int64(binary.BigEndian.Uint64(d[8*j:])))
			}
		case 6, 8, 9:
			n := t.Count
			if t.Type == 6 && n != 1 {
				h.Errs = append(h.Errs, fmt.Sprintf("tag %d: STRING with count %d", t.Tag, n))
			}
			p := d
			for j := 0; j < n; j++ {
				z := bytes.IndexByte(p, 0)
				if z < 0 {
					bad()
					break
				}
				t.Strs = append(t.Strs, string(p[:z]))
				p = p[z+1:]
			}
		case 7:
			if len(d) < t.Count {
				bad()
				break
			}
			t.Bin = d[:t.Count]
		default:
			h.Errs = append(h.Errs, fmt.Sprintf("tag %d: unknown type %d", t.Tag, t.Type))
		}
		if _, dup := h.Tags[t.Tag]; dup {
			h.Errs = append(h.Errs, fmt.Sprintf("tag %d appears twice", t.Tag))
		}
		h.Tags[t.Tag] = t
		h.Order = append(h.Order, t.Tag)
	}
	return h, total, nil
}

func ParseRpm(b []byte) *RpmPackage {
	p := &RpmPackage{}
	if len(b) < 96 {
		p.Errs = append(p.Errs, "shorter than the 96-byte lead")
		return p
	}
	p.Lead = b[:96]
	if !bytes.Equal(b[:4], []byte{0xed, 0xab, 0xee, 0xdb}) {
		p.Errs = append(p.Errs, "bad lead magic")
		return p
	}
	p.LeadName = cstr(b[10:76])
	p.SigOffset = 96
	sig, n, err := parseRpmHeader(b[96:])
	if err != nil {
		p.Errs = append(p.Errs, "signature header: "+err.Error())
		return p
	}
	p.Sig = sig
	off := 96 + n
	pad := (8 - off%8) % 8
	// (the lead is 96 bytes, a multiple of 8, so aligning the absolute offset
	// aligns the signature header's length)
	if off+pad > len(b) {
		p.Errs = append(p.Errs, "signature padding runs past end")
		return p
	}
	for _, c := range b[off : off+pad] {
		if c != 0 {
			p.Errs = append(p.Errs, "signature padding is not zero")
			break
		}
	}
	p.SigPad = pad
	off += pad
	p.HdrOffset = off
	hdr, n2, err := parseRpmHeader(b[off:])
	if err != nil {
		p.Errs = append(p.Errs, fmt.Sprintf("main header at offset %d (after %d pad bytes): %v", off, pad, err))
		return p
	}
	p.Hdr = hdr
	off += n2
	p.PayloadOffset = off
	p.PayloadRaw = b[off:]
	return p
}

// Files reconstructs the per-file table from the header arrays.
func (p *RpmPackage) Files() ([]RpmFile, []string) {
	var errs []string
	h := p.Hdr
	base := h.StrList(RpmTagBasenames)
	dirs := h.StrList(RpmTagDirnames)
	didx := h.IntList(RpmTagDirIndexes)
	n := len(base)
	chk := func(name string, l int) bool {
		if l != n {
			errs = append(errs, fmt.Sprintf("%s has %d items, basenames %d", name, l, n))
			return false
		}
		return true
	}
	ok := chk("dirindexes", len(didx))
	sizes := h.IntList(RpmTagFileSizes)
	modes := h.IntList(RpmTagFileModes)
	mtimes := h.IntList(RpmTagFileMtimes)
	digs := h.StrList(RpmTagFileDigests)
	links := h.StrList(RpmTagFileLinktos)
	flags := h.IntList(RpmTagFileFlags)
	users := h.StrList(RpmTagFileUsername)
	groups := h.StrList(RpmTagFileGroupname)
	ok = chk("filesizes", len(sizes)) && ok
	ok = chk("filemodes", len(modes)) && ok
	ok = chk("filemtimes", len(mtimes)) && ok
	ok = chk("filedigests", len(digs)) && ok
	ok = chk("filelinktos", len(links)) && ok
	ok = chk("fileflags", len(flags)) && ok
	ok = chk("fileusername", len(users)) && ok
	ok = chk("filegroupname", len(groups)) && ok
	if !ok {
		return nil, errs
	}
	out := make([]RpmFile, n)
	for i := 0; i < n; i++ {
		if int(didx[i]) >= len(dirs) {
			errs = append(errs, fmt.Sprintf("dirindex %d out of range", didx[i]))
			continue
		}
		out[i] = RpmFile{
			Name: dirs[didx[i]] + base[i], Size: sizes[i], Mode: modes[i], MTime: mtimes[i],
			Digest: digs[i], LinkTo: links[i], Flags: flags[i], User: users[i], Group: groups[i],
		}
	}
	return out, errs
}
