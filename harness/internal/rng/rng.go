// Package rng is a small deterministic PRNG (splitmix64) so that the case list
// of a run is a pure function of (seed, tier).
package rng

type R struct{ s uint64 }

func New(seed uint64) *R { return &R{s: seed*0x9E3779B97F4A7C15 + 0x1234567} }

// Fork derives an independent stream identified by a label.
func (r *R) Fork(label uint64) *R {
	return New(r.U64() ^ (label * 0xBF58476D1CE4E5B9))
}

func (r *R) U64() uint64 {
	r.s += 0x9E3779B97F4A7C15
	z := r.s
	z = (z ^ (z >> 30)) * 0xBF58476D1CE4E5B9
	z = (z ^ (z >> 27)) * 0x94D049BB133111EB
	return z ^ (z >> 31)
}

// Intn returns a value in [0,n).
func (r *R) Intn(n int) int {
	if n <= 0 {
		return 0
	}
	return int(r.U64() % uint64(n))
}

// Range returns a value in [lo,hi].
func (r *R) Range(lo, hi int) int { return lo + r.Intn(hi-lo+1) }

func (r *R) Bool() bool { return r.U64()&1 == 1 }

// P returns true with probability num/den.
func (r *R) P(num, den int) bool { return r.Intn(den) < num }

func Pick[T any](r *R, xs []T) T { return xs[r.Intn(len(xs))] }

func (r *R) Bytes(n int) []byte {
	b := make([]byte, n)
	for i := 0; i < n; i += 8 {
		v := r.U64()
		for j := 0; j < 8 && i+j < n; j++ {
			b[i+j] = byte(v >> (8 * j))
		}
	}
	return b
}

func (r *R) Shuffle(n int, swap func(i, j int)) {
	for i := n - 1; i > 0; i-- {
		j := r.Intn(i + 1)
		swap(i, j)
	}
}
