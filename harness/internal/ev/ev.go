// Package ev holds the run bookkeeping shared by all checks: three-valued
// verdicts, the known-findings matcher, replay files and the evidence writer.
package ev

import (
	"encoding/json"
	"fmt"
	"os"
	"path/filepath"
	"sort"
	"strconv"
	"strings"
	"sync"
	"time"
)

// Finding is one entry of /verif/known_findings.json. The file is read-only at
// run time. Status "known" suppresses a violation with exactly that key (the
// check prints KNOWN-FINDING and goes on); status "fixed" suppresses nothing.
type Finding struct {
	Property string `json:"property"`
	Status   string `json:"status"`
	Key      string `json:"key"`
	Commit   string `json:"commit,omitempty"`
	What     string `json:"what"`
}

type findingsFile struct {
	Findings []Finding `json:"findings"`
}

// Violation is one refuting observation. Key is the narrow structured
// signature (format / sub-clause / input shape) matched against known findings.
type Violation struct {
	Key    string `json:"key"`
	Detail any    `json:"detail"`
	Replay string `json:"replay,omitempty"`
}

type Run struct {
	ID    string
	Tier  string
	Seed  int64
	Level string
	Rule  string

	mu           sync.Mutex
	start        time.Time
	evaluations  int
	distinct     map[string]struct{}
	samples      []any
	maxSamples   int
	extra        map[string]any
	counters     map[string]int64
	assumptions  []string
	violations   []Violation
	knownHits    map[string]int
	inconclusive []string
	findings     []Finding
	verifDir     string
	exhaustive   *bool
	violKeys     map[string]int
	bulkDistinct int
}

func VerifDir() string {
	if d := os.Getenv("VERIF_DIR"); d != "" {
		return d
	}
	return "/verif"
}

// evidenceDir is /verif/evidence unless VERIF_EVIDENCE_DIR redirects it (used
// when the checks are pointed at a deliberately broken tree, so that the
// committed evidence is only ever written by runs against the real tree).
func evidenceDir(verif string) string {
	if d := os.Getenv("VERIF_EVIDENCE_DIR"); d != "" {
		return d
	}
	return filepath.Join(verif, "evidence")
}

func Seed() int64 {
	s := os.Getenv("VERIF_SEED")
	if s == "" {
		return 1
	}
	v, err := strconv.ParseInt(s, 10, 64)
	if err != nil {
		return 1
	}
	return v
}

func NewRun(id, tier, level string) *Run {
	r := &Run{
		ID: id, Tier: tier, Seed: Seed(), Level: level,
		start: time.Now(), distinct: map[string]struct{}{}, maxSamples: 6,
		extra: map[string]any{}, counters: map[string]int64{}, knownHits: map[string]int{},
		verifDir: VerifDir(), violKeys: map[string]int{},
	}
	b, err := os.ReadFile(filepath.Join(r.verifDir, "known_findings.json"))
	if err == nil {
		var ff findingsFile
		if err := json.Unmarshal(b, &ff); err != nil {
			r.Inconclusive("known_findings.json does not parse: " + err.Error())
		}
		r.findings = ff.Findings
	}
	return r
}

// Case records one executed case. fingerprint identifies the case's shape;
// nontrivial says whether it meets the property-specific rule.
func (r *Run) Case(fingerprint string, nontrivial bool) {
	r.mu.Lock()
	defer r.mu.Unlock()
	r.evaluations++
	if nontrivial {
		r.distinct[fingerprint] = struct{}{}
	}
}

// Bulk records cases of an enumeration whose members are distinct by
// construction (each list is generated exactly once), without storing a
// fingerprint per case.
func (r *Run) Bulk(evaluations, distinctNontrivial int) {
	r.mu.Lock()
	r.evaluations += evaluations
	r.bulkDistinct += distinctNontrivial
	r.mu.Unlock()
}

// Eval counts executions that are not separately fingerprinted.
func (r *Run) Eval(n int) {
	r.mu.Lock()
	r.evaluations += n
	r.mu.Unlock()
}

func (r *Run) Sample(s any) {
	r.mu.Lock()
	defer r.mu.Unlock()
	if len(r.samples) < r.maxSamples {
		r.samples = append(r.samples, s)
	}
}

func (r *Run) Count(name string, n int64) {
	r.mu.Lock()
	r.counters[name] += n
	r.mu.Unlock()
}

func (r *Run) Counter(name string) int64 {
	r.mu.Lock()
	defer r.mu.Unlock()
	return r.counters[name]
}

func (r *Run) Set(name string, v any) {
	r.mu.Lock()
	r.extra[name] = v
	r.mu.Unlock()
}

func (r *Run) SetExhaustive(b bool) { r.exhaustive = &b }

func (r *Run) Assume(s string) {
	r.mu.Lock()
	r.assumptions = append(r.assumptions, s)
	r.mu.Unlock()
}

func (r *Run) Inconclusive(why string) {
	r.mu.Lock()
	defer r.mu.Unlock()
	if len(r.inconclusive) < 50 {
		r.inconclusive = append(r.inconclusive, why)
	}
}

// Violate records a violation. If its key matches a "known" finding of this
// property it is counted as a known-finding hit instead.
func (r *Run) Violate(key string, detail any) {
	r.mu.Lock()
	defer r.mu.Unlock()
	for _, f := range r.findings {
		if f.Property == r.ID && f.Status == "known" && f.Key == key {
			r.knownHits[key]++
			return
		}
	}
	r.violKeys[key]++
	// keep at most 3 full records per key and 40 overall
	if r.violKeys[key] > 3 || len(r.violations) >= 40 {
		return
	}
	v := Violation{Key: key, Detail: detail}
	dir := filepath.Join(evidenceDir(r.verifDir), "replay")
	_ = os.MkdirAll(dir, 0o755)
	p := filepath.Join(dir, fmt.Sprintf("%s-%d-%d.json", r.ID, r.Seed, len(r.violations)))
	b, _ := json.MarshalIndent(map[string]any{
		"property": r.ID, "seed": r.Seed, "tier": r.Tier, "key": key, "detail": detail,
	}, "", " ")
	if err := os.WriteFile(p, b, 0o644); err == nil {
		v.Replay = p
	}
	r.violations = append(r.violations, v)
}

func (r *Run) Violations() int {
	r.mu.Lock()
	defer r.mu.Unlock()
	n := 0
	for _, c := range r.violKeys {
		n += c
	}
	return n
}

// Finish writes the evidence file, prints the contract lines and returns the
// process exit code: 0 held, 1 violation, 2 inconclusive / broken.
func (r *Run) Finish() int {
	r.mu.Lock()
	defer r.mu.Unlock()
	wall := time.Since(r.start).Seconds()

	cov := map[string]any{}
	for k, v := range r.extra {
		cov[k] = v
	}
	for k, v := range r.counters {
		cov[k] = v
	}
	cov["evaluations"] = r.evaluations
	cov["distinct_nontrivial"] = len(r.distinct) + r.bulkDistinct
	cov["rule"] = r.Rule
	samples := r.samples
	if samples == nil {
		samples = []any{}
	}
	cov["samples"] = samples
	if r.exhaustive != nil {
		cov["exhaustive"] = *r.exhaustive
	}
	kh := []string{}
	for k, n := range r.knownHits {
		kh = append(kh, fmt.Sprintf("%s x%d", k, n))
	}
	sort.Strings(kh)
	cov["known_finding_hits"] = kh
	if len(r.inconclusive) > 0 {
		cov["inconclusive"] = r.inconclusive
	}
	nviol := 0
	vk := []string{}
	for k, n := range r.violKeys {
		nviol += n
		vk = append(vk, fmt.Sprintf("%s x%d", k, n))
	}
	sort.Strings(vk)
	if len(vk) > 0 {
		cov["violation_keys"] = vk
	}
	verdict := "held"
	if nviol > 0 {
		verdict = "violated"
	} else if len(r.inconclusive) > 0 {
		verdict = "inconclusive"
	}
	cov["verdict"] = verdict

	evd := map[string]any{
		"property_id": r.ID,
		"tier":        r.Tier,
		"seed":        r.Seed,
		"level":       r.Level,
		"coverage":    cov,
		"assumptions": append([]string{}, r.assumptions...),
		"wall_s":      float64(int(wall*100)) / 100,
		"violations":  nviol,
	}
	b, _ := json.MarshalIndent(evd, "", " ")
	_ = os.MkdirAll(evidenceDir(r.verifDir), 0o755)
	evp := filepath.Join(evidenceDir(r.verifDir), r.ID+".json")
	if err := os.WriteFile(evp, append(b, '\n'), 0o644); err != nil {
		fmt.Printf("INCONCLUSIVE property=%s cannot write evidence: %v\n", r.ID, err)
		return 2
	}

	// known findings: one line per listed finding that was actually hit
	for _, f := range r.findings {
		if f.Property == r.ID && f.Status == "known" && r.knownHits[f.Key] > 0 {
			fmt.Printf("KNOWN-FINDING: property=%s %s [%s, observed %d times]\n", r.ID, f.What, f.Key, r.knownHits[f.Key])
		}
	}
	printed := map[string]bool{}
	for _, v := range r.violations {
		if printed[v.Key] {
			continue // one line per distinct key; all records are in the replay files
		}
		printed[v.Key] = true
		d, _ := json.Marshal(v.Detail)
		ds := string(d)
		if len(ds) > 600 {
			ds = ds[:600] + "..."
		}
		fmt.Printf("VIOLATION property=%s replay=%s key=%s count=%d detail=%s\n", r.ID, v.Replay, v.Key, r.violKeys[v.Key], ds)
	}
	fmt.Printf("SUMMARY property=%s tier=%s seed=%d verdict=%s evaluations=%d distinct_nontrivial=%d violations=%d known_hits=%d wall=%.1fs\n",
		r.ID, r.Tier, r.Seed, verdict, r.evaluations, len(r.distinct)+r.bulkDistinct, nviol, len(r.knownHits), wall)
	switch {
	case nviol > 0:
		return 1
	case len(r.inconclusive) > 0:
		for _, s := range r.inconclusive {
			fmt.Printf("INCONCLUSIVE property=%s %s\n", r.ID, s)
		}
		return 2
	case r.evaluations == 0 || len(r.distinct)+r.bulkDistinct < 2:
		fmt.Printf("INCONCLUSIVE property=%s the run observed too little (evaluations=%d distinct_nontrivial=%d)\n", r.ID, r.evaluations, len(r.distinct)+r.bulkDistinct)
		return 2
	}
	return 0
}

// Short truncates a string for samples.
func Short(s string, n int) string {
	if len(s) <= n {
		return s
	}
	return s[:n] + fmt.Sprintf("...(+%d bytes)", len(s)-n)
}

// KeyPart makes a string safe to embed in a finding key.
func KeyPart(s string) string {
	s = strings.ReplaceAll(s, " ", "_")
	return s
}
