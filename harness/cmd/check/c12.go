package main

import (
	"bufio"
	"bytes"
	"crypto/sha256"
	"encoding/json"
	"errors"
	"fmt"
	"os"
	"os/exec"
	"path/filepath"
	"runtime"
	"sort"
	"strconv"
	"strings"
	"sync"
	"time"

	"github.com/goreleaser/nfpm/v2"
	"github.com/goreleaser/nfpm/v2/files"

	"verifharness/internal/ev"
	"verifharness/internal/gen"
	"verifharness/internal/rng"
)

func init() {
	register("C12", "exploration", c12)
	workers["c12"] = c12Worker
}

// one packaging executed by a goroutine of the worker
type c12Event struct {
	Config   int    `json:"config"`
	Scenario string `json:"scenario"`
	Rep      int    `json:"rep"`
	G        int    `json:"g"`
	Format   string `json:"format"`
	Start    int64  `json:"start_ns"`
	End      int64  `json:"end_ns"`
	Sum      string `json:"sha256"`
	Err      string `json:"err,omitempty"`
	Signed   bool   `json:"signed,omitempty"`
}

type c12Report struct {
	GOMAXPROCS int               `json:"gomaxprocs"`
	Baseline   map[string]string `json:"baseline"` // "<config>/<format>" -> sha256 of the sequential build
	Events     []c12Event        `json:"events"`
	Fatal      string            `json:"fatal,omitempty"`
	Stuck      string            `json:"stuck,omitempty"`
}

// c12Worker runs inside a -race child process: `check worker c12 <seed> <nconfigs> <reps> <gomaxprocs> <out.json>`.
func c12Worker(args []string) int {
	if len(args) < 5 || len(args) > 7 {
		fmt.Fprintln(os.Stderr, "usage: worker c12 seed nconfigs reps gomaxprocs out.json [scenario-shift [only-config]]")
		return 2
	}
	shift, only := 0, -1
	if len(args) >= 6 {
		shift, _ = strconv.Atoi(args[5])
	}
	if len(args) == 7 {
		only, _ = strconv.Atoi(args[6])
	}
	seed, _ := strconv.ParseUint(args[0], 10, 64)
	ncfg, _ := strconv.Atoi(args[1])
	reps, _ := strconv.Atoi(args[2])
	gmp, _ := strconv.Atoi(args[3])
	runtime.GOMAXPROCS(gmp)
	rep := &c12Report{GOMAXPROCS: gmp, Baseline: map[string]string{}}
	defer func() {
		b, _ := json.Marshal(rep)
		_ = os.WriteFile(args[4], b, 0o644)
	}()
	var mu sync.Mutex
	t0 := time.Now()
	record := func(e c12Event) {
		mu.Lock()
		rep.Events = append(rep.Events, e)
		mu.Unlock()
	}
	env := func(k string) string {
		if strings.HasSuffix(k, "PASSPHRASE") {
			return "hunter2"
		}
		return ""
	}
	for ci := 0; ci < ncfg; ci++ {
		if only >= 0 && ci != only {
			continue
		}
		root := newWorkDir("c12")
		c, err := aliasingConfig(seed, ci, root)
		if err != nil {
			rep.Fatal = err.Error()
			return 2
		}
		s := c.Spec
		s.Deb.Compression = []string{"zstd", "xz", "", "zstd", "none", "gzip"}[ci%6]
		s.RPM.Compression = []string{"zstd", "gzip", "xz", "lzma", "", "zstd:19"}[ci%6]
		if ci%4 == 3 {
			s.Maintainer = "" // deprecated but valid: deb and ipk print a notice and substitute a placeholder
		}
		if ci%2 == 0 {
			// a payload file beyond one MiB (buffering strategies change with size);
			// compressible, so that the compressors do not dominate the run
			nd := c.Tree.Add(&gen.Node{Rel: "src/one-mib-and-a-bit.bin", Kind: "file", Perm: 0o644, MTime: 1111111112,
				Bytes: bytes.Repeat([]byte(fmt.Sprintf("one MiB and a bit, config %d, sixty-four byte line of text.....\n", ci)), (1<<20)/48)})
			_ = c.Tree.Materialize(root)
			s.Contents = append(s.Contents, &gen.Content{Src: filepath.Join(root, nd.Rel), Dst: "/opt/" + s.Name + "/one-mib-and-a-bit.bin"})
		}
		if ci%2 == 1 {
			// a few hundred small entries: whatever a packager rations per entry
			// (file handles, slots, buffers) is in demand from several builds at once
			td := filepath.Join(root, "many")
			for k := 0; k < 180; k++ {
				_ = os.MkdirAll(filepath.Join(td, fmt.Sprintf("d%02d", k%9)), 0o755)
				fp := filepath.Join(td, fmt.Sprintf("d%02d", k%9), fmt.Sprintf("f%03d.txt", k))
				_ = os.WriteFile(fp, []byte(fmt.Sprintf("entry %d\n", k)), 0o644)
				_ = os.Chtimes(fp, time.Unix(1111111114, 0), time.Unix(1111111114, 0))
			}
			_ = filepath.Walk(td, func(p string, fi os.FileInfo, err error) error {
				if err == nil && fi.IsDir() {
					_ = os.Chtimes(p, time.Unix(1111111114, 0), time.Unix(1111111114, 0))
				}
				return nil
			})
			s.Contents = append(s.Contents, &gen.Content{Type: "tree", Src: td, Dst: "/usr/share/" + s.Name + "/many"})
		}
		// no package mtime and no SOURCE_DATE_EPOCH: the packagers fall back to the
		// clock (outputs are then compared for success only)
		clocked := ci%4 == 2
		if clocked {
			s.MTime = 0
		}
		// one format collides (an entry tagged for it occupies a path the glob entry
		// for all formats also produces): it fails, sequentially and concurrently,
		// while the others are built from the same configuration
		if ci%4 == 3 {
			confd := filepath.Join(root, "collide.d")
			_ = os.MkdirAll(confd, 0o755)
			for _, n := range []string{"a.conf", "b.conf"} {
				_ = os.WriteFile(filepath.Join(confd, n), []byte(n+"\n"), 0o644)
				_ = os.Chtimes(filepath.Join(confd, n), time.Unix(1111111113, 0), time.Unix(1111111113, 0))
			}
			bad := []string{"apk", "archlinux", "rpm"}[(ci/4)%3]
			s.DisableGlobbing = false
			s.Contents = append(s.Contents,
				&gen.Content{Src: filepath.Join(confd, "a.conf"), Dst: "/etc/" + s.Name + "-collide/a.conf", Packager: bad},
				&gen.Content{Src: confd + "/*.conf", Dst: "/etc/" + s.Name + "-collide/", Type: "config"})
		}
		signed := ci%3 == 1
		if signed {
			s.Deb.Sig.KeyFile = testKey("privkey.asc") // passphrase protected
			s.RPM.Sig.KeyFile = testKey("privkey.gpg")
			s.APK.Sig.KeyFile = testKey("rsa.priv")
			s.APK.Sig.KeyName = "verif" // (the maintainer, the fallback for the key name, is empty in some configurations)
		}
		y := s.YAML()
		isSigned := func(f string) bool { return clocked || signed && (f == "deb" || f == "rpm" || f == "apk") }
		// sequential baseline; for seven configs out of eight (all of the quick tier) it is taken AFTER the concurrent
		// scenarios, so that those are the first packagings of their kind in the
		// process (nothing is warmed up by a sequential run)
		baseline := func() bool {
			for _, f := range formats {
				cfg, err := parseYAML(y, env)
				if err != nil {
					rep.Fatal = "parse: " + err.Error()
					return false
				}
				info, _ := infoFor(&cfg, f)
				res := packageInfo(f, info)
				if res.Panic != "" || (res.Err != nil && !errors.Is(res.Err, files.ErrContentCollision)) {
					rep.Fatal = fmt.Sprintf("sequential build of config %d %s failed: %v %s", ci, f, res.Err, res.Panic)
					return false
				}
				if res.Err != nil {
					rep.Baseline[fmt.Sprintf("%d/%s", ci, f)] = "EXPECTED-COLLISION"
					continue
				}
				rep.Baseline[fmt.Sprintf("%d/%s", ci, f)] = fmt.Sprintf("%x", sha256.Sum256(res.Bytes))
			}
			return true
		}
		if ci%8 == 6 && !baseline() {
			return 2
		}
		r := rng.New(seed).Fork(uint64(9000 + ci))
		pkg := func(scen string, rp, g int, f string, get func() (*nfpm.Info, error), jitter time.Duration, wg *sync.WaitGroup, gate chan struct{}) {
			defer wg.Done()
			<-gate
			time.Sleep(jitter)
			e := c12Event{Config: ci, Scenario: scen, Rep: rp, G: g, Format: f, Signed: isSigned(f)}
			info, err := get()
			e.Start = time.Since(t0).Nanoseconds()
			if err == nil {
				res := packageInfo(f, info)
				e.End = time.Since(t0).Nanoseconds()
				if res.Panic != "" {
					e.Err = "panic: " + res.Panic
				} else if res.Err != nil {
					e.Err = res.Err.Error()
				} else {
					e.Sum = fmt.Sprintf("%x", sha256.Sum256(res.Bytes))
				}
			} else {
				e.End = time.Since(t0).Nanoseconds()
				e.Err = "get: " + err.Error()
			}
			record(e)
		}
		// a batch that does not finish is a finding of its own (builds blocking each
		// other): the bound is three orders of magnitude above what a batch takes,
		// the goroutine dump goes into the report, the worker stops (stuck builds
		// cannot be cancelled)
		waitBatch := func(wg *sync.WaitGroup) {
			done := make(chan struct{})
			go func() { wg.Wait(); close(done) }()
			select {
			case <-done:
			case <-time.After(10 * time.Minute):
				buf := make([]byte, 1<<20)
				buf = buf[:runtime.Stack(buf, true)]
				mu.Lock()
				rep.Stuck = fmt.Sprintf("config %d: concurrent packagings still running after 10 minutes\n%s", ci, buf)
				mu.Unlock()
				b, _ := json.Marshal(rep)
				_ = os.WriteFile(args[4], b, 0o644)
				os.Exit(3)
			}
		}
		nreps := reps
		if signed {
			nreps = (reps + 1) / 2 // unlocking protected keys is slow under the race detector
		}
		for rp := 0; rp < nreps; rp++ {
			jit := func() time.Duration { return time.Duration(r.Intn(400)) * time.Microsecond }
			// (a) one parsed config, Get up front, five formats concurrently
			scenA := func() {
				cfg, _ := parseYAML(y, env)
				infos := map[string]*nfpm.Info{}
				for _, f := range formats {
					infos[f], _ = infoFor(&cfg, f)
				}
				var wg sync.WaitGroup
				gate := make(chan struct{})
				for g, f := range formats {
					wg.Add(1)
					f := f
					go pkg("a:shared-config-get-up-front", rp, g, f, func() (*nfpm.Info, error) { return infos[f], nil }, jit(), &wg, gate)
				}
				close(gate)
				waitBatch(&wg)
			}
			// (b) one parsed config, Get inside the goroutines
			scenB := func() {
				cfg, _ := parseYAML(y, env)
				var wg sync.WaitGroup
				gate := make(chan struct{})
				for g, f := range formats {
					wg.Add(1)
					f := f
					go pkg("b:shared-config-get-in-goroutine", rp, g, f, func() (*nfpm.Info, error) { return infoFor(&cfg, f) }, jit(), &wg, gate)
				}
				close(gate)
				waitBatch(&wg)
			}
			// (c) N goroutines with independently parsed settings, any format (also the same one)
			scenC := func() {
				for _, n := range []int{8, 32} {
					if n == 32 && rp%5 != 0 {
						continue
					}
					var wg sync.WaitGroup
					gate := make(chan struct{})
					for g := 0; g < n; g++ {
						wg.Add(1)
						f := formats[r.Intn(len(formats))]
						if g < 10 {
							f = []string{"deb", "deb", "rpm", "rpm", "archlinux", "archlinux", "ipk", "ipk", "apk", "apk"}[g] // always some goroutines on the same format
						}
						go pkg(fmt.Sprintf("c:independent-settings-%d", n), rp, g, f, func() (*nfpm.Info, error) {
							cfg, err := parseYAML(y, env)
							if err != nil {
								return nil, err
							}
							return infoFor(&cfg, f)
						}, jit(), &wg, gate)
					}
					close(gate)
					waitBatch(&wg)
				}
			}
			// (d) four goroutines on the SAME format, started together, format after
			// format: whatever a packager shares between its own invocations is
			// touched at the same time (first repetition only)
			scenD := func() {
				if rp != 0 {
					return
				}
				for _, f := range formats {
					f := f
					var wg sync.WaitGroup
					gate := make(chan struct{})
					for g := 0; g < 4; g++ {
						wg.Add(1)
						go pkg("d:same-format-x4", rp, g, f, func() (*nfpm.Info, error) {
							cfg, err := parseYAML(y, env)
							if err != nil {
								return nil, err
							}
							return infoFor(&cfg, f)
						}, 0, &wg, gate)
					}
					close(gate)
					waitBatch(&wg)
				}
			}
			// rotate the order so that each scenario is, for some configuration,
			// the first concurrent use of that configuration's keys and sources; the
			// rotation is shifted per child process, so that process-wide lazily
			// initialised state meets a different first scenario in each child
			order := [][]func(){{scenA, scenB, scenC}, {scenC, scenA, scenB}, {scenB, scenC, scenA}}[(ci+shift)%3]
			for _, sc := range order {
				sc()
			}
			scenD()
		}
		if ci%8 != 6 && !baseline() {
			return 2
		}
		removeWorkDir(root)
	}
	return 0
}

// parseRaceLogs returns the race report blocks found in log_path files.
func parseRaceLogs(glob string) (blocks []string, keys map[string]int) {
	keys = map[string]int{}
	files, _ := filepath.Glob(glob)
	for _, fn := range files {
		f, err := os.Open(fn)
		if err != nil {
			continue
		}
		sc := bufio.NewScanner(f)
		sc.Buffer(make([]byte, 1<<20), 1<<24)
		var cur []string
		in := false
		flush := func() {
			if len(cur) == 0 {
				return
			}
			blk := strings.Join(cur, "\n")
			blocks = append(blocks, blk)
			// key: the outermost-to-innermost nfpm frames of the two access stacks,
			// reduced to the innermost nfpm function of each access
			var firsts []string
			section := ""
			for _, l := range cur {
				switch {
				case strings.HasPrefix(l, "Write at"), strings.HasPrefix(l, "Read at"), strings.HasPrefix(l, "Previous write at"), strings.HasPrefix(l, "Previous read at"):
					section = l
					firsts = append(firsts, "")
				case strings.HasPrefix(l, "Goroutine "):
					section = ""
				default:
					if section != "" && firsts[len(firsts)-1] == "" {
						if t := strings.TrimSpace(l); strings.HasPrefix(t, "github.com/goreleaser/nfpm/v2") {
							if i := strings.LastIndex(t, "("); i > 0 {
								t = t[:i]
							}
							firsts[len(firsts)-1] = strings.TrimPrefix(t, "github.com/goreleaser/nfpm/v2")
						}
					}
				}
			}
			sort.Strings(firsts)
			keys[strings.Join(firsts, " <-> ")]++
			cur = nil
		}
		for sc.Scan() {
			l := sc.Text()
			if strings.HasPrefix(l, "WARNING: DATA RACE") {
				flush()
				in = true
			}
			if in {
				if strings.HasPrefix(l, "==================") && len(cur) > 0 {
					flush()
					in = false
					continue
				}
				cur = append(cur, l)
			}
		}
		flush()
		f.Close()
	}
	return
}

func c12(run *ev.Run, tier string) {
	ncfg, reps := 4, 5
	gmps := []int{2, 16}
	if tier == "thorough" {
		ncfg, reps = 12, 10
		gmps = []int{1, 2, 4, 8, 16}
	}
	if *flagCases > 0 {
		ncfg = *flagCases
	}
	run.Rule = "a -race build of the harness runs, in a child process per GOMAXPROCS value (plus short-lived children that start with one configuration and the scenario that meets its lazily initialised process-wide state cold: signing keys, changelog template, deprecation notice), four scenarios per generated aliasing-rich configuration (file_info on dir/symlink/ghost entries, per-format overrides, every third config signed with passphrase-protected keys, zstd/xz/gzip compressors; every second one with a payload file beyond 1 MiB, the others with a tree of 180 entries; one in four without any configured mtime (clock fallback, compared for success only); one in four colliding for exactly one format, which must fail while the others are built from the same configuration): (a) one parsed config, Get up front, five formats concurrently; (b) same with Get inside the goroutines; (c) 8 / 32 goroutines with independently parsed settings and any format incl. the same one; (d) four goroutines on the same format, format after format; start offsets are jittered from the seed; the scenario order rotates per configuration and per child, and seven configurations out of eight (all of the quick tier) take their sequential baseline only after the concurrent scenarios (cold start of process-wide state). Monitors: a batch that is still running after 10 minutes (builds blocking each other; goroutine dump in the report), race-detector reports (log_path files, deduplicated by the innermost nfpm functions of both accesses), panics/fatal errors, errors that the sequential build does not have, and byte equality of every unsigned concurrent result with the sequential baseline. non-trivial = packaging that overlapped in time with another one; distinct = distinct sets of formats observed in flight together"
	run.Rule += "; whole nfpm processes for all five formats started at once into one directory (targets differing only in the extension / conventional names in one target directory), each compared with the package of a run on its own"
	if !raceEnabled {
		run.Inconclusive("the harness was built without -race; run through bin/check.sh C12")
		return
	}
	self, err := os.Executable()
	if err != nil {
		run.Inconclusive(err.Error())
		return
	}
	dir := newWorkDir("c12p")
	defer removeWorkDir(dir)
	overlapSets := map[string]bool{}
	var packagings, overlapped, compared, raceBlocks int
	raceKeys := map[string]int{}
	// child processes: one per GOMAXPROCS value over all configurations, plus
	// short-lived ones that start with ONE configuration and the scenario that
	// meets its lazily initialised process-wide state cold (signing keys,
	// changelog template, deprecation notice): such state is written once per
	// process, so every fresh process is one more chance to see the write race
	type job struct {
		g, shift, only, reps int
		tag                  string
	}
	var jobs []job
	for gi, g := range gmps {
		jobs = append(jobs, job{g, gi, -1, reps, strconv.Itoa(g)})
	}
	ncold := 3
	if tier == "thorough" {
		ncold = 8
	}
	for x := 0; x < ncold; x++ {
		jobs = append(jobs,
			job{16, 3 * x, 1, 1, fmt.Sprintf("cold-signing-%d", x)},       // config 1: signed, scenario (c) first
			job{8, 3*x + 1, 0, 1, fmt.Sprintf("cold-changelog-%d", x)},    // config 0: changelog, scenario (c) first
			job{16, 3 * x, 3, 1, fmt.Sprintf("cold-no-maintainer-%d", x)}) // config 3: no maintainer, scenario (a) first
	}
	for _, jb := range jobs {
		g := jb.g
		out := filepath.Join(dir, fmt.Sprintf("report-%s.json", jb.tag))
		logp := filepath.Join(dir, fmt.Sprintf("race-%s", jb.tag))
		args := []string{"worker", "c12", strconv.FormatInt(run.Seed, 10), strconv.Itoa(ncfg), strconv.Itoa(jb.reps), strconv.Itoa(g), out, strconv.Itoa(jb.shift), strconv.Itoa(jb.only)}
		cmdline := self + " " + strings.Join(args, " ")
		_ = os.WriteFile(filepath.Join(dir, fmt.Sprintf("cmd-%s.txt", jb.tag)), []byte(cmdline+"\n"), 0o644)
		cmd := exec.Command("timeout", append([]string{"-s", "QUIT", "1500", self}, args...)...)
		cmd.Env = append(os.Environ(), "GORACE=halt_on_error=0 log_path="+logp, "VERIF_TMP="+dir)
		var so, se bytes.Buffer
		cmd.Stdout, cmd.Stderr = &so, &se
		err := cmd.Run()
		code := 0
		if ee, ok := err.(*exec.ExitError); ok {
			code = ee.ExitCode()
		} else if err != nil {
			run.Inconclusive("cannot start worker: " + err.Error())
			continue
		}
		blocks, keys := parseRaceLogs(logp + ".*")
		raceBlocks += len(blocks)
		for k, n := range keys {
			raceKeys[k] += n
			if raceKeys[k] == n { // first time this key is seen
				run.Violate("C12/data-race/"+ev.KeyPart(k), map[string]any{"gomaxprocs": g, "reports_with_this_key": n, "report": ev.Short(blocks[0], 100), "command": cmdline})
			}
		}
		if len(blocks) > 0 && len(keys) == 0 {
			run.Violate("C12/data-race/unclassified", map[string]any{"gomaxprocs": g, "report": ev.Short(blocks[0], 1500)})
		}
		b, rerr := os.ReadFile(out)
		var rep c12Report
		if rerr != nil || json.Unmarshal(b, &rep) != nil {
			stderr := se.String()
			switch {
			case code == 124 || code == 137 || code == 131:
				run.Inconclusive(fmt.Sprintf("worker (GOMAXPROCS=%d) hit the wall-clock watchdog", g))
			case strings.Contains(stderr, "fatal error:") || strings.Contains(stderr, "panic:"):
				run.Violate("C12/worker-crashed", map[string]any{"gomaxprocs": g, "exit": code, "stderr": ev.Short(stderr, 1500), "command": cmdline})
			default:
				run.Inconclusive(fmt.Sprintf("worker (GOMAXPROCS=%d) left no report (exit %d): %s", g, code, ev.Short(stderr, 300)))
			}
			continue
		}
		if rep.Stuck != "" {
			stacks := rep.Stuck
			kind := "unclassified"
			for _, pk := range []string{"arch.", "deb.", "rpm.", "apk.", "ipk.", "files.", "sign."} {
				if strings.Contains(stacks, "nfpm/v2/"+strings.TrimSuffix(pk, ".")+".") || strings.Contains(stacks, "/"+pk) {
					kind = strings.TrimSuffix(pk, ".")
					break
				}
			}
			run.Violate("C12/concurrent-builds-block-each-other/"+kind, map[string]any{"gomaxprocs": g, "report": ev.Short(stacks, 3000), "command": cmdline})
			continue
		}
		if rep.Fatal != "" {
			run.Inconclusive("worker: " + rep.Fatal)
			continue
		}
		// group events of one concurrent batch and compute overlaps
		type bk struct {
			c  int
			s  string
			rp int
		}
		batches := map[bk][]c12Event{}
		for _, e := range rep.Events {
			batches[bk{e.Config, e.Scenario, e.Rep}] = append(batches[bk{e.Config, e.Scenario, e.Rep}], e)
		}
		for k, evs := range batches {
			for i, e := range evs {
				packagings++
				var inflight []string
				for j, o := range evs {
					if i != j && o.Start < e.End && e.Start < o.End {
						inflight = append(inflight, o.Format)
					}
				}
				if len(inflight) > 0 {
					overlapped++
					inflight = append(inflight, e.Format)
					sort.Strings(inflight)
					overlapSets[strings.Join(dedupe(inflight), "+")] = true
				}
				// distinct = distinct (GOMAXPROCS, scenario, format, set of formats in flight with it)
				run.Case(fmt.Sprintf("%d|%s|%s|%s", g, k.s, e.Format, strings.Join(dedupe(inflight), "+")), len(inflight) > 0)
				d := map[string]any{"gomaxprocs": g, "config": k.c, "scenario": k.s, "rep": k.rp, "goroutine": e.G, "format": e.Format, "command": cmdline}
				if rep.Baseline[fmt.Sprintf("%d/%s", k.c, e.Format)] == "EXPECTED-COLLISION" {
					if e.Err == "" {
						run.Violate("C12/"+e.Format+"/collision-accepted-when-built-concurrently/"+strings.SplitN(k.s, ":", 2)[0], d)
					}
					continue
				}
				if e.Err != "" {
					d["error"] = ev.Short(e.Err, 500)
					kind := "concurrent-build-failed"
					if strings.HasPrefix(e.Err, "panic") {
						kind = "panic"
					}
					run.Violate("C12/"+e.Format+"/"+kind+"/"+strings.SplitN(k.s, ":", 2)[0], d)
					continue
				}
				if !e.Signed {
					compared++
					if want := rep.Baseline[fmt.Sprintf("%d/%s", k.c, e.Format)]; e.Sum != want {
						d["sha256"], d["sequential_sha256"] = e.Sum, want
						run.Violate("C12/"+e.Format+"/bytes-differ-from-sequential/"+strings.SplitN(k.s, ":", 2)[0], d)
					}
				}
			}
		}
		if g == gmps[0] && len(rep.Events) > 3 {
			run.Sample(map[string]any{"gomaxprocs": g, "events": rep.Events[:3], "command": cmdline})
		}
	}
	// whole processes: the command line tool started for all formats at the same moment,
	// writing into one directory - targets that differ only in their extension, and
	// conventional names inside one target directory. Each process leaves exactly the
	// package a run on its own leaves.
	cliProcs, cliRounds := 0, 6
	if bin := nfpmBin(run); bin != "" {
		cdir := newWorkDir("c12-cli")
		pay := filepath.Join(cdir, "payload.bin")
		_ = os.WriteFile(pay, (&gen.Node{Size: 700 << 10, Seed: 99}).Content(), 0o644)
		y := "name: together\narch: all\nversion: 1.0.0\nmaintainer: \"T <t@example.com>\"\ndescription: d\nmtime: 2017-07-14T02:40:00Z\nrpm:\n  buildhost: verif-host\ncontents:\n  - src: " + pay + "\n    dst: /opt/together/payload.bin\n"
		cfgp := filepath.Join(cdir, "nfpm.yaml")
		_ = os.WriteFile(cfgp, []byte(y), 0o644)
		env := []string{"PATH=" + os.Getenv("PATH"), "HOME=" + cdir}
		alone := map[string][]byte{}
		names := map[string]string{}
		for _, f := range formats {
			d := filepath.Join(cdir, "alone-"+f)
			_ = os.MkdirAll(d, 0o755)
			if _, _, code, err := runCmd(nil, cdir, env, bin, "package", "-f", cfgp, "-p", f, "-t", d); err != nil || code != 0 {
				run.Inconclusive("the nfpm binary cannot build " + f + " on its own")
				continue
			}
			if es, _ := os.ReadDir(d); len(es) == 1 {
				names[f] = es[0].Name()
				alone[f], _ = os.ReadFile(filepath.Join(d, es[0].Name()))
			}
		}
		for r := 0; r < cliRounds && len(alone) == len(formats); r++ {
			how := []string{"targets-differing-in-extension-only", "one-target-directory"}[r%2]
			d := filepath.Join(cdir, fmt.Sprintf("together-%d", r))
			_ = os.MkdirAll(d, 0o755)
			type proc struct {
				f      string
				cmd    *exec.Cmd
				out    *bytes.Buffer
				target string
			}
			var procs []*proc
			for _, f := range formats {
				target, arg := filepath.Join(d, "pkg."+f), filepath.Join(d, "pkg."+f)
				if how == "one-target-directory" {
					target, arg = filepath.Join(d, names[f]), d
				}
				c := exec.Command(bin, "package", "-f", cfgp, "-p", f, "-t", arg)
				c.Dir, c.Env = cdir, env
				b := &bytes.Buffer{}
				c.Stdout, c.Stderr = b, b
				procs = append(procs, &proc{f, c, b, target})
			}
			for _, p := range procs {
				_ = p.cmd.Start()
			}
			for _, p := range procs {
				err := p.cmd.Wait()
				cliProcs++
				run.Case(fmt.Sprintf("cli-processes-at-once|%s|%s", how, p.f), true)
				got, _ := os.ReadFile(p.target)
				if err != nil {
					run.Violate("C12/"+p.f+"/concurrent-process-failed/"+how, map[string]any{"round": r, "error": err.Error(), "output": ev.Short(p.out.String(), 300)})
				} else if !bytes.Equal(got, alone[p.f]) {
					run.Violate("C12/"+p.f+"/bytes-differ-from-sequential/processes-"+how, map[string]any{"round": r, "len": len(got), "len_alone": len(alone[p.f])})
				}
			}
			if es, _ := os.ReadDir(d); len(es) != len(formats) {
				var left []string
				for _, e := range es {
					left = append(left, e.Name())
				}
				run.Violate("C12/files-other-than-the-packages-left-by-concurrent-processes/"+how, map[string]any{"round": r, "files": left})
			}
		}
		removeWorkDir(cdir)
	}
	run.Set("nfpm_processes_run_at_once", cliProcs)
	var sets []string
	for s := range overlapSets {
		sets = append(sets, s)
	}
	sort.Strings(sets)
	run.Set("goroutine_packagings_executed", packagings)
	run.Set("packagings_that_overlapped_another", overlapped)
	run.Set("distinct_overlap_sets", len(sets))
	run.Set("overlap_sets_sample", firstN(sets, 25))
	run.Set("unsigned_results_compared_with_sequential", compared)
	run.Set("race_report_blocks", raceBlocks)
	run.Set("race_report_keys", raceKeys)
	run.Set("gomaxprocs_values", gmps)
	if len(sets) < 2 {
		run.Inconclusive(fmt.Sprintf("only %d distinct overlap sets were observed: the workload did not run concurrently", len(sets)))
	}
	run.Assume("the Go race detector reports by happens-before on the executions it saw; absence of a report is not absence of a race on other schedules")
	run.Assume("signed packages embed signature timestamps/randomness and are compared for success only, not for bytes")
}

func dedupe(xs []string) []string {
	var out []string
	for i, x := range xs {
		if i == 0 || x != xs[i-1] {
			out = append(out, x)
		}
	}
	return out
}

func firstN(xs []string, n int) []string {
	if len(xs) > n {
		return xs[:n]
	}
	return xs
}
