package main

import (
	"fmt"
	"os"
)

// workerMain is the entry point of child processes (race-detector workloads).
func workerMain(args []string) {
	if len(args) == 0 {
		fmt.Fprintln(os.Stderr, "worker: missing mode")
		os.Exit(2)
	}
	fn, ok := workers[args[0]]
	if !ok {
		fmt.Fprintf(os.Stderr, "worker: unknown mode %q\n", args[0])
		os.Exit(2)
	}
	os.Exit(fn(args[1:]))
}

var workers = map[string]func([]string) int{}
