package main

import (
	"bytes"
	"errors"
	"fmt"
	"io"
	"os"
	"path/filepath"
	"runtime"
	"strings"
	"sync/atomic"
	"syscall"
	"time"

	"github.com/goreleaser/nfpm/v2"
	"github.com/goreleaser/nfpm/v2/files"

	"verifharness/internal/dec"
	"verifharness/internal/ev"
	"verifharness/internal/gen"
)

func init() { register("C06", "fault_enumeration", c06) }

// faultWriter counts writes and fails from write k on. It never breaks the
// io.Writer contract: a short count always comes with an error.
type faultWriter struct {
	k       int  // first failing write (-1: never)
	short   bool // accept part of the failing write, then io.ErrShortWrite
	oneShot bool // only write k fails; later writes succeed again
	calls   int
	buf     bytes.Buffer
	failed  bool
}

var errInjected = errors.New("verif: injected write fault")

func (w *faultWriter) Write(p []byte) (int, error) {
	i := w.calls
	w.calls++
	if w.k >= 0 && (i == w.k || i > w.k && !w.oneShot) {
		w.failed = true
		if w.short && len(p) > 1 {
			n := len(p) / 2
			w.buf.Write(p[:n])
			return n, io.ErrShortWrite
		}
		return 0, errInjected
	}
	w.buf.Write(p)
	return len(p), nil
}

// packageTo = Get + WithDefaults + Package into an arbitrary writer.
func packageTo(y, format string, w io.Writer, tweak func(*nfpm.Info)) (err error, panicked string) {
	defer func() {
		if r := recover(); r != nil {
			panicked = fmt.Sprint(r)
		}
	}()
	cfg, err := parseYAML(y, nil)
	if err != nil {
		return fmt.Errorf("parse: %w", err), ""
	}
	info, err := infoFor(&cfg, format)
	if err != nil {
		return err, ""
	}
	if tweak != nil {
		tweak(info)
	}
	p, err := nfpm.Get(format)
	if err != nil {
		return err, ""
	}
	return p.Package(info, w), ""
}

func c06(run *ev.Run, tier string) {
	ncfg := ncases(12, 120, tier)
	run.Rule = "(a) write faults: for each generated config x 5 formats x {unsigned, signed} a clean run records the N writes of the output stream, then EVERY write index k in [0,N) is replayed with a writer that fails from write k on (error / partial accept + io.ErrShortWrite) and with one that fails at write k only: Package must return a non-nil error whenever the fault was reached; (b) source faults: every file reference of a config (content sources, scripts, changelog, key files) removed one at a time; (c) failing sign callbacks and unusable key files; (d) every invalid-setting class; (e) the built nfpm binary: target = symlink to /dev/full, missing sources with target = file / directory / blank / pre-existing file, and (strace -e inject) ENOSPC on the k-th write to the target and EIO on the k-th read of a source file: it must exit non-zero, print the cause and leave nothing at the target. Further source faults: every source replaced by a unix socket, a changelog that turns unparsable without changing length or mtime, a source longer than its stat size (procfs), a tree sub-directory unreadable for the building user (file system uid switched); further invalid settings: blank script paths, non-ASCII archlinux names, unknown key ids and signature methods. non-trivial = fault that was actually reached (write index < N) or a removed reference that the format reads; distinct = (config, format, variant, k)"
	run.Rule += "; a missing file whose name contains a percent sign in the printed cause"
	run.SetExhaustive(true)
	var injected, reached, srcFaults, signFaults, invalids, cliRuns int64
	maxWrites := 0

	// ---------------- (a) write faults
	for ci := 0; ci < ncfg; ci++ {
		if *flagOnly >= 0 && ci != *flagOnly {
			continue
		}
		root := newWorkDir("c06")
		o := gen.DefaultOpts()
		o.NEntries = [2]int{1, 5}
		o.Big = 0
		if ci%3 == 1 {
			o.Big = 1
		}
		o.Changelog = ci%4 == 0
		c, err := gen.New(uint64(run.Seed), ci, root, o)
		if err != nil {
			run.Inconclusive(err.Error())
			removeWorkDir(root)
			continue
		}
		if ci%3 == 2 {
			// a multi-MiB incompressible payload: streaming formats flush mid-stream
			big := filepath.Join(root, "big.bin")
			nd := &gen.Node{Rel: "big.bin", Kind: "file", Perm: 0o644, MTime: 1400000000, Size: 3*1024*1024 + 17, Seed: uint64(ci) + 99}
			_ = os.WriteFile(big, nd.Content(), 0o644)
			c.Spec.Contents = append(c.Spec.Contents, &gen.Content{Src: big, Dst: "/opt/big/big.bin"})
		}
		c.Spec.Deb.Compression = []string{"", "xz", "zstd", "none"}[ci%4]
		c.Spec.RPM.Compression = []string{"", "xz", "zstd", "lzma", "gzip:1"}[ci%5]
		for _, signed := range []bool{false, true} {
			s := *c.Spec
			if signed {
				s.Deb.Sig.KeyFile = testKey("privkey_unprotected.asc")
				if ci%2 == 1 {
					s.Deb.Sig.Method = "dpkg-sig"
				}
				s.RPM.Sig.KeyFile = testKey("privkey_unprotected.asc")
				s.APK.Sig.KeyFile = testKey("rsa_unprotected.priv")
			}
			y := s.YAML()
			for _, f := range formats {
				if signed && (f == "ipk" || f == "archlinux") {
					continue
				}
				probe := &faultWriter{k: -1}
				if err, pn := packageTo(y, f, probe, nil); err != nil || pn != "" {
					run.Violate("C06/"+f+"/clean-build-failed", map[string]any{"case": ci, "signed": signed, "error": fmt.Sprint(err, pn)})
					continue
				}
				n := probe.calls
				if n > maxWrites {
					maxWrites = n
				}
				if ci < 2 && f == "deb" {
					run.Sample(map[string]any{"case": ci, "format": f, "signed": signed, "writes_in_clean_run": n, "output_bytes": probe.buf.Len()})
				}
				type variant struct {
					name           string
					short, oneShot bool
				}
				variants := []variant{{"error-sticky", false, false}, {"short-write-sticky", true, false}, {"error-one-shot", false, true}}
				ks := make([]int, n)
				for k := range ks {
					ks[k] = k
				}
				parallel(n*len(variants), 8, func(j int) {
					k, v := ks[j/len(variants)], variants[j%len(variants)]
					fw := &faultWriter{k: k, short: v.short, oneShot: v.oneShot}
					err, pn := packageTo(y, f, fw, nil)
					atomic.AddInt64(&injected, 1)
					if fw.failed {
						atomic.AddInt64(&reached, 1)
					}
					run.Case(fmt.Sprintf("w|%d|%s|%v|%s|%d", ci, f, signed, v.name, k), fw.failed)
					d := map[string]any{"case": ci, "format": f, "signed": signed, "variant": v.name, "k": k, "writes_in_clean_run": n}
					switch {
					case pn != "":
						d["panic"] = pn
						run.Violate("C06/"+f+"/write-fault-panic/"+v.name, d)
					case fw.failed && err == nil:
						d["bytes_accepted"] = fw.buf.Len()
						d["clean_output_bytes"] = probe.buf.Len()
						run.Violate("C06/"+f+"/write-fault-reported-as-success/"+v.name, d)
					case !fw.failed && err == nil && !bytes.Equal(fw.buf.Bytes(), probe.buf.Bytes()) && !signed:
						// fewer writes than the clean run and different output: the
						// probe is not a stable baseline; not a C06 event
					}
				})
			}
		}
		removeWorkDir(root)
	}
	// signed debs whose signature member has an odd / even length (the ar
	// writer pads odd members with one more write): callback signers of fixed size
	{
		wd := newWorkDir("c06sig")
		pf := filepath.Join(wd, "p.txt")
		_ = os.WriteFile(pf, []byte("payload\n"), 0o644)
		s := &gen.Spec{Name: "sigpad", Arch: "amd64", Version: "1.0.0", Maintainer: "S <s@example.com>", Description: "d", MTime: 1500000000}
		s.Contents = []*gen.Content{{Src: pf, Dst: "/opt/sigpad/p.txt"}}
		for _, method := range []string{"debsign", "dpkg-sig"} {
			for _, siglen := range []int{100, 101, 1, 2} {
				s.Deb.Sig.Method = method
				y := s.YAML()
				tw := func(i *nfpm.Info) {
					i.Deb.Signature.SignFn = func(io.Reader) ([]byte, error) { return bytes.Repeat([]byte("s"), siglen), nil }
				}
				probe := &faultWriter{k: -1}
				if err, pn := packageTo(y, "deb", probe, tw); err != nil || pn != "" {
					run.Violate("C06/deb/clean-build-failed", map[string]any{"variant": "callback-signature", "error": fmt.Sprint(err, pn)})
					continue
				}
				for k := 0; k < probe.calls; k++ {
					for _, v := range []struct {
						name           string
						short, oneShot bool
					}{{"error-sticky", false, false}, {"short-write-sticky", true, false}, {"error-one-shot", false, true}} {
						fw := &faultWriter{k: k, short: v.short, oneShot: v.oneShot}
						err, pn := packageTo(y, "deb", fw, tw)
						atomic.AddInt64(&injected, 1)
						if fw.failed {
							atomic.AddInt64(&reached, 1)
						}
						run.Case(fmt.Sprintf("w|sigpad|%s|%d|%s|%d", method, siglen, v.name, k), fw.failed)
						if pn != "" || fw.failed && err == nil {
							run.Violate("C06/deb/write-fault-reported-as-success/"+v.name, map[string]any{"variant": "callback signature of " + fmt.Sprint(siglen) + " bytes (" + method + ")", "k": k, "writes_in_clean_run": probe.calls, "panic": pn})
						}
					}
				}
			}
		}
		removeWorkDir(wd)
	}
	run.Set("write_faults_injected", injected)
	run.Set("write_faults_reached", reached)
	run.Set("max_writes_in_one_output", maxWrites)

	// ---------------- (b) source faults
	nsrc := ncases(8, 60, tier)
	for ci := 0; ci < nsrc; ci++ {
		root := newWorkDir("c06s")
		o := gen.DefaultOpts()
		o.NEntries = [2]int{3, 7}
		o.Changelog = true
		o.OnDiskLinks = false
		c, err := gen.New(uint64(run.Seed), 1000+ci, root, o)
		if err != nil {
			run.Inconclusive(err.Error())
			removeWorkDir(root)
			continue
		}
		s := c.Spec
		// private copies of the key files so they can be removed
		copyKey := func(name string) string {
			b, err := os.ReadFile(testKey(name))
			if err != nil {
				run.Inconclusive("cannot read test key " + name)
				return ""
			}
			p := filepath.Join(root, name)
			_ = os.WriteFile(p, b, 0o600)
			return p
		}
		s.Deb.Sig.KeyFile = copyKey("privkey_unprotected.asc")
		s.RPM.Sig.KeyFile = copyKey("privkey_unprotected_subkey_only.asc")
		s.APK.Sig.KeyFile = copyKey("rsa_unprotected.priv")
		// a config|missingok entry: the type does not make its source optional
		mo := filepath.Join(root, "missingok.conf")
		_ = os.WriteFile(mo, []byte("x\n"), 0o644)
		s.Contents = append(s.Contents, &gen.Content{Src: mo, Dst: "/etc/verif/missingok.conf", Type: "config|missingok"})
		y := s.YAML()
		type ref struct {
			what    string
			path    string
			formats []string // formats that read it
			asDir   bool     // also try "replaced by a directory"
		}
		var refs []ref
		all := formats
		relevant := func(e *gen.Content) []string {
			var fs []string
			for _, f := range formats {
				if e.Packager != "" && e.Packager != f {
					continue
				}
				if (e.Type == "doc" || e.Type == "licence" || e.Type == "license" || e.Type == "readme") && f != "rpm" {
					continue
				}
				if o := s.Overrides[f]; o != nil && len(o.Contents) > 0 {
					continue
				}
				fs = append(fs, f)
			}
			return fs
		}
		for _, e := range s.Contents {
			switch {
			case e.Type == "dir" || e.Type == "symlink" || e.Type == "ghost":
				continue
			case e.Shape == "glob":
				continue // removing one match only changes the match set
			case e.Src != "":
				refs = append(refs, ref{"content-source/" + ev.KeyPart(e.Shape+e.Type), strings.TrimSuffix(e.Src, "/"), relevant(e), false})
			}
		}
		sc := func(what, p string, fs ...string) {
			if p != "" {
				refs = append(refs, ref{what, p, fs, true})
			}
		}
		sc("script/preinstall", s.Scripts.PreInstall, all...)
		sc("script/postinstall", s.Scripts.PostInstall, all...)
		sc("script/preremove", s.Scripts.PreRemove, all...)
		sc("script/postremove", s.Scripts.PostRemove, all...)
		sc("script/rpm-pretrans", s.RPM.PreTrans, "rpm")
		sc("script/rpm-posttrans", s.RPM.PostTrans, "rpm")
		sc("script/rpm-verify", s.RPM.Verify, "rpm")
		sc("script/apk-preupgrade", s.APK.PreUpgrade, "apk")
		sc("script/apk-postupgrade", s.APK.PostUpgrade, "apk")
		sc("script/arch-preupgrade", s.ArchL.PreUpgrade, "archlinux")
		sc("script/arch-postupgrade", s.ArchL.PostUpgrade, "archlinux")
		sc("script/deb-rules", s.Deb.Rules, "deb")
		sc("script/deb-templates", s.Deb.Templates, "deb")
		sc("script/deb-config", s.Deb.Config, "deb")
		sc("changelog", s.Changelog, "deb", "rpm")
		sc("key-file/deb", s.Deb.Sig.KeyFile, "deb")
		sc("key-file/rpm", s.RPM.Sig.KeyFile, "rpm")
		sc("key-file/apk", s.APK.Sig.KeyFile, "apk")
		// sanity: the untouched config builds everywhere
		okBase := true
		for _, f := range formats {
			if err, pn := packageTo(y, f, io.Discard, nil); err != nil || pn != "" {
				run.Violate("C06/"+f+"/clean-build-failed", map[string]any{"case": 1000 + ci, "error": fmt.Sprint(err, pn)})
				okBase = false
			}
		}
		if !okBase {
			removeWorkDir(root)
			continue
		}
		for _, rf := range refs {
			hidden := rf.path + ".verif-hidden"
			modes := []string{"removed", "replaced-by-unix-socket"}
			if rf.asDir {
				modes = append(modes, "replaced-by-directory", "replaced-by-dangling-symlink")
			}
			for _, mode := range modes {
				if err := os.Rename(rf.path, hidden); err != nil {
					run.Inconclusive(fmt.Sprintf("cannot hide %s: %v", rf.path, err))
					continue
				}
				if mode == "replaced-by-directory" {
					_ = os.Mkdir(rf.path, 0o755)
				}
				if mode == "replaced-by-dangling-symlink" {
					_ = os.Symlink(rf.path+".nowhere", rf.path)
				}
				if mode == "replaced-by-unix-socket" {
					// a socket has no bytes to ship: never a usable source
					if err := syscall.Mknod(rf.path, syscall.S_IFSOCK|0o644, 0); err != nil {
						_ = os.Rename(hidden, rf.path)
						continue
					}
				}
				for _, f := range rf.formats {
					atomic.AddInt64(&srcFaults, 1)
					run.Case(fmt.Sprintf("s|%d|%s|%s|%s", ci, rf.what, mode, f), true)
					err, pn := packageTo(y, f, io.Discard, nil)
					if pn != "" {
						run.Violate("C06/"+f+"/source-fault-panic/"+rf.what, map[string]any{"case": 1000 + ci, "mode": mode, "path": rf.path, "panic": pn})
					} else if err == nil {
						run.Violate("C06/"+f+"/source-fault-reported-as-success/"+rf.what+"/"+mode, map[string]any{"case": 1000 + ci, "path": rf.path})
					}
				}
				if mode != "removed" {
					_ = os.Remove(rf.path)
				}
				_ = os.Rename(hidden, rf.path)
			}
		}
		if ci == 0 {
			var ws []string
			for _, rf := range refs {
				ws = append(ws, rf.what)
			}
			run.Sample(map[string]any{"source_fault_case": 1000 + ci, "references_removed_one_at_a_time": ws})
		}
		// glob without matches
		removeWorkDir(root)
	}
	run.Set("source_faults_injected", srcFaults)

	// ---------------- (c) signer failures, (d) invalid settings
	dir := newWorkDir("c06x")
	defer removeWorkDir(dir)
	payload := filepath.Join(dir, "p.txt")
	_ = os.WriteFile(payload, []byte("p\n"), 0o644)
	garbage := filepath.Join(dir, "garbage.key")
	_ = os.WriteFile(garbage, []byte("this is not a key\n"), 0o600)
	base := func() *gen.Spec {
		s := &gen.Spec{Name: "loud", Arch: "amd64", Version: "1.0.0", Maintainer: "L <l@example.com>", Description: "d", MTime: 1500000000}
		s.RPM.BuildHost = "verif-host"
		s.Contents = []*gen.Content{{Src: payload, Dst: "/opt/loud/p.txt"}}
		return s
	}
	signerErr := errors.New("verif: signer refused")
	for _, f := range []string{"deb", "deb-dpkg-sig", "rpm", "apk"} {
		s := base()
		format := f
		if f == "deb-dpkg-sig" {
			format = "deb"
			s.Deb.Sig.Method = "dpkg-sig"
		}
		calls := 0
		tw := func(i *nfpm.Info) {
			fn := func(io.Reader) ([]byte, error) { calls++; return nil, signerErr }
			switch format {
			case "deb":
				i.Deb.Signature.SignFn = fn
			case "rpm":
				i.RPM.Signature.SignFn = fn
			case "apk":
				i.APK.Signature.SignFn = fn
			}
		}
		atomic.AddInt64(&signFaults, 1)
		run.Case("sign-callback|"+f, true)
		err, pn := packageTo(s.YAML(), format, io.Discard, tw)
		if pn != "" || err == nil || calls == 0 {
			run.Violate("C06/"+f+"/failing-sign-callback-reported-as-success", map[string]any{"error": fmt.Sprint(err), "panic": pn, "callback_calls": calls})
		}
		// unusable key files: garbage, protected key without passphrase
		for _, kf := range []string{garbage, testKey("privkey.asc"), testKey("rsa.priv"), filepath.Join(dir, "no-such-key")} {
			s := base()
			if f == "deb-dpkg-sig" {
				s.Deb.Sig.Method = "dpkg-sig"
			}
			switch format {
			case "deb":
				s.Deb.Sig.KeyFile = kf
			case "rpm":
				s.RPM.Sig.KeyFile = kf
			case "apk":
				s.APK.Sig.KeyFile = kf
			}
			atomic.AddInt64(&signFaults, 1)
			run.Case("bad-key|"+f+"|"+filepath.Base(kf), true)
			err, pn := packageTo(s.YAML(), format, io.Discard, nil)
			if pn != "" || err == nil {
				run.Violate("C06/"+f+"/unusable-key-reported-as-success", map[string]any{"key": filepath.Base(kf), "panic": pn})
			}
		}
	}
	run.Set("signer_faults_injected", signFaults)

	type inv struct {
		class   string
		formats []string
		set     func(s *gen.Spec)
	}
	invs := []inv{
		{"deb-compression-unknown", []string{"deb"}, func(s *gen.Spec) { s.Deb.Compression = "bogus" }},
		{"rpm-compression-unknown", []string{"rpm"}, func(s *gen.Spec) { s.RPM.Compression = "bogus" }},
		{"rpm-compression-bad-level", []string{"rpm"}, func(s *gen.Spec) { s.RPM.Compression = "gzip:x" }},
		{"rpm-compression-too-many-parts", []string{"rpm"}, func(s *gen.Spec) { s.RPM.Compression = "a:b:c" }},
		{"rpm-compression-level-for-xz", []string{"rpm"}, func(s *gen.Spec) { s.RPM.Compression = "xz:3" }},
		{"rpm-compression-level-for-lzma", []string{"rpm"}, func(s *gen.Spec) { s.RPM.Compression = "lzma:3" }},
		{"rpm-epoch-not-numeric", []string{"rpm"}, func(s *gen.Spec) { s.Epoch = "abc" }},
		{"deb-debsign-type-invalid", []string{"deb"}, func(s *gen.Spec) {
			s.Deb.Sig.KeyFile = testKey("privkey_unprotected.asc")
			s.Deb.Sig.Type = "nonsense"
		}},
		{"platform-not-linux", []string{"apk", "archlinux"}, func(s *gen.Spec) { s.Platform = "darwin" }},
		{"archlinux-invalid-name", []string{"archlinux"}, func(s *gen.Spec) { s.Name = "bad name!" }},
		{"archlinux-name-leading-dash", []string{"archlinux"}, func(s *gen.Spec) { s.Name = "-lead" }},
		{"script-path-blank", formats, func(s *gen.Spec) { s.Scripts.PostInstall = "  " }},
		{"script-path-tab", formats, func(s *gen.Spec) { s.Scripts.PreRemove = "\t" }},
		{"archlinux-name-non-ascii-letter", []string{"archlinux"}, func(s *gen.Spec) { s.Name = "café" }},
		{"archlinux-name-cyrillic", []string{"archlinux"}, func(s *gen.Spec) { s.Name = "пакет" }},
		{"archlinux-name-fullwidth-digit", []string{"archlinux"}, func(s *gen.Spec) { s.Name = "pkg１" }},
		{"archlinux-name-upper-case-is-fine-but-blank-is-not", []string{"archlinux"}, func(s *gen.Spec) { s.Name = "pkg name" }},
		{"key-id-unknown-dpkg-sig", []string{"deb"}, func(s *gen.Spec) {
			s.Deb.Sig.KeyFile = testKey("privkey_unprotected.asc")
			s.Deb.Sig.Method = "dpkg-sig"
			s.Deb.Sig.KeyID = "0123456789abcdef"
		}},
		{"key-id-unknown", []string{"deb", "rpm"}, func(s *gen.Spec) {
			s.Deb.Sig.KeyFile = testKey("privkey_unprotected.asc")
			s.RPM.Sig.KeyFile = testKey("privkey_unprotected.asc")
			s.Deb.Sig.KeyID = "0123456789abcdef"
			s.RPM.Sig.KeyID = "0123456789abcdef"
		}},
		{"deb-signature-method-unknown", []string{"deb"}, func(s *gen.Spec) {
			s.Deb.Sig.KeyFile = testKey("privkey_unprotected.asc")
			s.Deb.Sig.Method = "DPKG-SIG"
		}},
		{"content-type-unknown", formats, func(s *gen.Spec) {
			s.Contents = append(s.Contents, &gen.Content{Src: payload, Dst: "/opt/loud/q", Type: "no-such-type"})
		}},
		{"key-id-not-hex", []string{"deb", "rpm"}, func(s *gen.Spec) {
			s.Deb.Sig.KeyFile = testKey("privkey_unprotected.asc")
			s.RPM.Sig.KeyFile = testKey("privkey_unprotected.asc")
			s.Deb.Sig.KeyID = "zzzz"
			s.RPM.Sig.KeyID = "zzzz"
		}},
		{"glob-without-matches", formats, func(s *gen.Spec) {
			s.Contents = append(s.Contents, &gen.Content{Src: filepath.Join(dir, "*.nomatch"), Dst: "/opt/loud/n"})
		}},
		{"content-collision", formats, func(s *gen.Spec) {
			s.Contents = append(s.Contents, &gen.Content{Src: payload, Dst: "/opt/loud/p.txt"})
		}},
		{"rpm-epoch-beyond-32-bits", []string{"rpm"}, func(s *gen.Spec) { s.Epoch = "4294967296" }},
		{"rpm-epoch-beyond-32-bits-large", []string{"rpm"}, func(s *gen.Spec) { s.Epoch = "18446744073709551615" }},
		{"rpm-epoch-negative", []string{"rpm"}, func(s *gen.Spec) { s.Epoch = "-1" }},
		{"apk-signature-without-key-name-or-maintainer-mail", []string{"apk"}, func(s *gen.Spec) {
			s.APK.Sig.KeyFile = testKey("rsa_unprotected.priv")
			s.Maintainer = "no mail address here"
		}},
	}
	for _, iv := range invs {
		for _, f := range iv.formats {
			s := base()
			iv.set(s)
			atomic.AddInt64(&invalids, 1)
			run.Case("invalid|"+iv.class+"|"+f, true)
			var buf bytes.Buffer
			err, pn := packageTo(s.YAML(), f, &buf, nil)
			if pn != "" {
				run.Violate("C06/"+f+"/invalid-setting-panic/"+iv.class, map[string]any{"panic": pn})
			} else if err == nil {
				run.Violate("C06/"+f+"/invalid-setting-reported-as-success/"+iv.class, map[string]any{"output_bytes": buf.Len()})
			}
		}
	}
	// a changelog that was fine for one build and is rewritten into something
	// unparsable - same length, same modification time - fails the next build
	{
		chg := filepath.Join(dir, "turns-bad.yaml")
		goodDoc := "- semver: \"1.0.0\"\n  date: 2021-03-04T05:06:07Z\n  packager: \"P <p@example.com>\"\n  changes:\n    - note: \"fine\"\n"
		badDoc := strings.Replace(goodDoc, "- semver: ", "{ semver ]", 1) // same number of bytes
		stamp := time.Unix(1611111111, 0)
		for _, f := range []string{"deb", "rpm"} {
			_ = os.WriteFile(chg, []byte(goodDoc), 0o644)
			_ = os.Chtimes(chg, stamp, stamp)
			s := base()
			s.Changelog = chg
			run.Case("changelog-turns-unparsable|"+f, true)
			if err, pn := packageTo(s.YAML(), f, io.Discard, nil); err != nil || pn != "" {
				run.Violate("C06/"+f+"/clean-build-failed", map[string]any{"case": "changelog", "error": fmt.Sprint(err, pn)})
				continue
			}
			_ = os.WriteFile(chg, []byte(badDoc), 0o644)
			_ = os.Chtimes(chg, stamp, stamp)
			if err, pn := packageTo(s.YAML(), f, io.Discard, nil); err == nil && pn == "" {
				run.Violate("C06/"+f+"/source-fault-reported-as-success/changelog/rewritten-unparsable-same-length-and-mtime", map[string]any{"changelog": badDoc})
			}
		}
	}
	// a content source that holds more bytes than its stat size says (procfs
	// reports 0): the build fails, or ships exactly the bytes a read returns
	if want, err := os.ReadFile("/proc/sys/kernel/ostype"); err == nil && len(want) > 0 {
		if st, err := os.Stat("/proc/sys/kernel/ostype"); err == nil && st.Size() == 0 {
			for _, f := range formats {
				s := base()
				s.Contents = append(s.Contents, &gen.Content{Src: "/proc/sys/kernel/ostype", Dst: "/opt/loud/ostype"})
				run.Case("source-longer-than-its-stat-size|"+f, true)
				var buf bytes.Buffer
				err, pn := packageTo(s.YAML(), f, &buf, nil)
				if pn != "" {
					run.Violate("C06/"+f+"/source-fault-panic/source-longer-than-stat-size", map[string]any{"panic": pn})
					continue
				}
				if err != nil {
					continue // loud
				}
				p := dec.Decode(f, buf.Bytes(), false)
				e := p.Find("/opt/loud/ostype")
				if e == nil || !bytes.Equal(e.Data, want) {
					got := "<entry missing>"
					if e != nil {
						got = string(e.Data)
					}
					run.Violate("C06/"+f+"/source-silently-truncated/longer-than-stat-size", map[string]any{"shipped": got, "a_read_returns": string(want)})
				}
			}
		}
	}
	// a sub-directory of a tree that the building user may not read (the check
	// runs as root: the thread's file system uid is switched for this call)
	if os.Geteuid() == 0 {
		td := filepath.Join(dir, "tree-with-private-dir")
		_ = os.MkdirAll(filepath.Join(td, "public"), 0o755)
		_ = os.MkdirAll(filepath.Join(td, "private"), 0o700)
		_ = os.WriteFile(filepath.Join(td, "public", "a.txt"), []byte("a\n"), 0o644)
		_ = os.WriteFile(filepath.Join(td, "private", "secret.txt"), []byte("s\n"), 0o600)
		for d := td; d != "/" && d != "."; d = filepath.Dir(d) {
			if st, err := os.Stat(d); err == nil {
				_ = os.Chmod(d, st.Mode().Perm()|0o055)
			}
			if d == os.TempDir() {
				break
			}
		}
		run.Case("tree-with-unreadable-sub-directory", true)
		done := make(chan error, 1)
		go func() {
			runtime.LockOSThread() // never unlocked: the thread dies with the goroutine
			if _, _, e := syscall.RawSyscall(syscall.SYS_SETFSUID, 65534, 0, 0); e != 0 {
				done <- fmt.Errorf("setfsuid: %v", e)
				return
			}
			_, err := files.PrepareForPackager(files.Contents{{Source: td, Destination: "/opt/tree", Type: "tree"}}, 0o022, "deb", false, time.Unix(1500000000, 0))
			_, _, _ = syscall.RawSyscall(syscall.SYS_SETFSUID, 0, 0, 0)
			if err == nil {
				done <- nil
			} else {
				done <- fmt.Errorf("loud: %w", err)
			}
		}()
		if err := <-done; err == nil {
			run.Violate("C06/tree/unreadable-sub-directory-skipped-silently", map[string]any{"tree": "public/ (0755), private/ (0700, root)", "prepared_as_uid": 65534})
		} else if strings.HasPrefix(err.Error(), "setfsuid") {
			run.Set("unreadable_sub_directory_case", "skipped: "+err.Error())
		}
	}
	// settings that some archive formats cannot encode (owner/group names beyond
	// the 32 bytes of a GNU/ustar header field): packaging either fails or ships
	// the entry as declared - it never succeeds without the entry
	long := strings.Repeat("o", 40)
	for _, kind := range []string{"file", "dir", "symlink", "tree"} {
		for _, f := range formats {
			s := base()
			e := &gen.Content{Type: kind, Dst: "/opt/loud/long-owner", FI: &gen.FI{Owner: long, Group: long}}
			switch kind {
			case "file":
				e.Src = payload
			case "symlink":
				e.Src = "/nonexistent-verif/t"
			case "tree":
				td := filepath.Join(dir, "lo-tree")
				_ = os.MkdirAll(filepath.Join(td, "sub"), 0o755)
				_ = os.WriteFile(filepath.Join(td, "sub", "f"), []byte("f\n"), 0o644)
				e.Src = td
			}
			s.Contents = append(s.Contents, e)
			atomic.AddInt64(&invalids, 1)
			run.Case("unencodable|long-owner|"+kind+"|"+f, true)
			var buf bytes.Buffer
			err, pn := packageTo(s.YAML(), f, &buf, nil)
			if pn != "" {
				run.Violate("C06/"+f+"/invalid-setting-panic/long-owner-"+kind, map[string]any{"panic": pn})
				continue
			}
			if err != nil {
				continue // loud
			}
			p := dec.Decode(f, buf.Bytes(), false)
			ent := p.Find("/opt/loud/long-owner")
			switch {
			case len(p.Errs) > 0:
				run.Violate("C06/"+f+"/success-with-undecodable-output/long-owner-"+kind, map[string]any{"errors": p.Errs})
			case ent == nil:
				run.Violate("C06/"+f+"/entry-silently-dropped/long-owner-"+kind, map[string]any{})
			case kind != "symlink" && (ent.Owner != long || ent.Group != long):
				run.Violate("C06/"+f+"/entry-silently-altered/long-owner-"+kind, map[string]any{"owner": ent.Owner, "group": ent.Group})
			}
		}
	}
	// missing name / version (arch defaults to amd64 in WithDefaults)
	for _, f := range formats {
		for _, class := range []string{"name-missing"} {
			s := base()
			s.Name = ""
			atomic.AddInt64(&invalids, 1)
			run.Case("invalid|"+class+"|"+f, true)
			if err, pn := packageTo(s.YAML(), f, io.Discard, nil); err == nil || pn != "" {
				run.Violate("C06/"+f+"/invalid-setting-reported-as-success/"+class, map[string]any{"panic": pn})
			}
		}
	}
	run.Set("invalid_setting_runs", invalids)

	// ---------------- (e) the command line tool
	if bin := nfpmBin(run); bin != "" {
		c06CLI(run, bin, tier, &cliRuns)
	}
	run.Set("cli_runs", cliRuns)
	run.Assume("a write fault is 'the writer returns an error' (with a full or a short count); a writer that returns n < len(p) with a nil error breaks the io.Writer contract and is not a reported error")
	run.Assume("removing one match of a glob or one file below a directory source only changes the match set and is not a fault; content sources 'replaced by a directory' are a different valid configuration and are not injected")
}

// c06CLI drives the built nfpm binary.
func c06CLI(run *ev.Run, bin, tier string, cliRuns *int64) {
	dir := newWorkDir("c06cli")
	defer removeWorkDir(dir)
	payload := filepath.Join(dir, "p.txt")
	_ = os.WriteFile(payload, bytes.Repeat([]byte("payload line\n"), 50), 0o644)
	big := filepath.Join(dir, "big.bin")
	_ = os.WriteFile(big, (&gen.Node{Size: 2*1024*1024 + 5, Seed: 4242}).Content(), 0o644)
	script := filepath.Join(dir, "post.sh")
	_ = os.WriteFile(script, []byte("#!/bin/sh\nexit 0\n"), 0o755)
	mk := func(withBig bool) *gen.Spec {
		s := &gen.Spec{Name: "clipkg", Arch: "amd64", Version: "1.0.0", Maintainer: "C <c@example.com>", Description: "d", MTime: 1500000000}
		s.RPM.BuildHost = "verif-host"
		s.Contents = []*gen.Content{{Src: payload, Dst: "/opt/clipkg/p.txt"}}
		if withBig {
			s.Contents = append(s.Contents, &gen.Content{Src: big, Dst: "/opt/clipkg/big.bin"})
		}
		s.Scripts.PostInstall = script
		return s
	}
	exts := map[string]string{"deb": ".deb", "rpm": ".rpm", "apk": ".apk", "ipk": ".ipk", "archlinux": ".pkg.tar.zst"}
	env := append(os.Environ(), "SOURCE_DATE_EPOCH=")
	runNfpm := func(wd string, args ...string) (string, int) {
		so, se, code, err := runCmd(nil, wd, env, bin, args...)
		atomic.AddInt64(cliRuns, 1)
		if err != nil {
			run.Inconclusive("cannot run nfpm: " + err.Error())
		}
		return string(so) + string(se), code
	}
	listDir := func(d string) []string {
		es, _ := os.ReadDir(d)
		var out []string
		for _, e := range es {
			out = append(out, e.Name())
		}
		return out
	}
	for _, f := range formats {
		for _, withBig := range []bool{false, true} {
			// (1) the destination device is full
			wd := filepath.Join(dir, fmt.Sprintf("full-%s-%v", f, withBig))
			_ = os.MkdirAll(wd, 0o755)
			cfgp := filepath.Join(wd, "nfpm.yaml")
			_ = os.WriteFile(cfgp, []byte(mk(withBig).YAML()), 0o644)
			target := filepath.Join(wd, "out"+exts[f])
			if err := os.Symlink("/dev/full", target); err != nil {
				run.Inconclusive("cannot create symlink to /dev/full: " + err.Error())
				continue
			}
			out, code := runNfpm(wd, "package", "-f", cfgp, "-p", f, "-t", target)
			run.Case(fmt.Sprintf("cli|dev-full|%s|big=%v", f, withBig), true)
			_, lerr := os.Lstat(target)
			d := map[string]any{"format": f, "big_payload": withBig, "exit": code, "output": ev.Short(out, 400), "target_still_exists": lerr == nil}
			switch {
			case code == 0:
				run.Violate("C06/cli/"+f+"/full-device-exit-0", d)
			case lerr == nil:
				run.Violate("C06/cli/"+f+"/full-device-target-left-behind", d)
			case !strings.Contains(out, "no space left") && !strings.Contains(strings.ToLower(out), "write"):
				run.Violate("C06/cli/"+f+"/full-device-cause-not-printed", d)
			}
		}
		// (2) a missing source, with the three target spellings
		for _, tgt := range []string{"file", "directory", "blank"} {
			wd := filepath.Join(dir, fmt.Sprintf("missing-%s-%s", f, tgt))
			outDir := filepath.Join(wd, "outdir")
			_ = os.MkdirAll(outDir, 0o755)
			s := mk(false)
			s.Scripts.PostInstall = filepath.Join(wd, "does-not-exist.sh")
			cfgp := filepath.Join(wd, "nfpm.yaml")
			_ = os.WriteFile(cfgp, []byte(s.YAML()), 0o644)
			args := []string{"package", "-f", cfgp, "-p", f}
			watch := wd
			switch tgt {
			case "file":
				args = append(args, "-t", filepath.Join(outDir, "x"+exts[f]))
				watch = outDir
			case "directory":
				args = append(args, "-t", outDir)
				watch = outDir
			}
			before := listDir(watch)
			out, code := runNfpm(wd, args...)
			after := listDir(watch)
			run.Case(fmt.Sprintf("cli|missing-script|%s|%s", f, tgt), true)
			d := map[string]any{"format": f, "target": tgt, "exit": code, "output": ev.Short(out, 400), "files_before": before, "files_after": after}
			switch {
			case code == 0:
				run.Violate("C06/cli/"+f+"/missing-source-exit-0/"+tgt, d)
			case len(after) != len(before):
				run.Violate("C06/cli/"+f+"/partial-file-left/"+tgt, d)
			case !strings.Contains(out, "does-not-exist.sh"):
				run.Violate("C06/cli/"+f+"/cause-not-printed/"+tgt, d)
			}
		}
		// (2a') the missing file has a percent sign in its name (legal in a file name,
		// special only to whoever formats the message): the printed cause names it as it is
		{
			wd := filepath.Join(dir, "percent-"+f)
			_ = os.MkdirAll(wd, 0o755)
			for k, missing := range []string{"post%install.sh", "100%done %s %d.sh"} {
				s := mk(false)
				s.Scripts.PostInstall = filepath.Join(wd, missing)
				cfgp := filepath.Join(wd, fmt.Sprintf("nfpm-%d.yaml", k))
				_ = os.WriteFile(cfgp, []byte(s.YAML()), 0o644)
				out, code := runNfpm(wd, "package", "-f", cfgp, "-p", f, "-t", filepath.Join(wd, "x"+exts[f]))
				run.Case(fmt.Sprintf("cli|missing-script-with-percent-sign|%s|%d", f, k), true)
				if code == 0 || !strings.Contains(out, missing) {
					run.Violate("C06/cli/"+f+"/cause-not-printed/file-name-with-percent-sign", map[string]any{"exit": code, "missing_file": missing, "output": ev.Short(out, 400)})
				}
			}
		}
		// (2b) the target file already existed before the failing run: the
		// property still wants nothing at the target path afterwards (the old
		// package was truncated by the attempt and must not be mistaken for a result)
		{
			wd := filepath.Join(dir, "preexisting-"+f)
			_ = os.MkdirAll(wd, 0o755)
			s := mk(false)
			s.Scripts.PostInstall = filepath.Join(wd, "does-not-exist.sh")
			cfgp := filepath.Join(wd, "nfpm.yaml")
			_ = os.WriteFile(cfgp, []byte(s.YAML()), 0o644)
			target := filepath.Join(wd, "old"+exts[f])
			_ = os.WriteFile(target, []byte("an older package\n"), 0o644)
			out, code := runNfpm(wd, "package", "-f", cfgp, "-p", f, "-t", target)
			run.Case("cli|pre-existing-target|"+f, true)
			if b, err := os.ReadFile(target); code == 0 || err == nil {
				run.Violate("C06/cli/"+f+"/file-left-at-pre-existing-target", map[string]any{"exit": code, "output": ev.Short(out, 300), "left_bytes": len(b)})
			}
		}
		// (3) invalid setting through the CLI
		wd := filepath.Join(dir, "invalid-"+f)
		_ = os.MkdirAll(wd, 0o755)
		s := mk(false)
		s.Contents = append(s.Contents, &gen.Content{Src: payload, Dst: "/opt/clipkg/p.txt"}) // collision
		cfgp := filepath.Join(wd, "nfpm.yaml")
		_ = os.WriteFile(cfgp, []byte(s.YAML()), 0o644)
		target := filepath.Join(wd, "o"+exts[f])
		out, code := runNfpm(wd, "package", "-f", cfgp, "-p", f, "-t", target)
		run.Case("cli|collision|"+f, true)
		if _, err := os.Lstat(target); code == 0 || err == nil || strings.TrimSpace(out) == "" {
			run.Violate("C06/cli/"+f+"/invalid-config-not-loud", map[string]any{"exit": code, "output": ev.Short(out, 300), "target_exists": err == nil})
		}
	}
	// (4) strace fault injection: ENOSPC on the k-th write to the target, EIO on the
	// k-th read of a source file
	if have("strace") {
		ks := []int{1, 2}
		if tier == "thorough" {
			ks = []int{1, 2, 3, 4, 5, 6, 8, 12, 20, 40}
		}
		c06Strace(run, bin, dir, mk, exts, cliRuns, ks)
	}
}

func c06Strace(run *ev.Run, bin, dir string, mk func(bool) *gen.Spec, exts map[string]string, cliRuns *int64, ks []int) {
	_, _, code, err := runCmd(nil, dir, nil, "strace", "-o", "/dev/null", "-e", "trace=write", "true")
	if err != nil || code != 0 {
		run.Set("strace_injection", "strace present but not usable in this sandbox")
		return
	}
	nw, nr, reachedW, reachedR := 0, 0, 0, 0
	for _, f := range formats {
		for _, k := range ks {
			for _, side := range []string{"write-to-target", "read-from-source"} {
				wd := filepath.Join(dir, fmt.Sprintf("strace-%s-%s-%d", side, f, k))
				_ = os.MkdirAll(wd, 0o755)
				spec := mk(true)
				// a private copy of the big source so that -P matches only it
				src := filepath.Join(wd, "big-src.bin")
				_ = os.WriteFile(src, (&gen.Node{Size: 2*1024*1024 + 5, Seed: uint64(k) + 77}).Content(), 0o644)
				for _, c := range spec.Contents {
					if strings.HasSuffix(c.Dst, "big.bin") {
						c.Src = src
					}
				}
				cfgp := filepath.Join(wd, "nfpm.yaml")
				_ = os.WriteFile(cfgp, []byte(spec.YAML()), 0o644)
				target := filepath.Join(wd, "out"+exts[f])
				trace := filepath.Join(wd, "strace.out")
				watch, inj := target, fmt.Sprintf("inject=write:error=ENOSPC:when=%d", k)
				tr := "trace=write"
				if side == "read-from-source" {
					watch, inj, tr = src, fmt.Sprintf("inject=read:error=EIO:when=%d", k), "trace=read"
				}
				so, se, code, err := runCmd(nil, wd, nil, "strace", "-f", "-o", trace, "-P", watch, "-e", tr, "-e", inj,
					bin, "package", "-f", cfgp, "-p", f, "-t", target)
				atomic.AddInt64(cliRuns, 1)
				if err != nil {
					continue
				}
				tb, _ := os.ReadFile(trace)
				injected := bytes.Contains(tb, []byte("(INJECTED)"))
				if side == "read-from-source" {
					nr++
				} else {
					nw++
				}
				run.Case(fmt.Sprintf("cli|strace|%s|%s|%d", side, f, k), injected)
				if !injected {
					continue // fewer than k such system calls: nothing was injected
				}
				if side == "read-from-source" {
					reachedR++
				} else {
					reachedW++
				}
				out := string(so) + string(se)
				_, lerr := os.Lstat(target)
				d := map[string]any{"format": f, "k": k, "exit": code, "output": ev.Short(out, 300), "target_still_exists": lerr == nil}
				switch {
				case code == 0:
					run.Violate("C06/cli/"+f+"/strace-"+side+"-fault-exit-0", d)
				case lerr == nil:
					run.Violate("C06/cli/"+f+"/strace-"+side+"-fault-target-left-behind", d)
				case strings.TrimSpace(out) == "":
					run.Violate("C06/cli/"+f+"/strace-"+side+"-fault-cause-not-printed", d)
				}
			}
		}
	}
	run.Set("strace_injection", fmt.Sprintf("%d runs with write:ENOSPC on the target (%d reached), %d runs with read:EIO on a source file (%d reached)", nw, reachedW, nr, reachedR))
}
