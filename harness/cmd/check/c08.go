package main

import (
	"bytes"
	"fmt"
	"os"
	"path/filepath"
	"sort"
	"strings"
	"sync/atomic"

	"verifharness/internal/dec"
	"verifharness/internal/ev"
	"verifharness/internal/gen"
)

func init() { register("C08", "exploration", c08) }

// rpm FILEFLAGS as defined by rpm (rpmfiles.h)
const (
	rpmConfig    = 1
	rpmDoc       = 2
	rpmMissingOK = 8
	rpmNoReplace = 16
	rpmGhost     = 64
	rpmLicense   = 128
	rpmReadme    = 256
)

func wantRpmFlags(ctype string) int64 {
	switch ctype {
	case "config":
		return rpmConfig
	case "config|noreplace":
		return rpmConfig | rpmNoReplace
	case "config|missingok":
		return rpmConfig | rpmMissingOK
	case "ghost":
		return rpmGhost
	case "doc":
		return rpmDoc
	case "licence", "license":
		return rpmLicense
	case "readme":
		return rpmReadme
	}
	return 0
}

func isConfigType(t string) bool { return strings.HasPrefix(t, "config") }

// typingProblems compares the configuration-file / special-file registration
// of a decoded package with the reference plan.
func typingProblems(f string, p *dec.Package, plan map[string]*gen.PlanEntry, n *int64) []problem {
	var ps []problem
	add := func(k, d string) { ps = append(ps, problem{k, d}) }
	wantConf := map[string]string{}
	for path, pe := range plan {
		if pe.Kind == "file" && isConfigType(pe.CType) {
			wantConf[path] = pe.CType
		}
	}
	switch f {
	case "deb", "ipk", "archlinux":
		got := map[string]bool{}
		for _, l := range p.Conf {
			atomic.AddInt64(n, 1)
			var abs string
			if f == "archlinux" {
				if strings.HasPrefix(l, "/") {
					add("backup-not-relative", l)
				}
				abs = "/" + strings.TrimPrefix(l, "/")
			} else {
				if !strings.HasPrefix(l, "/") {
					add("conffile-not-absolute", l)
				}
				abs = l
			}
			if got[abs] {
				add("registered-twice", l)
			}
			got[abs] = true
			if _, ok := wantConf[abs]; !ok {
				cls := "not-in-plan"
				if pe := plan[abs]; pe != nil {
					cls = pe.CType
				}
				add("non-config-registered/"+ev.KeyPart(cls), l)
			} else if p.Find(abs) == nil {
				add("registered-but-not-shipped", l)
			}
		}
		for path, t := range wantConf {
			if !got[path] {
				add("config-not-registered/"+t, path)
			}
		}
	case "rpm":
		for i := range p.Entries {
			e := &p.Entries[i]
			pe := plan[e.Path]
			if pe == nil {
				continue // C01 reports entries outside the plan
			}
			atomic.AddInt64(n, 1)
			want := wantRpmFlags(pe.CType)
			if pe.Kind != "file" {
				want = 0
			}
			if e.Flags != want {
				add("fileflags/"+ev.KeyPart(pe.CType), fmt.Sprintf("%s: FILEFLAGS %d, want %d", e.Path, e.Flags, want))
			}
			if pe.Ghost {
				if e.InCpio {
					add("ghost-has-payload", e.Path)
				}
				if e.Mode&0o7777 != pe.Mode {
					add("ghost-mode", fmt.Sprintf("%s: %o, want %o", e.Path, e.Mode&0o7777, pe.Mode))
				}
			}
		}
		for path, pe := range plan {
			if (pe.Ghost || wantRpmFlags(pe.CType) != 0) && p.Find(path) == nil {
				add("special-entry-missing/"+ev.KeyPart(pe.CType), path)
			}
		}
	}
	if f != "rpm" {
		// rpm-only entries must not exist anywhere else (the plan for f does not
		// contain them, so any such path is an extra entry)
		for i := range p.Entries {
			if plan[p.Entries[i].Path] == nil {
				add("entry-outside-plan", p.Entries[i].Path)
			}
		}
	}
	return ps
}

func c08(run *ev.Run, tier string) {
	nmixed := ncases(60, 1000, tier)
	run.Rule = "part 1 (exhaustive): every (entry type in 12 types) x (packager tag in '', deb, rpm, apk, ipk, archlinux) x (format in 5) cell, the entry alone next to one plain file, plus config globs that expand one entry to 1..20 files; part 2: generated mixed content lists. For each package the conffiles member (deb, ipk), %config/noreplace/missingok/ghost/doc/license/readme FILEFLAGS and ghost payload/mode (rpm) and backup lines (archlinux) are compared with the declared types. Every cell also with expand: true; ghost entries naming a missing source or one without permission bits; configuration files behind symbolically linked directories, rpm documentation entries whose source is a symbolic link; a config-typed glob over a file also listed on its own; one parsed configuration serving a format with an override block and then another format. Also: entries dated outside 1970..2106, names with edge white space, config|missingok without a source. non-trivial = the case contains a config-typed or rpm-only entry that is relevant to the built format; distinct = cell / feature set"
	run.Rule += "; the nfpm binary with the packager guessed from the target extension; ghost entries whose file_info has no mode"
	dir := newWorkDir("c08")
	defer removeWorkDir(dir)
	mkfile := func(rel string, content string) string {
		p := filepath.Join(dir, rel)
		_ = os.MkdirAll(filepath.Dir(p), 0o755)
		_ = os.WriteFile(p, []byte(content), 0o644)
		return p
	}
	plain := mkfile("plain.txt", "plain\n")
	src := mkfile("entry.src", "entry source\n")
	noPerm := mkfile("no-permission-bits.pid", "1\n")
	_ = os.Chmod(noPerm, 0)
	treeDir := filepath.Join(dir, "tree")
	mkfile("tree/a.txt", "a\n")
	mkfile("tree/sub/b.txt", "b\n")
	var checked int64
	types := []string{"file", "config", "config|noreplace", "config|missingok", "ghost", "ghost:missing-src", "ghost:src-without-permission-bits", "doc", "licence", "license", "readme", "dir", "symlink", "tree"}
	tags := append([]string{""}, formats...)
	type cell struct {
		t, tag, f string
		expand    bool  // the entry opts into environment expansion of src/dst
		umask     int64 // package-wide umask (0 = default); the ghost default mode is 0644 whatever it is
	}
	var cells []cell
	for _, t := range types {
		for _, tag := range tags {
			for _, f := range formats {
				cells = append(cells, cell{t, tag, f, false, 0}, cell{t, tag, f, true, 0})
				if strings.HasPrefix(t, "ghost") || isConfigType(t) {
					for _, um := range []int64{0o027, 0o077, 0o7022} {
						cells = append(cells, cell{t, tag, f, false, um})
					}
				}
			}
		}
	}
	mkCase := func(s *gen.Spec) *gen.Case {
		return &gen.Case{Spec: s, Features: map[string]bool{}, Tree: gen.NewTree()}
	}
	base := func() *gen.Spec {
		s := &gen.Spec{Name: "typ", Arch: "amd64", Version: "1.0.0", Maintainer: "T <t@example.com>", Description: "typing", MTime: 1300000000}
		s.RPM.BuildHost = "verif-host"
		s.Contents = []*gen.Content{{Src: plain, Dst: "/opt/typ/plain.txt", Exp: []gen.Expect{{Dst: "/opt/typ/plain.txt", Kind: "file", Src: plain, Node: &gen.Node{Perm: 0o644}}}}}
		return s
	}
	node := &gen.Node{Perm: 0o644}
	parallel(len(cells), 8, func(i int) {
		c := cells[i]
		s := base()
		e := &gen.Content{Type: c.t, Packager: c.tag, Dst: "/etc/typ/entry", Expand: c.expand}
		s.Umask = c.umask
		if c.t == "ghost:missing-src" {
			// the run-time file a ghost stands for may be named as src; it need not
			// exist on the build host
			c.t = "ghost"
			e.Type, e.Src = "ghost", "/nonexistent-verif/run/typ.pid"
		}
		if c.t == "ghost:src-without-permission-bits" {
			// the named source exists but contributes no permission bits (mode 000):
			// the documented default still applies
			c.t = "ghost"
			e.Type, e.Src = "ghost", noPerm
		}
		switch c.t {
		case "dir":
			e.Exp = []gen.Expect{{Dst: e.Dst, Kind: "dir"}}
		case "symlink":
			e.Src = "/nonexistent-verif/target"
			e.Exp = []gen.Expect{{Dst: e.Dst, Kind: "symlink", Link: e.Src}}
		case "ghost":
			e.Exp = []gen.Expect{{Dst: e.Dst, Kind: "file"}}
		case "tree":
			e.Src = treeDir
			e.Exp = []gen.Expect{{Dst: e.Dst, Kind: "dir", Node: &gen.Node{Perm: 0o755}},
				{Dst: e.Dst + "/a.txt", Kind: "file", Src: treeDir + "/a.txt", Node: node},
				{Dst: e.Dst + "/sub", Kind: "dir", Node: &gen.Node{Perm: 0o755}},
				{Dst: e.Dst + "/sub/b.txt", Kind: "file", Src: treeDir + "/sub/b.txt", Node: node}}
		default:
			e.Src = src
			e.Exp = []gen.Expect{{Dst: e.Dst, Kind: "file", Src: src, Node: node}}
		}
		s.Contents = append(s.Contents, e)
		cs := mkCase(s)
		relevant := (c.tag == "" || c.tag == c.f) && (c.f == "rpm" || !(c.t == "ghost" || c.t == "doc" || c.t == "licence" || c.t == "license" || c.t == "readme"))
		special := isConfigType(c.t) || wantRpmFlags(c.t) != 0
		run.Case(fmt.Sprintf("cell|%s|%s|%s|expand=%v|umask=%o", c.t, c.tag, c.f, c.expand, c.umask), relevant && special)
		res := buildYAML(s.YAML(), c.f)
		if res.Err != nil || res.Panic != "" {
			run.Violate("C08/"+c.f+"/build-error", map[string]any{"cell": c, "type": c.t, "tag": c.tag, "error": fmt.Sprint(res.Err, ev.Short(res.Panic, 300))})
			return
		}
		p := dec.Decode(c.f, res.Bytes, false)
		if len(p.Errs) > 0 {
			run.Violate("C08/"+c.f+"/undecodable", map[string]any{"type": c.t, "tag": c.tag, "errors": p.Errs})
			return
		}
		plan := cs.Plan(c.f)
		// presence follows the addressing rule
		if got := p.Find("/etc/typ/entry") != nil; got != relevant {
			run.Violate("C08/"+c.f+"/entry-presence/"+ev.KeyPart(c.t), map[string]any{"type": c.t, "tag": c.tag, "present": got, "want": relevant})
		}
		for _, pr := range typingProblems(c.f, p, plan, &checked) {
			run.Violate("C08/"+c.f+"/"+pr.kind, map[string]any{"type": c.t, "tag": c.tag, "detail": pr.detail})
		}
		if i%97 == 0 {
			run.Sample(map[string]any{"cell": fmt.Sprintf("type=%s packager=%q format=%s", c.t, c.tag, c.f), "relevant": relevant})
		}
	})
	// config globs expanding to 1..20 files
	for _, nfiles := range []int{1, 2, 7, 20} {
		for _, t := range []string{"config", "config|noreplace", "config|missingok"} {
			gd := fmt.Sprintf("glob-%d-%s", nfiles, strings.ReplaceAll(t, "|", "-"))
			var exp []gen.Expect
			for k := 0; k < nfiles; k++ {
				p := mkfile(fmt.Sprintf("%s/c%02d.conf", gd, k), fmt.Sprintf("conf %d\n", k))
				exp = append(exp, gen.Expect{Dst: fmt.Sprintf("/etc/typ/conf.d/c%02d.conf", k), Kind: "file", Src: p, Node: node})
			}
			mkfile(gd+"/other.txt", "not matched\n")
			s := base()
			s.Contents = append(s.Contents, &gen.Content{Type: t, Src: filepath.Join(dir, gd) + "/*.conf", Dst: "/etc/typ/conf.d", Exp: exp})
			cs := mkCase(s)
			for _, f := range formats {
				run.Case(fmt.Sprintf("glob|%d|%s|%s", nfiles, t, f), true)
				res := buildYAML(s.YAML(), f)
				if res.Err != nil || res.Panic != "" {
					run.Violate("C08/"+f+"/build-error", map[string]any{"glob_files": nfiles, "type": t, "error": fmt.Sprint(res.Err, res.Panic)})
					continue
				}
				p := dec.Decode(f, res.Bytes, false)
				for _, pr := range typingProblems(f, p, cs.Plan(f), &checked) {
					run.Violate("C08/"+f+"/"+pr.kind, map[string]any{"glob_files": nfiles, "type": t, "detail": pr.detail})
				}
			}
		}
	}
	// overlapping declarations: a broad entry and a config entry for the same
	// source at the same destination. Preparation may reject this as a
	// collision; if it is accepted, the file must still be registered as config.
	for _, first := range []string{"dirsrc", "glob", "tree"} {
		for _, t := range []string{"config", "config|noreplace", "config|missingok"} {
			od := fmt.Sprintf("overlap-%s", first)
			cf := mkfile(od+"/app.conf", "conf\n")
			mkfile(od+"/other.txt", "other\n")
			s := base()
			broad := &gen.Content{Dst: "/etc/typ/overlap"}
			switch first {
			case "dirsrc":
				broad.Src = filepath.Join(dir, od)
			case "glob":
				broad.Src = filepath.Join(dir, od) + "/*"
			case "tree":
				broad.Src, broad.Type = filepath.Join(dir, od), "tree"
			}
			cfgEntry := &gen.Content{Type: t, Src: cf, Dst: "/etc/typ/overlap/app.conf"}
			orders := [][]*gen.Content{{broad, cfgEntry}, {cfgEntry, broad}}
			if first != "tree" {
				// the other way round: the file is listed on its own as a plain file (to
				// give it a special mode) and the broad entry is the configuration one
				typedBroad := &gen.Content{Dst: "/etc/typ/overlap", Src: broad.Src, Type: t}
				plainEntry := &gen.Content{Src: cf, Dst: "/etc/typ/overlap/app.conf", FI: &gen.FI{Mode: 0o600}}
				orders = append(orders, []*gen.Content{plainEntry, typedBroad}, []*gen.Content{typedBroad, plainEntry})
			}
			for _, order := range orders {
				s.Contents = append([]*gen.Content{s.Contents[0]}, order...)
				for _, f := range formats {
					run.Case(fmt.Sprintf("overlap|%s|%s|%s|%v|%v", first, t, f, order[0] == broad, order[0].Type == "" && order[0].FI != nil || order[1].Type == "" && order[1].FI != nil), true)
					res := buildYAML(s.YAML(), f)
					if res.Panic != "" {
						run.Violate("C08/"+f+"/panic", map[string]any{"overlap": first, "type": t})
						continue
					}
					if res.Err != nil {
						continue // rejected (content collision): nothing was typed wrongly
					}
					p := dec.Decode(f, res.Bytes, false)
					registered := false
					switch f {
					case "deb", "ipk":
						for _, l := range p.Conf {
							registered = registered || l == "/etc/typ/overlap/app.conf"
						}
					case "archlinux":
						for _, l := range p.Conf {
							registered = registered || l == "etc/typ/overlap/app.conf"
						}
					case "rpm":
						if e := p.Find("/etc/typ/overlap/app.conf"); e != nil {
							registered = e.Flags&rpmConfig != 0
						}
					case "apk":
						registered = true // no notion of configuration files
					}
					if !registered {
						run.Violate("C08/"+f+"/declared-config-silently-demoted/"+first, map[string]any{"type": t, "broad_entry_first": order[0] == broad})
					}
				}
			}
		}
	}
	// configuration files whose source path runs through a symbolically linked
	// directory (linked checkout / workspace) are ordinary files and stay registered
	{
		real := filepath.Join(dir, "real-workspace")
		_ = os.MkdirAll(real, 0o755)
		_ = os.WriteFile(filepath.Join(real, "linked.conf"), []byte("conf\n"), 0o644)
		_ = os.Symlink(real, filepath.Join(dir, "linked-workspace"))
		via := filepath.Join(dir, "linked-workspace", "linked.conf")
		// rpm-only documentation entries whose source is itself a symbolic link
		// (LICENSE -> LICENSE.md) are flagged regular files
		_ = os.WriteFile(filepath.Join(real, "LICENSE.md"), []byte("licence\n"), 0o644)
		_ = os.Symlink("LICENSE.md", filepath.Join(real, "LICENSE"))
		for _, t := range []string{"doc", "licence", "license", "readme"} {
			s := base()
			lsrc := filepath.Join(real, "LICENSE")
			s.Contents = append(s.Contents, &gen.Content{Type: t, Src: lsrc, Dst: "/usr/share/doc/typ/LICENSE", Exp: []gen.Expect{{Dst: "/usr/share/doc/typ/LICENSE", Kind: "file", Src: filepath.Join(real, "LICENSE.md"), Node: node}}})
			cs := mkCase(s)
			run.Case("rpm-only-type-with-symlinked-source|"+t, true)
			res := buildYAML(s.YAML(), "rpm")
			if res.Err != nil || res.Panic != "" {
				run.Violate("C08/rpm/build-error", map[string]any{"source": "symbolic link", "type": t, "error": fmt.Sprint(res.Err, res.Panic)})
				continue
			}
			p := dec.Decode("rpm", res.Bytes, false)
			if e := p.Find("/usr/share/doc/typ/LICENSE"); e == nil || e.Kind != "file" {
				run.Violate("C08/rpm/documentation-entry-not-shipped-as-file/symlinked-source", map[string]any{"type": t, "found": e != nil})
				continue
			}
			for _, pr := range typingProblems("rpm", p, cs.Plan("rpm"), &checked) {
				run.Violate("C08/rpm/"+pr.kind, map[string]any{"source": "symbolic link", "type": t, "detail": pr.detail})
			}
		}
		for _, t := range []string{"config", "config|noreplace", "config|missingok"} {
			for _, srcSpelling := range []string{via, filepath.Join(dir, "linked-workspace") + "/*.conf"} {
				s := base()
				dst := "/etc/typ/linked.conf"
				if strings.Contains(srcSpelling, "*") {
					dst = "/etc/typ"
				}
				s.Contents = append(s.Contents, &gen.Content{Type: t, Src: srcSpelling, Dst: dst, Exp: []gen.Expect{{Dst: "/etc/typ/linked.conf", Kind: "file", Src: via, Node: node}}})
				cs := mkCase(s)
				for _, f := range formats {
					run.Case(fmt.Sprintf("source-behind-linked-directory|%s|glob=%v|%s", t, strings.Contains(srcSpelling, "*"), f), true)
					res := buildYAML(s.YAML(), f)
					if res.Err != nil || res.Panic != "" {
						run.Violate("C08/"+f+"/build-error", map[string]any{"source": "behind a symbolically linked directory", "type": t, "error": fmt.Sprint(res.Err, res.Panic)})
						continue
					}
					p := dec.Decode(f, res.Bytes, false)
					if e := p.Find("/etc/typ/linked.conf"); e == nil || e.Kind != "file" {
						run.Violate("C08/"+f+"/config-file-not-shipped-as-file/source-behind-linked-directory", map[string]any{"type": t, "found": e != nil})
						continue
					}
					for _, pr := range typingProblems(f, p, cs.Plan(f), &checked) {
						run.Violate("C08/"+f+"/"+pr.kind, map[string]any{"source": "behind a symbolically linked directory", "type": t, "detail": pr.detail})
					}
				}
			}
		}
	}
	// entries whose declared time lies outside 1970..2106, whose name ends in a
	// blank, or whose missingok source is missing: still what they were declared
	for _, t := range []string{"config", "config|noreplace", "config|missingok", "doc", "license"} {
		for _, mt := range []int64{-86400, 4400000000} {
			s := base()
			s.Contents = append(s.Contents, &gen.Content{Type: t, Src: src, Dst: "/etc/typ/dated.conf", FI: &gen.FI{MTime: mt}, Exp: []gen.Expect{{Dst: "/etc/typ/dated.conf", Kind: "file", Src: src, Node: node}}})
			cs := mkCase(s)
			for _, f := range formats {
				if (t == "doc" || t == "license") && f != "rpm" {
					continue
				}
				run.Case(fmt.Sprintf("entry-time-outside-32-bits|%s|%d|%s", t, mt, f), true)
				res := buildYAML(s.YAML(), f)
				if res.Err != nil || res.Panic != "" {
					continue // a format may refuse a time it cannot store
				}
				p := dec.Decode(f, res.Bytes, false)
				for _, pr := range typingProblems(f, p, cs.Plan(f), &checked) {
					run.Violate("C08/"+f+"/"+pr.kind, map[string]any{"entry_mtime": mt, "type": t, "detail": pr.detail})
				}
			}
		}
	}
	for _, t := range []string{"config", "config|noreplace"} {
		for _, dst := range []string{"/etc/typ/trailing blank.conf ", "/etc/typ/ leading.conf", "/etc/typ/tab\t"} {
			s := base()
			s.Contents = append(s.Contents, &gen.Content{Type: t, Src: src, Dst: dst, Exp: []gen.Expect{{Dst: dst, Kind: "file", Src: src, Node: node}}})
			cs := mkCase(s)
			for _, f := range formats {
				run.Case(fmt.Sprintf("config-name-with-edge-white-space|%s|%q|%s", t, dst, f), true)
				res := buildYAML(s.YAML(), f)
				if res.Err != nil || res.Panic != "" {
					continue
				}
				p := dec.Decode(f, res.Bytes, false)
				if len(p.Errs) > 0 {
					continue // such names are at the edge of what the metadata formats can carry
				}
				for _, pr := range typingProblems(f, p, cs.Plan(f), &checked) {
					run.Violate("C08/"+f+"/"+pr.kind, map[string]any{"destination": dst, "type": t, "detail": pr.detail})
				}
			}
		}
	}
	for _, missing := range []string{filepath.Join(dir, "no-such-file.conf"), filepath.Join(dir, "no-such-*.conf")} {
		s := base()
		s.Contents = append(s.Contents, &gen.Content{Type: "config|missingok", Src: missing, Dst: "/etc/typ/missingok.conf"})
		for _, f := range formats {
			run.Case(fmt.Sprintf("missingok-entry-without-source|glob=%v|%s", strings.Contains(missing, "*"), f), true)
			res := buildYAML(s.YAML(), f)
			if res.Err != nil || res.Panic != "" {
				continue // loud
			}
			p := dec.Decode(f, res.Bytes, false)
			if p.Find("/etc/typ/missingok.conf") == nil {
				run.Violate("C08/"+f+"/declared-config-silently-left-out/missing-source", map[string]any{"type": "config|missingok", "source": filepath.Base(missing)})
			}
		}
	}
	// one parsed configuration, settings obtained for format X (which has an
	// override block) and then for format Y: Y's per-packager configuration
	// entries - listed before X's - are still registered in Y's package
	for _, x := range formats {
		for _, y := range formats {
			if x == y {
				continue
			}
			s := base()
			mkc := func(name, typ, tag string) *gen.Content {
				dst := "/etc/typ/" + name
				return &gen.Content{Type: typ, Packager: tag, Src: src, Dst: dst, Exp: []gen.Expect{{Dst: dst, Kind: "file", Src: src, Node: node}}}
			}
			s.Contents = append(s.Contents,
				mkc("for-y-noreplace.conf", "config|noreplace", y),
				mkc("for-y.conf", "config", y),
				mkc("for-x.conf", "config", x),
				mkc("common.conf", "config|missingok", ""),
				mkc("for-x-last.conf", "config|noreplace", x))
			s.SetOverride(x, &gen.Over{Umask: 0o027})
			cfg, err := parseYAML(s.YAML(), nil)
			if err != nil {
				run.Inconclusive(err.Error())
				continue
			}
			cs := mkCase(s)
			for _, f := range []string{x, y, x} {
				run.Case(fmt.Sprintf("one-parsed-config|override=%s|then=%s|building=%s", x, y, f), true)
				info, err := infoFor(&cfg, f)
				if err != nil {
					run.Inconclusive(err.Error())
					continue
				}
				res := packageInfo(f, info)
				if res.Err != nil || res.Panic != "" {
					run.Violate("C08/"+f+"/build-error", map[string]any{"one_parsed_config": true, "override_block_for": x, "obtained_in_order": []string{x, y, x}, "error": fmt.Sprint(res.Err, ev.Short(res.Panic, 300))})
					continue
				}
				p := dec.Decode(f, res.Bytes, false)
				if len(p.Errs) > 0 {
					run.Violate("C08/"+f+"/undecodable", map[string]any{"errors": p.Errs})
					continue
				}
				plan := cs.Plan(f)
				for pth, pe := range plan {
					if pe.Implied {
						continue
					}
					if p.Find(pth) == nil {
						run.Violate("C08/"+f+"/entry-presence/after-settings-for-another-format", map[string]any{"path": pth, "override_block_for": x, "obtained_in_order": []string{x, y, x}})
					}
				}
				for _, pr := range typingProblems(f, p, plan, &checked) {
					run.Violate("C08/"+f+"/"+pr.kind, map[string]any{"one_parsed_config": true, "override_block_for": x, "detail": pr.detail})
				}
			}
		}
	}
	// mixed generated lists
	forCases(run, caseCfg{
		prop: "C08", n: nmixed,
		opts: func(i int) gen.Opts {
			o := gen.DefaultOpts()
			o.NEntries = [2]int{4, 12}
			o.Overrides = i%5 == 2
			return o
		},
	}, func(b *built) {
		special := false
		for _, e := range b.c.Spec.Contents {
			if isConfigType(e.Type) || wantRpmFlags(e.Type) != 0 {
				special = true
			}
		}
		run.Case("mixed|"+b.c.Fingerprint(), special)
		fs := make([]string, 0, len(b.pkgs))
		for f := range b.pkgs {
			fs = append(fs, f)
		}
		sort.Strings(fs)
		for _, f := range fs {
			p := b.pkgs[f]
			if len(p.Errs) > 0 {
				run.Violate("C08/"+f+"/undecodable", map[string]any{"case": b.c.Index, "errors": p.Errs})
				continue
			}
			for _, pr := range typingProblems(f, p, b.c.Plan(f), &checked) {
				run.Violate("C08/"+f+"/"+pr.kind, map[string]any{"case": b.c.Index, "detail": pr.detail})
			}
		}
	})
	run.Set("registrations_checked", checked)
	run.Set("matrix_cells", len(cells))
	run.Set("matrix_exhaustive", true)
	// a ghost whose file_info names an owner, a group or a time but no mode: the mode is
	// the ghost default, as it is without any file_info
	for gi, fi := range []*gen.FI{nil, {Owner: "daemon"}, {Group: "adm"}, {MTime: 1400000000}, {Owner: "daemon", Group: "adm", MTime: 1400000000}} {
		s := &gen.Spec{Name: "ghostfi", Arch: "amd64", Version: "1.0.0", Maintainer: "G <g@example.com>", Description: "d", MTime: 1500000000}
		s.RPM.BuildHost = "verif-host"
		s.Contents = []*gen.Content{{Type: "ghost", Dst: "/var/log/ghostfi.log", FI: fi}, {Type: "ghost", Dst: "/var/lib/ghostfi/state", FI: fi}}
		run.Case(fmt.Sprintf("ghost-with-file-info-without-mode|%d", gi), true)
		res := buildYAML(s.YAML(), "rpm")
		if res.Err != nil || res.Panic != "" {
			run.Violate("C08/rpm/build-error", map[string]any{"case": "ghost with file_info without mode", "error": fmt.Sprint(res.Err, ev.Short(res.Panic, 200))})
			continue
		}
		p := dec.Decode("rpm", res.Bytes, false)
		for _, pth := range []string{"/var/log/ghostfi.log", "/var/lib/ghostfi/state"} {
			e := p.Find(pth)
			if e == nil || e.Flags != wantRpmFlags("ghost") || e.InCpio || e.Mode&0o7777 != 0o644 {
				d := map[string]any{"path": pth, "file_info": fmt.Sprintf("%+v", fi), "found": e != nil}
				if e != nil {
					d["mode"], d["flags"], d["has_payload"] = oct(e.Mode&0o7777), e.Flags, e.InCpio
				}
				run.Violate("C08/rpm/ghost-mode/file-info-without-mode", d)
			}
		}
	}
	// the command line tool with the packager guessed from the target's extension
	// marks the files the format's override block types as configuration
	if bin := nfpmBin(run); bin != "" {
		cliGuessedPackager(run, bin, "C08", func(f string, named, guessed []byte) {
			p := dec.Decode(f, guessed, false)
			plan := map[string]*gen.PlanEntry{}
			for _, d := range []string{"/opt", "/opt/guessed", "/etc", "/etc/guessed"} {
				plan[d] = &gen.PlanEntry{Path: d, Kind: "dir", CType: "dir", Implied: true}
			}
			plan["/opt/guessed/plain.txt"] = &gen.PlanEntry{Path: "/opt/guessed/plain.txt", Kind: "file", CType: "file"}
			plan["/opt/guessed/only-"+f+".txt"] = &gen.PlanEntry{Path: "/opt/guessed/only-" + f + ".txt", Kind: "file", CType: "file"}
			plan["/etc/guessed/"+f+".conf"] = &gen.PlanEntry{Path: "/etc/guessed/" + f + ".conf", Kind: "file", CType: "config|noreplace"}
			var n int64
			if len(p.Errs) > 0 {
				run.Violate("C08/cli/"+f+"/undecodable/packager-guessed-from-target-extension", map[string]any{"errors": p.Errs})
			}
			for _, pr := range typingProblems(f, p, plan, &n) {
				run.Violate("C08/cli/"+f+"/"+pr.kind+"/packager-guessed-from-target-extension", map[string]any{"detail": pr.detail})
			}
			if p.Find("/etc/guessed/"+f+".conf") == nil {
				run.Violate("C08/cli/"+f+"/config-file-missing/packager-guessed-from-target-extension", map[string]any{"path": "/etc/guessed/" + f + ".conf"})
			}
			if !bytes.Equal(named, guessed) {
				run.Violate("C08/cli/"+f+"/package-differs/packager-guessed-from-target-extension", map[string]any{"len_named": len(named), "len_guessed": len(guessed)})
			}
		})
	}
}
