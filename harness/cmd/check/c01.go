package main

import (
	"bytes"
	"crypto/sha256"
	"fmt"
	"os"
	"path/filepath"
	"sort"
	"strconv"
	"strings"
	"sync"
	"time"

	"verifharness/internal/dec"
	"verifharness/internal/ev"
	"verifharness/internal/gen"
)

func init() { register("C01", "exploration", c01) }

// modeClass names the way the expected mode of a plan entry was derived; it is
// part of the violation key so that known findings stay narrow.
func modeClass(pe *gen.PlanEntry) string {
	switch {
	case pe.Implied:
		return "implied-dir"
	case pe.FromTree && pe.Kind == "dir":
		return "tree-dir"
	case pe.FromTree && pe.Special:
		return "tree-file-special-src"
	case pe.FromTree:
		return "tree-file"
	case pe.Kind == "dir" && pe.Entry != nil && pe.Entry.FI != nil && pe.Entry.FI.Mode != 0:
		return "dir-explicit"
	case pe.Kind == "dir" && pe.Entry != nil && pe.Entry.Shape == "dir-from-src":
		return "dir-from-src"
	case pe.Kind == "dir":
		return "dir-default"
	case pe.Ghost:
		return "ghost"
	case pe.Changelog:
		return "changelog"
	case pe.Entry != nil && pe.Entry.FI != nil && pe.Entry.FI.Mode != 0:
		return "explicit"
	case pe.Special:
		return "defaulted-special-src"
	}
	return "defaulted"
}

type cmpStats struct {
	entries, attrs, bytesHashed int64
}

// comparePayload checks a decoded package against the reference plan.
// canary numeric ids given to sources on the build host (when running as root)
const (
	canaryUID = 23456
	canaryGID = 34567
)

// chownSources hands every source file and directory of the case to the canary
// ids (modes and mtimes are put back: chown clears setuid/setgid). Returns the
// number of nodes changed; 0 when not running as root.
func chownSources(c *gen.Case) int {
	if os.Geteuid() != 0 {
		return 0
	}
	n := 0
	for _, nd := range c.Tree.Sorted() {
		if !strings.HasPrefix(nd.Rel, "src/") || (nd.Kind != "file" && nd.Kind != "dir") {
			continue
		}
		p := c.Tree.Abs(nd.Rel)
		st, err := os.Lstat(p)
		if err != nil || st.Mode()&os.ModeSymlink != 0 {
			continue
		}
		if os.Lchown(p, canaryUID, canaryGID) != nil {
			continue
		}
		_ = os.Chmod(p, st.Mode())
		_ = os.Chtimes(p, st.ModTime(), st.ModTime())
		n++
	}
	return n
}

func comparePayload(run *ev.Run, prop string, c *gen.Case, f string, pkg *dec.Package, plan map[string]*gen.PlanEntry, st *cmpStats) {
	viol := func(kind string, detail map[string]any) {
		detail["case"] = c.Index
		detail["format"] = f
		run.Violate(prop+"/"+f+"/"+kind, detail)
	}
	seen := map[string]bool{}
	for i := range pkg.Entries {
		e := &pkg.Entries[i]
		if e.Path == "/" {
			// a root entry is never denoted by any content entry
			viol("extra-entry/root", map[string]any{"stored": e.Stored})
			continue
		}
		if seen[e.Path] {
			viol("duplicate-entry", map[string]any{"path": e.Path})
			continue
		}
		seen[e.Path] = true
		// numeric ids cannot be declared: the canary ids some sources are given on
		// the build host must not show up anywhere
		if e.UID == canaryUID || e.GID == canaryGID {
			viol("build-host-ids-in-package/"+e.Kind, map[string]any{"path": e.Path, "uid": e.UID, "gid": e.GID, "owner": e.Owner, "group": e.Group})
		}
		pe := plan[e.Path]
		if pe == nil {
			viol("extra-entry/"+e.Kind, map[string]any{"path": e.Path, "stored": e.Stored})
			continue
		}
		st.entries++
		mc := modeClass(pe)
		if e.Kind != pe.Kind {
			viol("kind/"+pe.CType, map[string]any{"path": e.Path, "got": e.Kind, "want": pe.Kind})
			continue
		}
		// mode
		if pe.Mode >= 0 {
			st.attrs++
			got := e.Mode
			if f == "rpm" {
				want := map[string]int64{"file": 0o100000, "dir": 0o040000, "symlink": 0o120000}[pe.Kind]
				if got&0o170000 != want {
					viol("rpm-type-bits/"+mc, map[string]any{"path": e.Path, "got": oct(got), "want_type": oct(want)})
				}
				got &= 0o7777
			}
			if got != pe.Mode {
				viol("mode/"+mc, map[string]any{"path": e.Path, "got": oct(got), "want": oct(pe.Mode), "type": pe.CType})
			}
		}
		// owner / group (symlinks: the property only states the literal target)
		if pe.Kind != "symlink" && !pe.Changelog {
			st.attrs += 2
			own, grp := e.Owner, e.Group
			if own == "" && e.UID == 0 && f != "rpm" {
				own = "root"
			}
			if grp == "" && e.GID == 0 && f != "rpm" {
				grp = "root"
			}
			declared := "defaulted"
			if pe.Owner != "root" || pe.Group != "root" {
				declared = "declared"
			}
			if own != pe.Owner {
				viol("owner/"+pe.Kind+"/"+declared, map[string]any{"path": e.Path, "got": e.Owner, "want": pe.Owner, "class": mc})
			}
			if grp != pe.Group {
				viol("group/"+pe.Kind+"/"+declared, map[string]any{"path": e.Path, "got": e.Group, "want": pe.Group, "class": mc})
			}
		}
		switch pe.Kind {
		case "symlink":
			st.attrs++
			if e.Link != pe.Link {
				viol("symlink-target", map[string]any{"path": e.Path, "got": e.Link, "want": pe.Link})
			}
		case "file":
			if pe.Ghost {
				if e.InCpio || len(e.Data) > 0 {
					viol("ghost-has-payload", map[string]any{"path": e.Path})
				}
				continue
			}
			if f == "rpm" && !e.InCpio {
				viol("file-without-payload", map[string]any{"path": e.Path})
				continue
			}
			if pe.Changelog {
				continue
			}
			if pe.MTime != 0 {
				st.attrs++
				if e.MTime != pe.MTime && !(pe.MTimeAlt != 0 && e.MTime == pe.MTimeAlt) {
					cls := "package-or-source"
					if pe.Entry != nil && pe.Entry.FI != nil && pe.Entry.FI.MTime != 0 {
						cls = "per-entry"
					}
					viol("file-mtime/"+cls, map[string]any{"path": e.Path, "got": e.MTime, "want": pe.MTime, "class": mc})
				}
			}
			want, n, err := fileSHA(pe.Src)
			if err != nil {
				run.Inconclusive(fmt.Sprintf("case %d: cannot read source %s: %v", c.Index, pe.Src, err))
				continue
			}
			st.bytesHashed += n
			st.attrs++
			if int64(len(e.Data)) != n || sha256.Sum256(e.Data) != want {
				viol("bytes", map[string]any{"path": e.Path, "got_len": len(e.Data), "want_len": n, "src": pe.Src})
			}
			if e.Size != n {
				viol("size-field", map[string]any{"path": e.Path, "got": e.Size, "want": n})
			}
		}
	}
	for _, p := range gen.SortedPaths(plan) {
		if !seen[p] {
			pe := plan[p]
			cls := pe.CType
			if pe.Implied {
				cls = "implied-dir"
			}
			viol("missing-entry/"+pe.Kind+"/"+ev.KeyPart(cls), map[string]any{"path": p})
		}
	}
}

func c01(run *ev.Run, tier string) {
	n := ncases(120, 1500, tier)
	run.Rule = "cases = generated (config YAML, materialised source tree); each is parsed, Get(format)+WithDefaults, packaged in all 5 formats, decoded by harness readers and compared entry-by-entry (kind, bytes SHA-256, stored mode field, owner, group, file mtime, link target) with a reference plan written from the documentation. Regimes by index: i%5==3 package mtime unset (source mtimes apply), i%7==5 setuid/setgid/sticky source files, i%4==1 per-format override blocks. Half of the cases are built from ONE parsed configuration (formats in a rotating order, overridden formats first), the other half from a fresh parse per format; a third of the cases have sources owned by canary numeric ids (as root) that must not appear in any package; source trees carry sub-second mtimes and NFD-spelled names; directed cases: an entry inside a tree destination listed before / after the tree, backslashes in tree names, sources behind symbolic links and linked directories, a source without permission bits, a tree at '/' (rpm). non-trivial = >=3 distinct content types and >=1 regular file whose mode is defaulted through the umask; distinct = distinct feature sets; the nfpm binary with the packager named and guessed from the target extension over per-format override blocks; SOURCE_DATE_EPOCH=0; good builds after failed ones; a destination ending in a line break; a symlink with expand: true"
	var st cmpStats
	var mu sync.Mutex
	perFormat := map[string]int64{}
	crossPairs := int64(0)
	rebuilt, chowned := int64(0), int64(0)
	comp := map[string]int64{}
	useCLI := tier == "thorough"
	parallel(n, 8, func(i int) {
		if *flagOnly >= 0 && i != *flagOnly {
			return
		}
		o := gen.DefaultOpts()
		o.Big = 1
		if tier == "thorough" && i%6 == 0 {
			o.Big = 2
		}
		o.NoPkgMTime = i%5 == 3
		o.SpecialSrc = i%7 == 5
		o.Overrides = i%4 == 1
		root := newWorkDir("c01")
		defer removeWorkDir(root)
		c, err := gen.New(uint64(run.Seed), i, root, o)
		if err != nil {
			run.Inconclusive(fmt.Sprintf("case %d: generator: %v", i, err))
			return
		}
		// every deb/rpm compression setting is exercised round-robin
		c.Spec.Deb.Compression = []string{"", "gzip", "xz", "zstd", "none"}[i%5]
		c.Spec.RPM.Compression = []string{"", "gzip", "gzip:1", "gzip:9", "xz", "lzma", "zstd", "zstd:1", "zstd:19"}[i%9]
		if i%3 == 1 && chownSources(c) > 0 {
			mu.Lock()
			chowned++
			mu.Unlock()
		}
		y := c.Spec.YAML()
		ntypes := 0
		for ft := range c.Features {
			if strings.HasPrefix(ft, "type-") {
				ntypes++
			}
		}
		run.Case(c.Fingerprint(), ntypes >= 3 && c.Features["mode-defaulted"])
		if i < 2 {
			run.Sample(map[string]any{"case": i, "yaml": ev.Short(y, 1500), "source_nodes": len(c.Tree.Nodes)})
		}
		var lst cmpStats
		sigs := map[string]map[string]string{}
		order, sharedCfg, build := buildPlan(i, y, c.Spec, formats)
		for _, f := range order {
			res := build(f)
			if res.Panic != "" {
				run.Violate("C01/"+f+"/panic", map[string]any{"case": i, "panic": ev.Short(res.Panic, 800)})
				continue
			}
			if res.Err != nil {
				cls := "other"
				if strings.Contains(res.Err.Error(), "cannot encode") {
					cls = "tar-cannot-encode"
				}
				if o.SpecialSrc {
					cls += "/special-src-regime"
				}
				run.Violate("C01/"+f+"/build-error/"+cls, map[string]any{"case": i, "error": res.Err.Error()})
				continue
			}
			pkg := dec.Decode(f, res.Bytes, useCLI)
			if len(pkg.Errs) > 0 {
				run.Violate("C01/"+f+"/undecodable", map[string]any{"case": i, "errors": pkg.Errs})
				continue
			}
			plan := c.Plan(f)
			comparePayload(run, "C01", c, f, pkg, plan, &lst)
			mu.Lock()
			perFormat[f] += int64(len(pkg.Entries))
			if f == "deb" {
				comp["deb:"+pkg.DataAlgo]++
			}
			if f == "rpm" {
				comp["rpm:"+c.Spec.RPM.Compression]++
			}
			mu.Unlock()
			// signature for the direct cross-format comparison
			sg := map[string]string{}
			for k := range pkg.Entries {
				e := &pkg.Entries[k]
				pe := plan[e.Path]
				if pe == nil || pe.Implied || pe.Changelog || pe.Ghost {
					continue
				}
				if pe.Entry != nil && (pe.Entry.Packager != "" || pe.CType == "doc" || pe.CType == "licence" || pe.CType == "license" || pe.CType == "readme") {
					continue
				}
				m := e.Mode & 0o7777
				if e.Kind == "symlink" {
					m = 0
				}
				var h [32]byte
				if e.Kind == "file" {
					h = sha256.Sum256(e.Data)
				}
				sg[e.Path] = fmt.Sprintf("%s %o %x %s", e.Kind, m, h, e.Link)
			}
			sigs[f] = sg
		}
		// a second build in the same process after the sources changed in place
		// must ship the new bytes (nothing may be cached per source path)
		if i%3 == 0 && mutateSources(c, 3) > 0 {
			mu.Lock()
			rebuilt++
			mu.Unlock()
			for _, f := range order {
				res := build(f)
				if res.Err != nil || res.Panic != "" {
					run.Violate("C01/"+f+"/rebuild-error", map[string]any{"case": i, "one_parsed_config": sharedCfg, "error": fmt.Sprint(res.Err, ev.Short(res.Panic, 300))})
					continue
				}
				pkg := dec.Decode(f, res.Bytes, false)
				if len(pkg.Errs) > 0 {
					run.Violate("C01/"+f+"/undecodable", map[string]any{"case": i, "errors": pkg.Errs})
					continue
				}
				comparePayload(run, "C01", c, f, pkg, c.Plan(f), &lst)
			}
		}
		// the same configuration yields the same logical tree in all formats
		if len(c.Spec.Overrides) == 0 {
			fs := make([]string, 0, len(sigs))
			for f := range sigs {
				fs = append(fs, f)
			}
			sort.Strings(fs)
			for a := 0; a < len(fs); a++ {
				for b := a + 1; b < len(fs); b++ {
					mu.Lock()
					crossPairs++
					mu.Unlock()
					sa, sb := sigs[fs[a]], sigs[fs[b]]
					for p, va := range sa {
						if vb, ok := sb[p]; ok && va != vb {
							run.Violate("C01/cross-format/"+fs[a]+"-vs-"+fs[b], map[string]any{"case": i, "path": p, fs[a]: va, fs[b]: vb})
						} else if !ok {
							// dirs are legitimately absent from rpm only when implied; those were filtered above
							run.Violate("C01/cross-format/only-in-"+fs[a]+"-not-"+fs[b], map[string]any{"case": i, "path": p})
						}
					}
					for p := range sb {
						if _, ok := sa[p]; !ok {
							run.Violate("C01/cross-format/only-in-"+fs[b]+"-not-"+fs[a], map[string]any{"case": i, "path": p})
						}
					}
				}
			}
		}
		mu.Lock()
		st.entries += lst.entries
		st.attrs += lst.attrs
		st.bytesHashed += lst.bytesHashed
		mu.Unlock()
	})
	c01Directed(run, &st)
	// a build that failed half-way leaves nothing behind in the payload of the next one
	afterFailedBuilds(run, "C01", func(f string, raw []byte, p *dec.Package) []problem {
		var ps []problem
		for pth, size := range map[string]int64{"/opt/af/a.bin": 3300, "/opt/af/b.bin": 6000, "/opt/af/c.bin": 6} {
			if e := p.Find(pth); e == nil || e.Kind != "file" || int64(len(e.Data)) != size {
				ps = append(ps, problem{"payload-entry", pth + " missing or of another size"})
			}
		}
		if len(p.Entries) > 6 {
			ps = append(ps, problem{"payload-entry", fmt.Sprintf("%d entries, configured 4 plus implied directories", len(p.Entries))})
		}
		return ps
	})
	// the command line tool with the packager guessed from the target's extension
	// ships what the configuration (its per-format overrides included) lists
	if bin := nfpmBin(run); bin != "" {
		cliGuessedPackager(run, bin, "C01", func(f string, named, guessed []byte) {
			p := dec.Decode(f, guessed, false)
			want := map[string]string{"/opt/guessed/plain.txt": "plain payload\n", "/opt/guessed/only-" + f + ".txt": "only for " + f + "\n", "/etc/guessed/" + f + ".conf": "setting = " + f + "\n"}
			for pth, body := range want {
				st.entries++
				if e := p.Find(pth); len(p.Errs) > 0 || e == nil || string(e.Data) != body {
					run.Violate("C01/cli/"+f+"/configured-entry-missing/packager-guessed-from-target-extension", map[string]any{"path": pth, "found": e != nil, "decode_errors": p.Errs})
				}
			}
			if !bytes.Equal(named, guessed) {
				run.Violate("C01/cli/"+f+"/package-differs/packager-guessed-from-target-extension", map[string]any{"len_named": len(named), "len_guessed": len(guessed)})
			}
		})
	}
	run.Set("entries_compared", st.entries)
	run.Set("attribute_comparisons", st.attrs)
	run.Set("source_bytes_hashed", st.bytesHashed)
	run.Set("entries_decoded_per_format", perFormat)
	run.Set("cross_format_pairs_compared", crossPairs)
	run.Set("cases_rebuilt_after_source_change", rebuilt)
	run.Set("cases_with_sources_owned_by_canary_ids", chowned)
	run.Set("compression_settings_seen", comp)
	run.Set("external_decoders", map[string]bool{"xz_cli_crosscheck": useCLI && have("xz")})
	run.Assume("the harness decoders (raw tar walker, ar, gzip member splitter, rpm header + cpio newc parser, klauspost zstd decoder, ulikunitz xz/lzma decoders) read the formats correctly")
	run.Assume("tree destinations in nfpm's 'owned by filesystem' list, file_info.mode/mtime on tree entries, globs matching directories and dir sources whose files all live in one subdirectory are not explored (expected result not determined by the property)")
	_ = os.Stdout
}

// c01Directed: hand-made cases for corners the generator does not reach: the
// order of a tree and an entry inside its destination, sources reached through
// symbolic links, names only some tools treat specially.
func c01Directed(run *ev.Run, st *cmpStats) {
	root := newWorkDir("c01d")
	defer removeWorkDir(root)
	mt := int64(1311111111)
	mkdir := func(rel string, perm os.FileMode) *gen.Node {
		p := filepath.Join(root, rel)
		_ = os.MkdirAll(p, 0o755)
		_ = os.Chmod(p, perm)
		return &gen.Node{Rel: rel, Kind: "dir", Perm: perm, MTime: mt}
	}
	mkfile := func(rel, body string, perm os.FileMode) *gen.Node {
		p := filepath.Join(root, rel)
		_ = os.MkdirAll(filepath.Dir(p), 0o755)
		_ = os.WriteFile(p, []byte(body), 0o644)
		_ = os.Chmod(p, perm)
		return &gen.Node{Rel: rel, Kind: "file", Perm: perm, MTime: mt}
	}
	abs := func(n *gen.Node) string { return filepath.Join(root, n.Rel) }
	// tree source: t/ (0755), t/sub (0750), t/sub/deep (0700), files
	tRoot := mkdir("t", 0o755)
	tSub := mkdir("t/sub", 0o750)
	tDeep := mkdir("t/sub/deep", 0o700)
	fA := mkfile("t/a.txt", "a\n", 0o644)
	fB := mkfile("t/sub/b.txt", "b\n", 0o640)
	fC := mkfile("t/sub/deep/c.txt", "c\n", 0o600)
	extra := mkfile("extra.txt", "extra\n", 0o644)
	noPerm := mkfile("no-permission-bits.dat", "secret\n", 0)
	// symlinked sources
	realDir := mkdir("realdir", 0o750)
	realDoc := mkfile("realdoc.md", "doc\n", 0o640)
	inner := mkfile("realdir/inner.conf", "inner\n", 0o640)
	_ = os.Chmod(abs(realDir), 0o750)
	_ = os.Symlink(abs(realDir), filepath.Join(root, "linkdir"))
	_ = os.Symlink(abs(realDoc), filepath.Join(root, "linkdoc.md"))
	stamp := func() {
		_ = filepath.Walk(root, func(p string, fi os.FileInfo, err error) error {
			if err == nil && fi.Mode()&os.ModeSymlink == 0 {
				_ = os.Chtimes(p, time.Unix(mt, 0), time.Unix(mt, 0))
			}
			return nil
		})
	}
	stamp()
	treeExp := func(dst string) []gen.Expect {
		if dst == "/" {
			return []gen.Expect{
				{Dst: "/sub", Kind: "dir", Node: tSub}, {Dst: "/sub/deep", Kind: "dir", Node: tDeep},
				{Dst: "/a.txt", Kind: "file", Src: abs(fA), Node: fA}, {Dst: "/sub/b.txt", Kind: "file", Src: abs(fB), Node: fB},
				{Dst: "/sub/deep/c.txt", Kind: "file", Src: abs(fC), Node: fC},
			}
		}
		return []gen.Expect{
			{Dst: dst, Kind: "dir", Node: tRoot}, {Dst: dst + "/sub", Kind: "dir", Node: tSub}, {Dst: dst + "/sub/deep", Kind: "dir", Node: tDeep},
			{Dst: dst + "/a.txt", Kind: "file", Src: abs(fA), Node: fA}, {Dst: dst + "/sub/b.txt", Kind: "file", Src: abs(fB), Node: fB},
			{Dst: dst + "/sub/deep/c.txt", Kind: "file", Src: abs(fC), Node: fC},
		}
	}
	file := func(dst string) *gen.Content {
		return &gen.Content{Src: abs(extra), Dst: dst, Exp: []gen.Expect{{Dst: dst, Kind: "file", Src: abs(extra), Node: extra}}}
	}
	tree := func(dst string) *gen.Content {
		return &gen.Content{Type: "tree", Src: abs(tRoot), Dst: dst, Exp: treeExp(dst)}
	}
	// a tree whose names contain backslashes (ordinary bytes on a Linux host)
	bsRoot := mkdir("bs", 0o755)
	bsDir := mkdir("bs/d\\x", 0o750)
	bs1 := mkfile("bs/we\\ird.txt", "1\n", 0o644)
	bs2 := mkfile("bs/d\\x/f.txt", "2\n", 0o640)
	bs3 := mkfile("bs/up\\..\\esc.txt", "3\n", 0o600)
	stamp()
	bsTree := &gen.Content{Type: "tree", Src: abs(bsRoot), Dst: "/opt/bs", Exp: []gen.Expect{
		{Dst: "/opt/bs", Kind: "dir", Node: bsRoot}, {Dst: "/opt/bs/d\\x", Kind: "dir", Node: bsDir},
		{Dst: "/opt/bs/we\\ird.txt", Kind: "file", Src: abs(bs1), Node: bs1}, {Dst: "/opt/bs/d\\x/f.txt", Kind: "file", Src: abs(bs2), Node: bs2},
		{Dst: "/opt/bs/up\\..\\esc.txt", Kind: "file", Src: abs(bs3), Node: bs3}}}
	type dcase struct {
		name     string
		contents []*gen.Content
	}
	// cases restricted to one format
	onlyFormat := map[string]string{"tree-at-the-root": "rpm"}
	linkDoc := filepath.Join(root, "linkdoc.md")
	cases := []dcase{
		{"entry-inside-tree-destination-listed-first", []*gen.Content{file("/opt/t/sub/extra.txt"), tree("/opt/t")}},
		{"entry-inside-tree-destination-listed-last", []*gen.Content{tree("/opt/t"), file("/opt/t/sub/deep/extra.txt")}},
		{"two-entries-inside-tree-destination", []*gen.Content{file("/opt/t/extra0.txt"), file("/opt/t/sub/deep/extra.txt"), tree("/opt/t")}},
		{"backslashes-in-tree-names", []*gen.Content{bsTree}},
		// a destination whose last byte is a line break or a carriage return: part of the name
		{"destination-ending-in-a-line-break", []*gen.Content{file("/opt/d/report\n"), file("/opt/d/cr-at-the-end\r"), file("/opt/d/plain.txt")}},
		// a source whose permission bits are all cleared (readable for root only):
		// the mode is the source mode, in every format
		{"source-without-permission-bits", []*gen.Content{
			{Src: abs(noPerm), Dst: "/opt/d/no-permission-bits.dat", Exp: []gen.Expect{{Dst: "/opt/d/no-permission-bits.dat", Kind: "file", Src: abs(noPerm), Node: noPerm}}},
			file("/opt/d/ordinary.txt"),
		}},
		// forty directories deep: every ancestor is an implied directory of the payload
		{"deep-destination", []*gen.Content{file("/" + strings.Repeat("n/node_modules/", 20) + "leaf.txt")}},
		// an overlay of the root file system: the tree lands at "/"
		// (rpm only: the tar based formats ship the tree's own root as a member
		// named "./" or "" there, observation O4 - no expectation is held against it)
		{"tree-at-the-root", []*gen.Content{tree("/")}},
		{"sources-behind-symbolic-links", []*gen.Content{
			{Type: "dir", Src: filepath.Join(root, "linkdir"), Dst: "/var/lib/d/linked", Exp: []gen.Expect{{Dst: "/var/lib/d/linked", Kind: "dir", Node: realDir}}},
			{Type: "doc", Src: linkDoc, Dst: "/usr/share/doc/d/README.md", Exp: []gen.Expect{{Dst: "/usr/share/doc/d/README.md", Kind: "file", Src: abs(realDoc), Node: realDoc}}},
			// a DIRECTORY component of the source path is a symbolic link (a linked
			// workspace): the file itself is an ordinary file
			{Type: "config", Src: filepath.Join(root, "linkdir", "inner.conf"), Dst: "/etc/d/inner.conf", Exp: []gen.Expect{{Dst: "/etc/d/inner.conf", Kind: "file", Src: abs(inner), Node: inner}}},
			{Src: filepath.Join(root, "linkdir") + "/*.conf", Dst: "/opt/d/globbed", Exp: []gen.Expect{{Dst: "/opt/d/globbed/inner.conf", Kind: "file", Src: filepath.Join(root, "linkdir", "inner.conf"), Node: inner}}},
			{Type: "license", Src: linkDoc, Dst: "/usr/share/doc/d/LICENSE", Exp: []gen.Expect{{Dst: "/usr/share/doc/d/LICENSE", Kind: "file", Src: abs(realDoc), Node: realDoc}}},
		}},
	}
	// no configured mtime, SOURCE_DATE_EPOCH beyond 2^31 (after 2038): it is the
	// package-wide default mtime, so regular files carry it
	// the same for the start of the epoch itself: 0 is a date like any other
	for _, sde := range []int64{4000000000, 0} {
		prev, had := os.LookupEnv("SOURCE_DATE_EPOCH")
		_ = os.Setenv("SOURCE_DATE_EPOCH", strconv.FormatInt(sde, 10))
		s := &gen.Spec{Name: "directed", Arch: "amd64", Version: "1.0.0", Maintainer: "D <d@example.com>", Description: "d"}
		s.RPM.BuildHost = "verif-host"
		s.Contents = []*gen.Content{file("/opt/sde/extra.txt"), tree("/opt/sde/t")}
		for _, f := range formats {
			run.Case(fmt.Sprintf("directed|source-date-epoch-%d-is-the-default-mtime|%s", sde, f), true)
			res := buildYAML(s.YAML(), f)
			if res.Err != nil || res.Panic != "" {
				run.Violate("C01/"+f+"/build-error/directed", map[string]any{"case": fmt.Sprintf("SOURCE_DATE_EPOCH=%d", sde), "error": fmt.Sprint(res.Err, ev.Short(res.Panic, 300))})
				continue
			}
			pkg := dec.Decode(f, res.Bytes, false)
			for _, e := range pkg.Entries {
				if e.Kind == "file" && strings.HasPrefix(e.Path, "/opt/sde/") && e.MTime != sde {
					run.Violate("C01/"+f+"/file-mtime/source-date-epoch-default", map[string]any{"source_date_epoch": sde, "path": e.Path, "got": e.MTime, "want": sde})
					break
				}
			}
		}
		if had {
			_ = os.Setenv("SOURCE_DATE_EPOCH", prev)
		} else {
			_ = os.Unsetenv("SOURCE_DATE_EPOCH")
		}
	}
	// a symbolic link that opts in with expand: true: the documented substitution covers
	// src (the link's target) and dst alike
	{
		y := "name: directed\narch: amd64\nversion: 1.0.0\nmaintainer: \"D <d@example.com>\"\ndescription: d\nmtime: 2017-07-14T02:40:00Z\nrpm:\n  buildhost: verif-host\ncontents:\n  - src: /opt/${VERIF_C01_T}/target\n    dst: /opt/d/${VERIF_C01_L}\n    type: symlink\n    expand: true\n  - src: /opt/${VERIF_C01_T}/kept\n    dst: /opt/d/not-opted-in\n    type: symlink\n"
		mapping := map[string]string{"VERIF_C01_T": "real", "VERIF_C01_L": "linkname"}
		for _, f := range formats {
			run.Case("directed|symlink-with-expand-true|"+f, true)
			cfg, err := parseYAML(y, func(k string) string { return mapping[k] })
			if err != nil {
				run.Violate("C01/"+f+"/build-error/directed", map[string]any{"case": "symlink with expand: true", "error": err.Error()})
				break
			}
			info, err := infoFor(&cfg, f)
			if err != nil {
				continue
			}
			res := packageInfo(f, info)
			if res.Err != nil || res.Panic != "" {
				run.Violate("C01/"+f+"/build-error/directed", map[string]any{"case": "symlink with expand: true", "error": fmt.Sprint(res.Err, ev.Short(res.Panic, 300))})
				continue
			}
			pkg := dec.Decode(f, res.Bytes, false)
			st.entries += 2
			if e := pkg.Find("/opt/d/linkname"); e == nil || e.Kind != "symlink" || e.Link != "/opt/real/target" {
				run.Violate("C01/"+f+"/link-target/symlink-with-expand-true", map[string]any{"want_entry": "/opt/d/linkname -> /opt/real/target", "found": e != nil, "target": func() string {
					if e != nil {
						return e.Link
					}
					return ""
				}()})
			}
			if e := pkg.Find("/opt/d/not-opted-in"); e == nil || e.Link != "/opt/${VERIF_C01_T}/kept" {
				run.Violate("C01/"+f+"/link-target/symlink-without-expand", map[string]any{"want_target": "/opt/${VERIF_C01_T}/kept", "found": e != nil})
			}
		}
	}
	for ci, dc := range cases {
		for _, umask := range []int64{0, 0o027} {
			s := &gen.Spec{Name: "directed", Arch: "amd64", Version: "1.0.0", Maintainer: "D <d@example.com>", Description: "d", MTime: 1500000000}
			s.Umask = umask
			s.RPM.BuildHost = "verif-host"
			s.Contents = dc.contents
			c := &gen.Case{Index: 900000 + ci, Root: root, Tree: gen.NewTree(), Spec: s, Features: map[string]bool{}}
			for _, f := range formats {
				if o := onlyFormat[dc.name]; o != "" && o != f {
					continue
				}
				run.Case(fmt.Sprintf("directed|%s|umask=%o|%s", dc.name, umask, f), true)
				res := buildYAML(s.YAML(), f)
				if res.Err != nil || res.Panic != "" {
					run.Violate("C01/"+f+"/build-error/directed", map[string]any{"case": dc.name, "error": fmt.Sprint(res.Err, ev.Short(res.Panic, 300))})
					continue
				}
				pkg := dec.Decode(f, res.Bytes, false)
				if len(pkg.Errs) > 0 {
					run.Violate("C01/"+f+"/undecodable", map[string]any{"case": dc.name, "errors": pkg.Errs})
					continue
				}
				comparePayload(run, "C01", c, f, pkg, c.Plan(f), st)
			}
		}
	}
}
