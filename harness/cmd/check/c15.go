package main

import (
	"bytes"
	"fmt"
	"os"
	"path/filepath"
	"strings"
	"sync/atomic"
	"time"

	"github.com/goreleaser/nfpm/v2"

	"verifharness/internal/dec"
	"verifharness/internal/ev"
	"verifharness/internal/gen"
	"verifharness/internal/rng"
)

func init() { register("C15", "exploration", c15) }

var conventionalExt = map[string]string{"deb": ".deb", "rpm": ".rpm", "apk": ".apk", "ipk": ".ipk", "archlinux": ".pkg.tar.zst"}

func stripEpoch(v string) string {
	if i := strings.Index(v, ":"); i >= 0 {
		return v[i+1:]
	}
	return v
}

// nameFromMetadata composes the conventional file name from the metadata
// decoded out of the package (the format's own naming convention).
func nameFromMetadata(f string, p *dec.Package) string {
	g := func(k string) string { v, _ := p.MetaGet(k); return v }
	switch f {
	case "deb", "ipk":
		return g("Package") + "_" + stripEpoch(g("Version")) + "_" + g("Architecture") + conventionalExt[f]
	case "rpm":
		h := p.Rpm.Hdr
		s := func(t int) string { v, _ := h.Str(t); return v }
		return s(dec.RpmTagName) + "-" + s(dec.RpmTagVersion) + "-" + s(dec.RpmTagRelease) + "." + s(dec.RpmTagArch) + ".rpm"
	case "apk":
		return g("pkgname") + "_" + g("pkgver") + "_" + g("arch") + ".apk"
	case "archlinux":
		return g("pkgname") + "-" + stripEpoch(g("pkgver")) + "-" + g("arch") + ".pkg.tar.zst"
	}
	return ""
}

func c15(run *ev.Run, tier string) {
	n := ncases(300, 5000, tier)
	run.Rule = "part 1: generated (name, version, prerelease, metadata, release, epoch, GOARCH or format-specific arch override) x 5 formats: ConventionalFileName(info) must equal the conventional name composed from the metadata DECODED out of Package(info) on the same settings object (format's naming convention; epochs are not part of file names), must end in the conventional extension, and the package built after asking for the name must be byte-identical to one built from fresh settings. part 2: the built nfpm binary with target = file / existing directory / symlink to a directory / empty, with and without -p, extensions .deb/.rpm/.apk/.ipk: the file must appear exactly at the requested path or under the conventional name in the target directory / cwd, and the packager is inferred from the extension only when -p is absent. Also: releases beyond 2^32, hyphens outside the prerelease, verbatim versions starting with 'v', platform other than linux, abi_version; CLI: rebuild over a longer file, version / arch from the process environment, failing builds leave nothing behind, directory targets named like package files. non-trivial = case with a prerelease or a translated architecture; distinct = component shape"
	run.Rule += "; names a format refuses or respells, names and releases with a percent sign, platforms next to architectures that begin with them, format-specific architecture overrides that are GOARCH keys - each packaged with and without asking for the name first and compared with the metadata"
	var names, cli int64
	arches := []string{"amd64", "386", "arm64", "arm5", "arm6", "arm7", "mips64le", "mipsle", "ppc64le", "s390", "all", "mips", "riscv64", "arm"}
	dir := newWorkDir("c15")
	defer removeWorkDir(dir)
	payload := filepath.Join(dir, "p.txt")
	_ = os.WriteFile(payload, []byte("p\n"), 0o644)
	mk := func(r *rng.R) *gen.Spec {
		s := &gen.Spec{Name: rng.Pick(r, []string{"foo", "lib.x+y", "app_1", "a0", "my-pkg", "x-1.2"}), Arch: rng.Pick(r, arches),
			Maintainer: "N <n@example.com>", Description: "d", MTime: 1500000000}
		s.Version = fmt.Sprintf("%d.%d.%d", r.Intn(20), r.Intn(20), r.Intn(20))
		if r.P(1, 2) {
			s.Prerelease = rng.Pick(r, []string{"beta1", "rc.1", "alpha-2", "pre.3-x"})
		}
		if r.P(1, 2) {
			s.VersionMetadata = rng.Pick(r, []string{"git", "build5", "20200101", "p1", "git-abc123", "b-5"})
		}
		if r.P(1, 2) {
			s.Release = rng.Pick(r, []string{"1", "2", "17", "r3", "03", "007", "+2", "1.5", "0", "4294967296", "20240131120000"})
		}
		if r.P(1, 3) {
			s.Epoch = rng.Pick(r, []string{"0", "1", "3"})
		}
		if r.P(1, 5) {
			s.Version = "v" + s.Version // the schema strips the prefix
		}
		if r.P(1, 8) {
			s.Version = fmt.Sprintf("%d.%d.%d+build-%d", r.Intn(20), r.Intn(20), r.Intn(20), r.Intn(9)) // hyphen inside semver build metadata
			s.VersionMetadata = ""
		}
		if r.P(1, 10) {
			s.VersionSchema = "none"
			s.Version = rng.Pick(r, []string{"2024-01-15", "1.2-3", "r12-g1a2b3c", "v2024.10.02", "v4.5.6"})
		}
		if r.P(1, 12) {
			s.Version = rng.Pick(r, []string{"v1.2.3.4", "v2024.10.02.1"}) // not a semver: taken verbatim
			s.Prerelease, s.VersionMetadata = "", ""
		}
		if r.P(1, 6) {
			s.Deb.Arch, s.RPM.Arch, s.APK.Arch, s.IPK.Arch, s.ArchL.Arch = "debarch", "rpmarch", "apkarch", "ipkarch", "archarch"
		}
		if r.P(1, 7) {
			s.MTime = 0 // no package-wide mtime: files carry the on-disk time of their source
		}
		if r.P(1, 8) {
			s.Platform = rng.Pick(r, []string{"darwin", "kfreebsd"}) // apk and archlinux refuse it: those builds are skipped
		}
		if r.P(1, 5) {
			// settings that travel in fields of their own, not in the name
			s.IPK.ABIVersion = rng.Pick(r, []string{"1", "2.0", "17"})
			s.RPM.Group, s.RPM.Summary = "Development/Tools", "summary"
			s.Section, s.Priority = "utils", "optional"
		}
		s.RPM.BuildHost = "verif-host"
		s.Contents = []*gen.Content{{Src: payload, Dst: "/opt/n/p.txt"}}
		return s
	}
	parallel(n, 8, func(i int) {
		r := rng.New(uint64(run.Seed)).Fork(uint64(160000 + i))
		s := mk(r)
		y := s.YAML()
		translated := s.Arch != "riscv64" && s.Arch != "arm" && s.Deb.Arch == ""
		run.Case(fmt.Sprintf("name|%s|pre=%v|meta=%v|rel=%s|ep=%s|arch=%s|ov=%v", s.Name, s.Prerelease != "", s.VersionMetadata != "", s.Release, s.Epoch, s.Arch, s.Deb.Arch != ""), s.Prerelease != "" || translated)
		if i < 2 {
			run.Sample(map[string]any{"case": i, "yaml": ev.Short(y, 600)})
		}
		for _, f := range formats {
			cfg, err := parseYAML(y, nil)
			if err != nil {
				run.Inconclusive(err.Error())
				return
			}
			info, _ := infoFor(&cfg, f)
			p, _ := nfpm.Get(f)
			name := p.ConventionalFileName(info)
			atomic.AddInt64(&names, 1)
			if pe, ok := p.(nfpm.PackagerWithExtension); ok {
				if ext := pe.ConventionalExtension(); ext != conventionalExt[f] || !strings.HasSuffix(name, ext) {
					run.Violate("C15/"+f+"/extension", map[string]any{"case": i, "name": name, "extension": ext})
				}
			} else if !strings.HasSuffix(name, conventionalExt[f]) {
				run.Violate("C15/"+f+"/extension", map[string]any{"case": i, "name": name})
			}
			if strings.ContainsAny(name, "/ ") {
				run.Violate("C15/"+f+"/name-not-a-file-name", map[string]any{"case": i, "name": name})
			}
			// package on the SAME settings object, after the name was asked for
			res := packageInfo(f, info)
			if s.Platform != "" && (res.Err != nil || res.Panic != "") {
				if fr := buildYAML(y, f); fr.Err != nil {
					continue // the format refuses this platform, with or without the name request
				}
			}
			if res.Err != nil || res.Panic != "" {
				run.Violate("C15/"+f+"/build-error-after-name", map[string]any{"case": i, "error": fmt.Sprint(res.Err, ev.Short(res.Panic, 200))})
				continue
			}
			if s.MTime == 0 {
				// the clock enters the package: no byte comparison; asking for the name
				// must still leave the payload file its on-disk time
				if st, err := os.Stat(payload); err == nil {
					pk0 := dec.Decode(f, res.Bytes, false)
					if e := pk0.Find("/opt/n/p.txt"); e != nil && e.MTime != st.ModTime().Unix() && e.MTime != st.ModTime().Round(time.Second).Unix() {
						run.Violate("C15/"+f+"/asking-for-the-name-alters-the-package/file-time", map[string]any{"case": i, "got": e.MTime, "on_disk": st.ModTime().Unix()})
					}
				}
			}
			fresh := buildYAML(y, f)
			if s.MTime != 0 && fresh.Err == nil && !bytes.Equal(fresh.Bytes, res.Bytes) {
				run.Violate("C15/"+f+"/asking-for-the-name-alters-the-package", map[string]any{"case": i, "name": name, "len": len(res.Bytes), "fresh_len": len(fresh.Bytes)})
			}
			pk := dec.Decode(f, res.Bytes, false)
			if len(pk.Errs) > 0 {
				run.Violate("C15/"+f+"/undecodable", map[string]any{"case": i, "errors": pk.Errs})
				continue
			}
			want := nameFromMetadata(f, pk)
			if name != want {
				kind := "file-name-vs-metadata"
				if f == "archlinux" && s.Prerelease != "" && s.Epoch == "" {
					kind += "/prerelease-without-epoch"
				}
				run.Violate("C15/"+f+"/"+kind, map[string]any{"case": i, "file_name": name, "from_metadata": want})
			}
			// a second request on fresh settings gives the same name
			cfg2, _ := parseYAML(y, nil)
			i2, _ := infoFor(&cfg2, f)
			if n2 := p.ConventionalFileName(i2); n2 != name {
				run.Violate("C15/"+f+"/file-name-not-stable", map[string]any{"case": i, "first": name, "second": n2})
			}
		}
	})
	run.Set("file_names_compared_with_decoded_metadata", names)

	if bin := nfpmBin(run); bin != "" {
		// a rebuild to the same target: the file under the requested / conventional
		// name is the new package and nothing else
		cliRebuildSmaller(run, bin, "C15", func(f, how string, atTarget, fresh []byte) {
			atomic.AddInt64(&cli, 3)
			if atTarget == nil || fresh == nil {
				run.Violate("C15/cli/"+f+"/rebuild-target-not-a-single-file", map[string]any{"how": how})
				return
			}
			if !bytes.Equal(atTarget, fresh) {
				run.Violate("C15/cli/"+f+"/file-at-target-is-not-the-package/after-rebuild", map[string]any{"how": how, "file_bytes": len(atTarget), "package_bytes": len(fresh)})
			}
		})
		ncli := ncases(8, 80, tier)
		for i := 0; i < ncli; i++ {
			r := rng.New(uint64(run.Seed)).Fork(uint64(170000 + i))
			s := mk(r)
			s.Name = rng.Pick(r, []string{"foo", "app1", "my-pkg"})
			s.Platform = "" // every format is driven through the tool here
			y := s.YAML()
			wd := filepath.Join(dir, fmt.Sprintf("cli%d", i))
			_ = os.MkdirAll(wd, 0o755)
			cfgp := filepath.Join(wd, "conf.yaml")
			_ = os.WriteFile(cfgp, []byte(y), 0o644)
			conv := map[string]string{}
			for _, f := range formats {
				cfg, _ := parseYAML(y, nil)
				info, _ := infoFor(&cfg, f)
				p, _ := nfpm.Get(f)
				conv[f] = p.ConventionalFileName(info)
			}
			runNfpm := func(cwd string, args ...string) (string, int) {
				so, se, code, err := runCmd(nil, cwd, nil, bin, args...)
				atomic.AddInt64(&cli, 1)
				if err != nil {
					run.Inconclusive("cannot run nfpm: " + err.Error())
				}
				return string(so) + string(se), code
			}
			ls := func(d string) []string {
				es, _ := os.ReadDir(d)
				var out []string
				for _, e := range es {
					out = append(out, e.Name())
				}
				return out
			}
			isFormat := func(path, f string) bool {
				b, err := os.ReadFile(path)
				if err != nil {
					return false
				}
				switch f {
				case "deb":
					return bytes.HasPrefix(b, []byte("!<arch>\ndebian-binary"))
				case "rpm":
					return bytes.HasPrefix(b, []byte{0xed, 0xab, 0xee, 0xdb})
				case "archlinux":
					return dec.Sniff(b) == "zstd"
				case "apk":
					p := dec.Decode("apk", b, false)
					return len(p.Errs) == 0 && p.Pkginfo != nil
				case "ipk":
					p := dec.Decode("ipk", b, false)
					return len(p.Errs) == 0 && p.Outer != nil && len(p.Outer.Entries) == 3
				}
				return false
			}
			for _, f := range formats {
				// (1) explicit file target with -p
				d1 := filepath.Join(wd, "t1-"+f)
				_ = os.MkdirAll(d1, 0o755)
				tgt := filepath.Join(d1, "custom-name.bin")
				out, code := runNfpm(wd, "package", "-f", cfgp, "-p", f, "-t", tgt)
				run.Case(fmt.Sprintf("cli|file|%s|%d", f, i), true)
				if code != 0 || !isFormat(tgt, f) || len(ls(d1)) != 1 {
					run.Violate("C15/cli/"+f+"/explicit-file-target", map[string]any{"exit": code, "output": ev.Short(out, 300), "dir": ls(d1)})
				}
				// (2) existing directory
				d2 := filepath.Join(wd, "t2-"+f)
				_ = os.MkdirAll(d2, 0o755)
				out, code = runNfpm(wd, "package", "-f", cfgp, "-p", f, "-t", d2)
				run.Case(fmt.Sprintf("cli|dir|%s|%d", f, i), true)
				if code != 0 || !isFormat(filepath.Join(d2, conv[f]), f) || len(ls(d2)) != 1 {
					run.Violate("C15/cli/"+f+"/directory-target", map[string]any{"exit": code, "output": ev.Short(out, 300), "dir": ls(d2), "want": conv[f]})
				}
				// (3) symlink to a directory is a directory target
				d3 := filepath.Join(wd, "t3-"+f)
				_ = os.MkdirAll(d3, 0o755)
				l3 := filepath.Join(wd, "link3-"+f)
				_ = os.Symlink(d3, l3)
				out, code = runNfpm(wd, "package", "-f", cfgp, "-p", f, "-t", l3)
				run.Case(fmt.Sprintf("cli|symlinked-dir|%s|%d", f, i), true)
				if fi, err := os.Lstat(l3); code != 0 || !isFormat(filepath.Join(d3, conv[f]), f) || err != nil || fi.Mode()&os.ModeSymlink == 0 {
					run.Violate("C15/cli/"+f+"/symlinked-directory-target", map[string]any{"exit": code, "output": ev.Short(out, 300), "dir": ls(d3), "want": conv[f]})
				}
				// (4) no target: conventional name in the current directory
				d4 := filepath.Join(wd, "t4-"+f)
				_ = os.MkdirAll(d4, 0o755)
				out, code = runNfpm(d4, "package", "-f", cfgp, "-p", f)
				run.Case(fmt.Sprintf("cli|blank|%s|%d", f, i), true)
				if code != 0 || !isFormat(filepath.Join(d4, conv[f]), f) || len(ls(d4)) != 1 {
					run.Violate("C15/cli/"+f+"/blank-target", map[string]any{"exit": code, "output": ev.Short(out, 300), "dir": ls(d4), "want": conv[f]})
				}
				// (5) directory or blank target without -p cannot work
				out, code = runNfpm(d4, "package", "-f", cfgp, "-t", d2)
				if code == 0 {
					run.Violate("C15/cli/directory-target-without-packager-accepted", map[string]any{"output": ev.Short(out, 200)})
				}
			}
			// (6) inference from the extension, only without -p
			for _, f := range []string{"deb", "rpm", "apk", "ipk"} {
				d6 := filepath.Join(wd, "t6-"+f)
				_ = os.MkdirAll(d6, 0o755)
				tgt := filepath.Join(d6, "inferred."+f)
				out, code := runNfpm(wd, "package", "-f", cfgp, "-t", tgt)
				run.Case(fmt.Sprintf("cli|infer|%s|%d", f, i), true)
				if code != 0 || !isFormat(tgt, f) {
					run.Violate("C15/cli/"+f+"/packager-not-inferred-from-extension", map[string]any{"exit": code, "output": ev.Short(out, 300)})
				}
				other := map[string]string{"deb": "rpm", "rpm": "deb", "apk": "ipk", "ipk": "apk"}[f]
				tgt2 := filepath.Join(d6, "explicit."+f)
				out, code = runNfpm(wd, "package", "-f", cfgp, "-p", other, "-t", tgt2)
				run.Case(fmt.Sprintf("cli|no-infer|%s|%d", f, i), true)
				if code != 0 || !isFormat(tgt2, other) {
					run.Violate("C15/cli/"+f+"/extension-overrides-explicit-packager", map[string]any{"exit": code, "output": ev.Short(out, 300), "given_packager": other})
				}
			}
		}
	}
	// (10) a packager that does not exist is an error, whatever the target's extension says
	if bin := nfpmBin(run); bin != "" {
		wd := filepath.Join(dir, "cli-unknown-packager")
		_ = os.MkdirAll(wd, 0o755)
		doc := "name: unknownp\narch: amd64\nversion: 1.0.0\nmaintainer: \"N <n@example.com>\"\ndescription: d\ncontents:\n  - src: " + payload + "\n    dst: /opt/n/a.txt\n"
		cfgp := filepath.Join(wd, "conf.yaml")
		_ = os.WriteFile(cfgp, []byte(doc), 0o644)
		for _, pk := range []string{"debian", "rpmm", ".rpm", "tar", "DEB "} {
			for _, ext := range []string{"deb", "rpm", "apk"} {
				tgt := filepath.Join(wd, fmt.Sprintf("out-%d.%s", len(pk), ext))
				_ = os.Remove(tgt)
				_, _, code, err := runCmd(nil, wd, nil, bin, "package", "-f", cfgp, "-p", pk, "-t", tgt)
				atomic.AddInt64(&cli, 1)
				run.Case("cli|unknown-packager|"+pk+"|"+ext, true)
				_, serr := os.Stat(tgt)
				if err == nil && code == 0 && serr == nil {
					run.Violate("C15/cli/unknown-packager-replaced-by-extension-guess", map[string]any{"packager": pk, "target_extension": ext})
				}
			}
		}
	}
	// (9) an existing directory is a directory target whatever its name looks like
	if bin := nfpmBin(run); bin != "" {
		wd := filepath.Join(dir, "cli-dirnames")
		_ = os.MkdirAll(wd, 0o755)
		doc := "name: dirnamed\narch: amd64\nversion: 1.0.0\nmaintainer: \"N <n@example.com>\"\ndescription: d\ncontents:\n  - src: " + payload + "\n    dst: /opt/n/a.txt\n"
		cfgp := filepath.Join(wd, "conf.yaml")
		_ = os.WriteFile(cfgp, []byte(doc), 0o644)
		for _, f := range []string{"deb", "rpm", "apk", "ipk"} {
			for _, dn := range []string{"pool." + f, "repo." + map[string]string{"deb": "rpm", "rpm": "deb", "apk": "ipk", "ipk": "apk"}[f]} {
				d := filepath.Join(wd, f, dn)
				_ = os.MkdirAll(d, 0o755)
				so, se, code, err := runCmd(nil, wd, nil, bin, "package", "-f", cfgp, "-p", f, "-t", d)
				atomic.AddInt64(&cli, 1)
				run.Case("cli|directory-named-like-a-package|"+f+"|"+dn, true)
				es, _ := os.ReadDir(d)
				fi, serr := os.Stat(d)
				if err != nil || code != 0 || serr != nil || !fi.IsDir() || len(es) != 1 || !strings.HasSuffix(es[0].Name(), conventionalExt[f]) {
					run.Violate("C15/cli/"+f+"/directory-target/named-like-a-package-file", map[string]any{"directory": dn, "exit": code, "output": ev.Short(string(so)+string(se), 300), "files_inside": len(es)})
				}
			}
		}
	}
	// (8) a build that fails leaves no file behind - not at an explicit target,
	// not under the conventional name in a target directory or the current one
	if bin := nfpmBin(run); bin != "" {
		wd := filepath.Join(dir, "cli-fail")
		_ = os.MkdirAll(wd, 0o755)
		// the second entry is read after the first was already written
		doc := "name: failing\narch: amd64\nversion: 1.0.0\nmaintainer: \"N <n@example.com>\"\ndescription: d\ncontents:\n  - src: " + payload + "\n    dst: /opt/n/a.txt\n  - src: " + payload + "\n    dst: /opt/n/b.txt\n    type: config\nscripts:\n  postinstall: " + filepath.Join(wd, "missing-script.sh") + "\n"
		cfgp := filepath.Join(wd, "conf.yaml")
		_ = os.WriteFile(cfgp, []byte(doc), 0o644)
		for _, f := range formats {
			for _, how := range []string{"file-target", "directory-target", "blank-target"} {
				d := filepath.Join(wd, f+"-"+how)
				_ = os.MkdirAll(d, 0o755)
				args := []string{"package", "-f", cfgp, "-p", f}
				switch how {
				case "file-target":
					args = append(args, "-t", filepath.Join(d, "out.pkg"))
				case "directory-target":
					args = append(args, "-t", d)
				}
				_, _, code, err := runCmd(nil, d, nil, bin, args...)
				atomic.AddInt64(&cli, 1)
				run.Case("cli|failing-build|"+f+"|"+how, true)
				es, _ := os.ReadDir(d)
				if err == nil && code != 0 && len(es) > 0 {
					run.Violate("C15/cli/"+f+"/file-left-behind-by-a-failed-build/"+how, map[string]any{"exit": code, "files": es[0].Name()})
				}
			}
		}
	}
	// (7) the tool names the file itself while version and architecture reach the
	// configuration through the environment: name and metadata still agree
	if bin := nfpmBin(run); bin != "" {
		wd := filepath.Join(dir, "cli-env")
		_ = os.MkdirAll(wd, 0o755)
		cfgp := filepath.Join(wd, "conf.yaml")
		doc := "name: envnamed\narch: ${VERIF_ARCH}\nversion: ${VERIF_VERSION}\nmaintainer: \"N <n@example.com>\"\ndescription: d\nmtime: 2017-07-14T02:40:00Z\nrpm:\n  buildhost: verif-host\ncontents:\n  - src: " + payload + "\n    dst: /opt/n/p.txt\n"
		_ = os.WriteFile(cfgp, []byte(doc), 0o644)
		for vi, ver := range []string{"v1.4.0-rc.2", "2.0.1+git.5", "v3.1.0-beta.1+exp.sha", "0.9"} {
			for _, arch := range []string{"arm64", "mipsle"} {
				env := append(os.Environ(), "VERIF_VERSION="+ver, "VERIF_ARCH="+arch)
				for _, f := range formats {
					if f == "archlinux" && strings.Contains(ver, "-") {
						continue // the known archlinux prerelease finding is reported by part 1
					}
					for _, how := range []string{"directory-target", "blank-target"} {
						d := filepath.Join(wd, fmt.Sprintf("%d-%s-%s-%s", vi, arch, f, how))
						_ = os.MkdirAll(d, 0o755)
						args := []string{"package", "-f", cfgp, "-p", f}
						if how == "directory-target" {
							args = append(args, "-t", d)
						}
						so, se, code, err := runCmd(nil, d, env, bin, args...)
						atomic.AddInt64(&cli, 1)
						run.Case(fmt.Sprintf("cli|version-from-environment|%s|%s|%s|%s", ver, arch, f, how), true)
						es, _ := os.ReadDir(d)
						if err != nil || code != 0 || len(es) != 1 {
							run.Violate("C15/cli/"+f+"/"+how, map[string]any{"version_from_environment": ver, "exit": code, "output": ev.Short(string(so)+string(se), 300), "files": len(es)})
							continue
						}
						raw, _ := os.ReadFile(filepath.Join(d, es[0].Name()))
						pk := dec.Decode(f, raw, false)
						if len(pk.Errs) > 0 {
							run.Violate("C15/"+f+"/undecodable", map[string]any{"version_from_environment": ver, "errors": pk.Errs})
							continue
						}
						if want := nameFromMetadata(f, pk); es[0].Name() != want {
							run.Violate("C15/cli/"+f+"/file-name-vs-metadata/version-from-environment", map[string]any{"version": ver, "arch": arch, "how": how, "file_name": es[0].Name(), "from_metadata": want})
						}
					}
				}
			}
		}
	}
	// names a format does not accept, or accepts only in another spelling: asking for the
	// file name first leaves the outcome of packaging as it is without asking
	{
		ndir := newWorkDir("c15-names")
		src := filepath.Join(ndir, "p.txt")
		_ = os.WriteFile(src, []byte("p\n"), 0o644)
		type unusual struct {
			name, release, platform, arch, debArch, allArch string
		}
		var specs []unusual
		for _, name := range []string{"my pkg", "-lead", ".dot", "pkg\u00e9", "UPPER_case", "a/b", "plus+plus", "at@sign", "100%free", "pct%s%d"} {
			specs = append(specs, unusual{name: name, arch: "amd64"})
		}
		specs = append(specs, unusual{name: "pctrel", release: "1%d%s", arch: "amd64"}, unusual{name: "pctrel2", release: "2%", arch: "amd64"},
			// a platform next to an architecture that already begins with it
			unusual{name: "plat", platform: "kfreebsd", arch: "amd64", debArch: "kfreebsd-amd64"}, unusual{name: "plat2", platform: "hurd", arch: "hurd-i386"},
			unusual{name: "plat3", platform: "darwin", arch: "darwin-arm64", debArch: "darwin-arm64"})
		// a format-specific architecture that happens to be a key of the GOARCH table
		for _, a := range []string{"arm7", "arm6", "386", "arm64", "s390", "all"} {
			specs = append(specs, unusual{name: "ovarch", arch: "amd64", allArch: a})
		}
		for _, u := range specs {
			name := u.name
			s := &gen.Spec{Name: name, Arch: u.arch, Version: "1.0.0", Release: u.release, Platform: u.platform, Maintainer: "N <n@example.com>", Description: "d", MTime: 1500000000}
			s.Deb.Arch = u.debArch
			if u.allArch != "" {
				s.Deb.Arch, s.RPM.Arch, s.APK.Arch, s.IPK.Arch, s.ArchL.Arch = u.allArch, u.allArch, u.allArch, u.allArch, u.allArch
			}
			s.RPM.BuildHost = "verif-host"
			s.Contents = []*gen.Content{{Src: src, Dst: "/opt/names/p.txt"}}
			y := s.YAML()
			for _, f := range formats {
				run.Case("name-asked-before-packaging-unusual-name|"+name+"|"+f, true)
				var outs [2]buildResult
				fileName := ""
				for k := 0; k < 2; k++ {
					cfg, err := parseYAML(y, nil)
					if err != nil {
						outs[k].Err = err
						continue
					}
					info, err := infoFor(&cfg, f)
					if err != nil {
						outs[k].Err = err
						continue
					}
					if k == 1 {
						if pk, err := nfpm.Get(f); err == nil {
							fileName = pk.ConventionalFileName(info)
						}
					}
					outs[k] = packageInfo(f, info)
				}
				if outs[1].Err == nil && outs[1].Panic == "" {
					if pk := dec.Decode(f, outs[1].Bytes, false); len(pk.Errs) == 0 {
						if want := nameFromMetadata(f, pk); fileName != want {
							run.Violate("C15/"+f+"/file-name-vs-metadata/unusual-name", map[string]any{"name": name, "release": u.release, "platform": u.platform, "arch": u.arch, "deb_arch": u.debArch, "format_specific_arch": u.allArch, "file_name": fileName, "from_metadata": want})
						}
					}
				}
				failed := func(r buildResult) bool { return r.Err != nil || r.Panic != "" }
				if failed(outs[0]) != failed(outs[1]) || (!failed(outs[0]) && !bytes.Equal(outs[0].Bytes, outs[1].Bytes)) {
					run.Violate("C15/"+f+"/asking-for-the-file-name-alters-the-package/unusual-name", map[string]any{"name": name, "packaging_alone": fmt.Sprint(outs[0].Err), "after_asking_for_the_name": fmt.Sprint(outs[1].Err), "len_alone": len(outs[0].Bytes), "len_after": len(outs[1].Bytes)})
				}
			}
		}
		removeWorkDir(ndir)
	}
	run.Set("cli_runs", cli)
	run.Assume("file names do not carry the epoch in any of the five naming conventions; the expected name is composed from the decoded metadata with the epoch stripped")
}
