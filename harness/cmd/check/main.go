// Command check runs one property check: `check <Cnn> --tier quick|thorough`.
// Exit status: 0 held on everything explored, 1 violation (with a
// "VIOLATION property=<id> replay=<path>" line), 2 inconclusive / broken run.
package main

import (
	"flag"
	"fmt"
	"os"
	"runtime/debug"
	"sort"

	"verifharness/internal/ev"
)

type checkFn func(run *ev.Run, tier string)

type checkDef struct {
	level string
	fn    checkFn
}

var checks = map[string]checkDef{}

func register(id, level string, fn checkFn) { checks[id] = checkDef{level, fn} }

var (
	flagTier   = flag.String("tier", "", "quick or thorough (default $VERIF_TIER or quick)")
	flagReplay = flag.String("replay", "", "replay file written by an earlier violation")
	flagNfpm   = flag.String("nfpm", "", "path of the nfpm binary built from the repository under test")
	flagRepo   = flag.String("repo", "/repo", "repository under test (for documentation and published files)")
	flagCases  = flag.Int("cases", 0, "override the number of generated cases (debugging)")
	flagOnly   = flag.Int("only", -1, "run only this case index (debugging / replay)")
)

func main() {
	if len(os.Args) >= 2 && os.Args[1] == "worker" {
		workerMain(os.Args[2:])
		return
	}
	if len(os.Args) < 2 {
		fmt.Fprintln(os.Stderr, "usage: check <Cnn> [--tier quick|thorough] [--replay file]")
		os.Exit(2)
	}
	id := os.Args[1]
	_ = flag.CommandLine.Parse(os.Args[2:])
	tier := *flagTier
	if tier == "" {
		tier = os.Getenv("VERIF_TIER")
	}
	if tier != "thorough" {
		tier = "quick"
	}
	def, ok := checks[id]
	if !ok {
		var ids []string
		for k := range checks {
			ids = append(ids, k)
		}
		sort.Strings(ids)
		fmt.Fprintf(os.Stderr, "unknown property %q (have %v)\n", id, ids)
		os.Exit(2)
	}
	if *flagReplay != "" {
		applyReplay(*flagReplay)
	}
	run := ev.NewRun(id, tier, def.level)
	func() {
		defer func() {
			if r := recover(); r != nil {
				run.Inconclusive(fmt.Sprintf("harness panic: %v\n%s", r, debug.Stack()))
			}
		}()
		def.fn(run, tier)
	}()
	cleanupAll()
	os.Exit(run.Finish())
}
