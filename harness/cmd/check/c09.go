package main

import (
	"bytes"
	"fmt"
	"os"
	"path/filepath"
	"strings"
	"sync/atomic"

	"verifharness/internal/dec"
	"verifharness/internal/ev"
	"verifharness/internal/gen"
	"verifharness/internal/rng"
)

func init() { register("C09", "exploration", c09) }

// slotDef wires a configuration key to the slot of one package format.
type slotDef struct {
	cfg  string                         // configuration key (for reports)
	slot string                         // name of the slot in the package format
	set  func(s *gen.Spec, path string) // writes the script path into the spec
	mode int64                          // expected member mode (tar based formats)
}

var slotTable = map[string][]slotDef{
	"deb": {
		{"scripts.preinstall", "preinst", func(s *gen.Spec, p string) { s.Scripts.PreInstall = p }, 0o755},
		{"scripts.postinstall", "postinst", func(s *gen.Spec, p string) { s.Scripts.PostInstall = p }, 0o755},
		{"scripts.preremove", "prerm", func(s *gen.Spec, p string) { s.Scripts.PreRemove = p }, 0o755},
		{"scripts.postremove", "postrm", func(s *gen.Spec, p string) { s.Scripts.PostRemove = p }, 0o755},
		{"deb.scripts.rules", "rules", func(s *gen.Spec, p string) { s.Deb.Rules = p }, 0},
		{"deb.scripts.templates", "templates", func(s *gen.Spec, p string) { s.Deb.Templates = p }, 0},
		{"deb.scripts.config", "config", func(s *gen.Spec, p string) { s.Deb.Config = p }, 0},
	},
	"ipk": {
		{"scripts.preinstall", "preinst", func(s *gen.Spec, p string) { s.Scripts.PreInstall = p }, 0o755},
		{"scripts.postinstall", "postinst", func(s *gen.Spec, p string) { s.Scripts.PostInstall = p }, 0o755},
		{"scripts.preremove", "prerm", func(s *gen.Spec, p string) { s.Scripts.PreRemove = p }, 0o755},
		{"scripts.postremove", "postrm", func(s *gen.Spec, p string) { s.Scripts.PostRemove = p }, 0o755},
	},
	"rpm": {
		{"scripts.preinstall", "prein", func(s *gen.Spec, p string) { s.Scripts.PreInstall = p }, 0},
		{"scripts.postinstall", "postin", func(s *gen.Spec, p string) { s.Scripts.PostInstall = p }, 0},
		{"scripts.preremove", "preun", func(s *gen.Spec, p string) { s.Scripts.PreRemove = p }, 0},
		{"scripts.postremove", "postun", func(s *gen.Spec, p string) { s.Scripts.PostRemove = p }, 0},
		{"rpm.scripts.pretrans", "pretrans", func(s *gen.Spec, p string) { s.RPM.PreTrans = p }, 0},
		{"rpm.scripts.posttrans", "posttrans", func(s *gen.Spec, p string) { s.RPM.PostTrans = p }, 0},
		{"rpm.scripts.verify", "verifyscript", func(s *gen.Spec, p string) { s.RPM.Verify = p }, 0},
	},
	"apk": {
		{"scripts.preinstall", ".pre-install", func(s *gen.Spec, p string) { s.Scripts.PreInstall = p }, 0o755},
		{"scripts.postinstall", ".post-install", func(s *gen.Spec, p string) { s.Scripts.PostInstall = p }, 0o755},
		{"scripts.preremove", ".pre-deinstall", func(s *gen.Spec, p string) { s.Scripts.PreRemove = p }, 0o755},
		{"scripts.postremove", ".post-deinstall", func(s *gen.Spec, p string) { s.Scripts.PostRemove = p }, 0o755},
		{"apk.scripts.preupgrade", ".pre-upgrade", func(s *gen.Spec, p string) { s.APK.PreUpgrade = p }, 0o755},
		{"apk.scripts.postupgrade", ".post-upgrade", func(s *gen.Spec, p string) { s.APK.PostUpgrade = p }, 0o755},
	},
	"archlinux": {
		{"scripts.preinstall", "pre_install", func(s *gen.Spec, p string) { s.Scripts.PreInstall = p }, 0},
		{"scripts.postinstall", "post_install", func(s *gen.Spec, p string) { s.Scripts.PostInstall = p }, 0},
		{"scripts.preremove", "pre_remove", func(s *gen.Spec, p string) { s.Scripts.PreRemove = p }, 0},
		{"scripts.postremove", "post_remove", func(s *gen.Spec, p string) { s.Scripts.PostRemove = p }, 0},
		{"archlinux.scripts.preupgrade", "pre_upgrade", func(s *gen.Spec, p string) { s.ArchL.PreUpgrade = p }, 0},
		{"archlinux.scripts.postupgrade", "post_upgrade", func(s *gen.Spec, p string) { s.ArchL.PostUpgrade = p }, 0},
	},
}

// scriptBody returns the bytes of variant v for a slot; every body carries a
// token that names the slot it was written for.
func scriptBody(r *rng.R, token string, v int, forRPM bool) []byte {
	head := "#!/bin/sh\n# " + token + "\n"
	var b []byte
	switch v % 8 {
	case 0:
		b = []byte(head + "echo hello\nexit 0\n")
	case 1: // CRLF line endings, no trailing newline
		b = []byte(strings.ReplaceAll(head+"echo crlf\nexit 0", "\n", "\r\n"))
	case 2: // binary bytes
		b = append([]byte(head), r.Bytes(r.Range(50, 400))...)
	case 3: // a leading byte order mark; no trailing newline, trailing spaces and tabs
		b = []byte("\xef\xbb\xbf" + head + "echo end \t ")
	case 4: // shell text that looks like the archlinux wrapper
		b = []byte(head + "}\n\nfunction not_a_slot() {\n  :\n}\n")
	case 5: // leading and trailing blank lines
		b = []byte("\n\n" + head + "\n\n\n")
	case 6: // empty script
		b = []byte{}
	case 7: // large
		b = append([]byte(head), bytes.Repeat([]byte("# padding line 0123456789abcdef\n"), 1<<15)...)
	}
	if forRPM {
		// an rpm header string cannot carry NUL
		b = bytes.ReplaceAll(b, []byte{0}, []byte{'0'})
	}
	return b
}

func c09(run *ev.Run, tier string) {
	variants := []int{0, 1, 2}
	if tier == "thorough" {
		variants = []int{0, 1, 2, 3, 4, 5, 6, 7}
	}
	run.Rule = "exhaustive over every subset of the configurable script slots of every format (deb 2^7, rpm 2^7, apk 2^6, archlinux 2^6, ipk 2^4 = 400 subsets) x body variants (text, CRLF/no trailing newline, binary, leading UTF-8 BOM with trailing blanks; thorough adds trailing blanks, wrapper look-alike, blank lines, empty, 1 MiB); script files carry varying on-disk permissions; each slot's body holds a unique token. Slots decoded from control members / rpm scriptlet tags / .INSTALL are compared byte-for-byte with the files the harness wrote. History scenarios (script rewritten in place, failed builds at every position, override merging); scripts read from files reporting size 0 (procfs); script paths containing '$name'. non-trivial = subsets with >=2 configured slots; distinct = (format, subset, variant)"
	run.Rule += "; the nfpm binary with the packager guessed from the target extension over per-format script overrides"
	run.SetExhaustive(true)
	dir := newWorkDir("c09")
	defer removeWorkDir(dir)
	payload := filepath.Join(dir, "payload.txt")
	_ = os.WriteFile(payload, []byte("payload\n"), 0o644)
	var slotsCompared, bytesCompared int64
	perms := []os.FileMode{0o644, 0o755, 0o700, 0o775, 0o600, 0o555}
	type job struct {
		f    string
		mask int
		v    int
	}
	var jobs []job
	for _, f := range formats {
		for mask := 0; mask < 1<<len(slotTable[f]); mask++ {
			for _, v := range variants {
				jobs = append(jobs, job{f, mask, v})
			}
		}
	}
	parallel(len(jobs), 8, func(ji int) {
		j := jobs[ji]
		f, defs := j.f, slotTable[j.f]
		r := rng.New(uint64(run.Seed)).Fork(uint64(ji))
		s := &gen.Spec{Name: "scr", Arch: "amd64", Version: "1.0.0", Maintainer: "S <s@example.com>", Description: "scripts", MTime: 1400000000}
		s.Umask = []int64{0, 0o022, 0o027, 0o077}[ji%4] // the umask is for payload files, not for maintainer scripts
		shared := j.v == 1 && j.mask%3 == 0             // every configured slot points at the same script file
		s.RPM.BuildHost = "verif-host"
		s.Contents = []*gen.Content{{Src: payload, Dst: "/opt/scr/payload.txt"}}
		bodies := map[string][]byte{}
		n := 0
		for k, d := range defs {
			if j.mask&(1<<k) == 0 {
				continue
			}
			n++
			tok := fmt.Sprintf("TOKEN-%s-%s-%d", f, d.slot, ji)
			body := scriptBody(r, tok, j.v+k, f == "rpm")
			p := filepath.Join(dir, fmt.Sprintf("j%d-%s.sh", ji, strings.TrimPrefix(d.slot, ".")))
			if shared {
				body = scriptBody(r, fmt.Sprintf("TOKEN-%s-shared-%d", f, ji), j.v, f == "rpm")
				p = filepath.Join(dir, fmt.Sprintf("j%d-shared.sh", ji))
			}
			if err := os.WriteFile(p, body, 0o600); err != nil {
				run.Inconclusive(err.Error())
				return
			}
			_ = os.Chmod(p, perms[(ji+k)%len(perms)])
			if j.v == 2 && j.mask%5 == 0 && !shared {
				// the configured path is a symlink to the script
				lp := p + ".lnk"
				_ = os.Remove(lp)
				if os.Symlink(p, lp) == nil {
					p = lp
				}
			}
			d.set(s, p)
			bodies[d.slot] = body
		}
		run.Case(fmt.Sprintf("%s|%0*b|v%d", f, len(defs), j.mask, j.v), n >= 2)
		if ji%997 == 0 {
			run.Sample(map[string]any{"format": f, "subset_mask": fmt.Sprintf("%0*b", len(defs), j.mask), "variant": j.v, "yaml": ev.Short(s.YAML(), 900)})
		}
		res := buildYAML(s.YAML(), f)
		if res.Err != nil || res.Panic != "" {
			run.Violate("C09/"+f+"/build-error", map[string]any{"mask": j.mask, "variant": j.v, "error": fmt.Sprint(res.Err, ev.Short(res.Panic, 300))})
			return
		}
		p := dec.Decode(f, res.Bytes, false)
		if len(p.Errs) > 0 {
			run.Violate("C09/"+f+"/undecodable", map[string]any{"mask": j.mask, "errors": p.Errs})
			return
		}
		viol := func(kind string, d map[string]any) {
			d["subset_mask"] = fmt.Sprintf("%0*b", len(defs), j.mask)
			d["variant"] = j.v
			run.Violate("C09/"+f+"/"+kind, d)
		}
		if f == "archlinux" {
			inst := p.Install
			for _, d := range defs {
				hdr := []byte("function " + d.slot + "() {\n")
				body, cfg := bodies[d.slot]
				idx := indexAtLineStart(inst, hdr)
				atomic.AddInt64(&slotsCompared, 1)
				switch {
				case cfg && idx < 0:
					viol("slot-missing", map[string]any{"slot": d.slot, "config": d.cfg})
				case cfg:
					rest := inst[idx+len(hdr):]
					atomic.AddInt64(&bytesCompared, int64(len(body)))
					if !bytes.HasPrefix(rest, body) || !bytes.HasPrefix(rest[len(body):], []byte("\n}\n")) {
						viol("slot-content", map[string]any{"slot": d.slot, "config": d.cfg, "got": ev.Short(string(rest), 200), "want": ev.Short(string(body), 200)})
					}
				case !cfg && idx >= 0 && !(j.v+0 >= 0 && bytes.Contains(allBodies(bodies), hdr)):
					viol("slot-populated-without-config", map[string]any{"slot": d.slot})
				}
			}
			if len(bodies) == 0 && inst != nil {
				viol("install-without-scripts", map[string]any{})
			}
			return
		}
		for _, d := range defs {
			got, present := p.Scripts[d.slot]
			body, cfg := bodies[d.slot]
			atomic.AddInt64(&slotsCompared, 1)
			switch {
			case cfg && !present:
				if f == "rpm" && len(body) == 0 {
					continue // an empty and an absent scriptlet are indistinguishable to rpm
				}
				viol("slot-missing", map[string]any{"slot": d.slot, "config": d.cfg})
			case cfg:
				atomic.AddInt64(&bytesCompared, int64(len(body)))
				if !bytes.Equal(got, body) {
					wrong := ""
					for _, o := range defs {
						if o.slot != d.slot && bytes.Contains(got, []byte(fmt.Sprintf("TOKEN-%s-%s-%d", f, o.slot, ji))) {
							wrong = o.slot
						}
					}
					viol("slot-content", map[string]any{"slot": d.slot, "config": d.cfg, "holds_script_of": wrong, "got_len": len(got), "want_len": len(body), "got": ev.Short(string(got), 120), "want": ev.Short(string(body), 120)})
				}
				if d.mode != 0 && p.ScriptM[d.slot] != d.mode {
					viol("slot-mode", map[string]any{"slot": d.slot, "got": oct(p.ScriptM[d.slot]), "want": oct(d.mode)})
				}
			case !cfg && present:
				viol("slot-populated-without-config", map[string]any{"slot": d.slot, "content": ev.Short(string(got), 120)})
			}
		}
	})
	c09History(run, dir, payload, &slotsCompared)
	c09VirtualFiles(run, payload, &slotsCompared)
	c09DollarPaths(run, dir, payload, &slotsCompared)
	run.Set("slots_compared", slotsCompared)
	run.Set("script_bytes_compared", bytesCompared)
	run.Set("subsets_per_format", map[string]int{"deb": 128, "rpm": 128, "apk": 64, "archlinux": 64, "ipk": 16})
	run.Assume("rpm header strings cannot carry NUL bytes, so rpm bodies are NUL-free; an empty rpm scriptlet may be absent")

	// the command line tool with the packager guessed from the target's extension
	// ships the scripts the format's override block configures
	if bin := nfpmBin(run); bin != "" {
		cliGuessedPackager(run, bin, "C09", func(f string, named, guessed []byte) {
			p := dec.Decode(f, guessed, false)
			for k, want := range map[int]string{1: "echo post " + f, 2: "echo prerm " + f} {
				sd := slotTable[f][k]
				b, ok := slotBytes(f, p, sd.slot)
				if len(p.Errs) > 0 || !ok || !bytes.Contains(b, []byte(want)) {
					run.Violate("C09/cli/"+f+"/slot-missing-or-different/packager-guessed-from-target-extension", map[string]any{"slot": sd.slot, "configured": "overrides." + f + "." + sd.cfg, "present": ok, "bytes": ev.Short(string(b), 120)})
				}
			}
			if !bytes.Equal(named, guessed) {
				run.Violate("C09/cli/"+f+"/package-differs/packager-guessed-from-target-extension", map[string]any{"len_named": len(named), "len_guessed": len(guessed)})
			}
		})
	}
}

func allBodies(m map[string][]byte) []byte {
	var b []byte
	for _, v := range m {
		b = append(b, v...)
		b = append(b, '\n')
	}
	return b
}

// indexAtLineStart finds needle at the beginning of a line of hay.
func indexAtLineStart(hay, needle []byte) int {
	off := 0
	for {
		i := bytes.Index(hay[off:], needle)
		if i < 0 {
			return -1
		}
		if off+i == 0 || hay[off+i-1] == '\n' {
			return off + i
		}
		off += i + 1
	}
}

// slotBytes returns what a decoded package holds in a slot ("" + false when absent).
func slotBytes(f string, p *dec.Package, slot string) ([]byte, bool) {
	if f == "archlinux" {
		hdr := []byte("function " + slot + "() {\n")
		idx := indexAtLineStart(p.Install, hdr)
		if idx < 0 {
			return nil, false
		}
		rest := p.Install[idx+len(hdr):]
		end := bytes.Index(rest, []byte("\n}\n"))
		if end < 0 {
			return rest, true
		}
		return rest[:end], true
	}
	b, ok := p.Scripts[slot]
	return b, ok
}

// c09History: sequences of builds in one process.
func c09History(run *ev.Run, dir, payload string, compared *int64) {
	mk := func() *gen.Spec {
		s := &gen.Spec{Name: "scrh", Arch: "amd64", Version: "1.0.0", Maintainer: "S <s@example.com>", Description: "scripts", MTime: 1400000000}
		s.RPM.BuildHost = "verif-host"
		s.Contents = []*gen.Content{{Src: payload, Dst: "/opt/scrh/payload.txt"}}
		return s
	}
	for _, f := range formats {
		defs := slotTable[f]
		// (1) a script is rewritten in place with the same size and the same mtime
		paths := map[string]string{}
		s := mk()
		for k, d := range defs {
			p := filepath.Join(dir, fmt.Sprintf("hist-%s-%d.sh", f, k))
			_ = os.WriteFile(p, []byte(fmt.Sprintf("#!/bin/sh\n# FIRST-%s-%s\nexit 0\n", f, d.slot)), 0o755)
			paths[d.slot] = p
			d.set(s, p)
		}
		y := s.YAML()
		first := buildYAML(y, f)
		if first.Err != nil {
			run.Violate("C09/"+f+"/build-error", map[string]any{"history": "first build", "error": first.Err.Error()})
			continue
		}
		for _, d := range defs {
			p := paths[d.slot]
			st, _ := os.Stat(p)
			_ = os.WriteFile(p, []byte(fmt.Sprintf("#!/bin/sh\n# LATER-%s-%s\nexit 0\n", f, d.slot)), 0o755)
			if st != nil {
				_ = os.Chtimes(p, st.ModTime(), st.ModTime())
			}
		}
		second := buildYAML(y, f)
		run.Case("history|rewritten-same-size-and-mtime|"+f, true)
		if second.Err != nil {
			run.Violate("C09/"+f+"/build-error", map[string]any{"history": "second build", "error": second.Err.Error()})
		} else {
			p := dec.Decode(f, second.Bytes, false)
			for _, d := range defs {
				atomic.AddInt64(compared, 1)
				got, ok := slotBytes(f, p, d.slot)
				want := fmt.Sprintf("#!/bin/sh\n# LATER-%s-%s\nexit 0\n", f, d.slot)
				if !ok || string(got) != want {
					run.Violate("C09/"+f+"/slot-content/stale-after-script-changed-on-disk", map[string]any{"slot": d.slot, "got": ev.Short(string(got), 120), "want": want})
				}
			}
		}
		// (2) a failed build (one script missing) must leave nothing behind for the next one
		// (every position of the missing script in turn, several rounds: what a
		// failed build leaves in a recycled buffer depends on how far it got, and
		// whether the next build meets that buffer on where the scheduler puts it)
		run.Case("history|after-failed-build|"+f, true)
		for round := 0; round < 3*len(defs); round++ {
			missing := (len(defs) - 1 + round) % len(defs)
			bad := mk()
			for k, d := range defs {
				if k == missing {
					d.set(bad, filepath.Join(dir, "does-not-exist.sh"))
				} else {
					d.set(bad, paths[d.slot])
				}
			}
			if r := buildYAML(bad.YAML(), f); r.Err == nil {
				run.Violate("C09/"+f+"/missing-script-accepted", map[string]any{"missing": defs[missing].slot})
			}
			keep := (missing + 1) % len(defs)
			good := mk()
			defs[keep].set(good, paths[defs[keep].slot])
			third := buildYAML(good.YAML(), f)
			if third.Err != nil {
				run.Violate("C09/"+f+"/build-error", map[string]any{"history": "build after a failed one", "error": third.Err.Error()})
				continue
			}
			p := dec.Decode(f, third.Bytes, false)
			for k, d := range defs {
				atomic.AddInt64(compared, 1)
				got, ok := slotBytes(f, p, d.slot)
				if ok != (k == keep) {
					run.Violate("C09/"+f+"/slot-populated-without-config/after-failed-build", map[string]any{"slot": d.slot, "present": ok, "missing_in_failed_build": defs[missing].slot})
				} else if ok {
					// the one configured script is the file as it is on disk now
					if want := fmt.Sprintf("#!/bin/sh\n# LATER-%s-%s\nexit 0\n", f, d.slot); string(got) != want {
						run.Violate("C09/"+f+"/slot-content/after-failed-build", map[string]any{"slot": d.slot, "got": ev.Short(string(got), 160), "want": want})
					}
				}
			}
		}
		// (3) an override block that configures one script keeps the base's other scripts
		if len(defs) >= 2 {
			ov := mk()
			defs[0].set(ov, paths[defs[0].slot])
			o := &gen.Over{}
			tmp := &gen.Spec{}
			defs[1].set(tmp, paths[defs[1].slot])
			o.Scripts, o.RPM, o.Deb, o.APK, o.ArchL = tmp.Scripts, tmp.RPM, tmp.Deb, tmp.APK, tmp.ArchL
			ov.SetOverride(f, o)
			r := buildYAML(ov.YAML(), f)
			run.Case("override-merges-scripts|"+f, true)
			if r.Err != nil {
				run.Violate("C09/"+f+"/build-error", map[string]any{"history": "override scripts", "error": r.Err.Error()})
			} else {
				p := dec.Decode(f, r.Bytes, false)
				for k, d := range defs {
					atomic.AddInt64(compared, 1)
					_, ok := slotBytes(f, p, d.slot)
					if ok != (k < 2) {
						run.Violate("C09/"+f+"/override-block-scripts-not-merged-with-base", map[string]any{"slot": d.slot, "present": ok, "want_present": k < 2})
					}
				}
			}
		}
	}
}

// c09VirtualFiles: a script path that is not an ordinary file with a truthful
// size (procfs reports st_size 0 for files that have content): the slot holds
// the bytes a read of the path returns, or the build fails - never an empty or
// truncated script.
func c09VirtualFiles(run *ev.Run, payload string, compared *int64) {
	const vpath = "/proc/sys/kernel/ostype"
	want, err := os.ReadFile(vpath)
	if st, serr := os.Stat(vpath); err != nil || serr != nil || st.Size() != 0 || len(want) == 0 {
		run.Set("virtual_file_scripts", "skipped: "+vpath+" is not a size-0 file with content here")
		return
	}
	for _, f := range formats {
		for _, d := range slotTable[f] {
			s := &gen.Spec{Name: "scrv", Arch: "amd64", Version: "1.0.0", Maintainer: "S <s@example.com>", Description: "scripts", MTime: 1400000000}
			s.RPM.BuildHost = "verif-host"
			s.Contents = []*gen.Content{{Src: payload, Dst: "/opt/scrv/payload.txt"}}
			d.set(s, vpath)
			run.Case("virtual-file-script|"+f+"|"+d.slot, true)
			res := buildYAML(s.YAML(), f)
			if res.Err != nil || res.Panic != "" {
				continue // loud
			}
			p := dec.Decode(f, res.Bytes, false)
			atomic.AddInt64(compared, 1)
			got, ok := slotBytes(f, p, d.slot)
			if !ok || !bytes.Equal(bytes.TrimRight(got, "\n"), bytes.TrimRight(want, "\n")) {
				run.Violate("C09/"+f+"/slot-content/script-read-from-a-file-reporting-size-0", map[string]any{"slot": d.slot, "present": ok, "got": ev.Short(string(got), 80), "want": string(want)})
			}
		}
	}
}

// c09DollarPaths: script paths are paths, not templates: a directory or file
// name that contains '$' followed by a name, a digit or a brace is used as
// written (the process environment even defines some of the names).
func c09DollarPaths(run *ev.Run, dir, payload string, compared *int64) {
	_ = os.Setenv("VERIF_SCRIPT_DIR", "elsewhere")
	defer os.Unsetenv("VERIF_SCRIPT_DIR")
	for _, dn := range []string{"stage$1", "build${x}", "scr$VERIF_SCRIPT_DIR", "cost$", "a$$b"} {
		sd := filepath.Join(dir, dn)
		_ = os.MkdirAll(sd, 0o755)
		for _, f := range formats {
			for _, d := range slotTable[f] {
				body := fmt.Sprintf("#!/bin/sh\n# DOLLAR-%s-%s\nexit 0\n", f, d.slot)
				sp := filepath.Join(sd, d.slot+".sh")
				_ = os.WriteFile(sp, []byte(body), 0o755)
				s := &gen.Spec{Name: "scrd", Arch: "amd64", Version: "1.0.0", Maintainer: "S <s@example.com>", Description: "scripts", MTime: 1400000000}
				s.RPM.BuildHost = "verif-host"
				s.Contents = []*gen.Content{{Src: payload, Dst: "/opt/scrd/payload.txt"}}
				d.set(s, sp)
				run.Case("dollar-in-script-path|"+dn+"|"+f+"|"+d.slot, true)
				res := buildYAML(s.YAML(), f)
				if res.Err != nil || res.Panic != "" {
					run.Violate("C09/"+f+"/build-error", map[string]any{"script_path": "<dir>/" + dn + "/" + d.slot + ".sh", "error": fmt.Sprint(res.Err, ev.Short(res.Panic, 200))})
					continue
				}
				p := dec.Decode(f, res.Bytes, false)
				atomic.AddInt64(compared, 1)
				got, ok := slotBytes(f, p, d.slot)
				if !ok || string(got) != body {
					run.Violate("C09/"+f+"/slot-content/script-path-containing-a-dollar-sign", map[string]any{"slot": d.slot, "directory": dn, "present": ok, "got": ev.Short(string(got), 100)})
				}
			}
		}
	}
}
