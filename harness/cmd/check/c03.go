package main

import (
	"bytes"
	"crypto/md5"
	"crypto/sha1"
	"crypto/sha256"
	"fmt"
	"os"
	"path/filepath"
	"runtime"
	"strconv"
	"strings"
	"sync"
	"sync/atomic"
	"time"

	"verifharness/internal/dec"
	"verifharness/internal/ev"
	"verifharness/internal/gen"
)

func init() { register("C03", "exploration", c03) }

type digStats struct{ digests, sizes, lines int64 }

func kibOK(field int64, sum int64) bool {
	// a KiB estimate: floor or ceil of sum/1024
	return field == sum/1024 || field == (sum+1023)/1024
}

// digestProblems recomputes everything a package says about its own bytes.
func digestProblems(f string, p *dec.Package, st *digStats) []problem {
	var ps []problem
	add := func(k, d string) { ps = append(ps, problem{k, d}) }
	if len(p.Errs) > 0 {
		add("undecodable", strings.Join(p.Errs, "; "))
		return ps
	}
	var sum int64
	for _, e := range p.Entries {
		if e.Kind == "file" {
			sum += int64(len(e.Data))
		}
	}
	switch f {
	case "deb", "ipk":
		if f == "deb" {
			// md5sums: one line per regular payload file
			want := map[string]string{}
			for _, e := range p.Entries {
				if e.Kind == "file" {
					want[e.Stored] = fmt.Sprintf("%x", md5.Sum(e.Data))
				}
			}
			if !p.HasCtrl["md5sums"] {
				add("md5sums-missing", "")
			}
			seen := map[string]bool{}
			for _, l := range strings.Split(strings.TrimSuffix(string(p.Md5sums), "\n"), "\n") {
				if l == "" {
					continue
				}
				atomic.AddInt64(&st.lines, 1)
				parts := strings.SplitN(l, "  ", 2)
				if len(parts) != 2 || len(parts[0]) != 32 {
					add("md5sums-line-malformed", l)
					continue
				}
				name := parts[1]
				stored := name
				if _, ok := want[stored]; !ok {
					stored = "./" + name
				}
				w, ok := want[stored]
				switch {
				case !ok:
					add("md5sums-line-without-file", l)
				case seen[stored]:
					add("md5sums-duplicate-line", l)
				case w != parts[0]:
					add("md5sums-wrong-digest", fmt.Sprintf("%s: stored %s, recomputed %s", name, parts[0], w))
				}
				seen[stored] = true
				atomic.AddInt64(&st.digests, 1)
			}
			for n := range want {
				if !seen[n] {
					add("md5sums-file-without-line", n)
				}
			}
		}
		v, ok := p.MetaGet("Installed-Size")
		atomic.AddInt64(&st.sizes, 1)
		if !ok {
			if f == "deb" || sum/1024 != 0 {
				add("installed-size-missing", fmt.Sprintf("payload is %d bytes", sum))
			}
		} else {
			n, err := strconv.ParseInt(v, 10, 64)
			if err != nil || !kibOK(n, sum) {
				add("installed-size-wrong", fmt.Sprintf("field %q, payload regular files total %d bytes", v, sum))
			}

		}
	case "apk":
		dh, _ := p.MetaGet("datahash")
		atomic.AddInt64(&st.digests, 1)
		if got := fmt.Sprintf("%x", sha256.Sum256(p.DataRaw)); dh != got {
			add("datahash", fmt.Sprintf("stored %s, SHA-256 of the data segment as shipped %s", dh, got))
		}
		check := func(label string, a *dec.TarArchive) {
			for i := range a.Entries {
				e := &a.Entries[i]
				if !e.IsReg() || e.Name == ".PKGINFO" || strings.HasPrefix(e.Name, ".SIGN.") {
					continue
				}
				atomic.AddInt64(&st.digests, 1)
				got, ok := e.PAX["APK-TOOLS.checksum.SHA1"]
				w := fmt.Sprintf("%x", sha1.Sum(e.Data))
				if !ok {
					add("sha1-missing/"+label, e.Name)
				} else if got != w {
					add("sha1-wrong/"+label, fmt.Sprintf("%s: stored %s, recomputed %s", e.Name, got, w))
				}
			}
		}
		check("data", p.DataTar)
		check("control", p.Control)
		sz, _ := p.MetaGet("size")
		atomic.AddInt64(&st.sizes, 1)
		if sz != strconv.FormatInt(sum, 10) {
			add("size", fmt.Sprintf("stored %q, payload regular files total %d", sz, sum))
		}
	case "archlinux":
		sz, ok := p.MetaGet("size")
		atomic.AddInt64(&st.sizes, 1)
		if !ok || sz != strconv.FormatInt(sum, 10) {
			add("pkginfo-size", fmt.Sprintf("stored %q, payload regular files total %d", sz, sum))
		}
		// .MTREE: .PKGINFO first, then one line per payload entry
		type ent struct {
			kind, link  string
			mode, mtime int64
			data        []byte
		}
		want := map[string]ent{"/.PKGINFO": {}}
		for i := range p.Tar.Entries {
			e := &p.Tar.Entries[i]
			if e.Name == ".MTREE" || e.Name == ".INSTALL" {
				continue
			}
			k := "file"
			if e.IsDir() {
				k = "dir"
			} else if e.IsSymlink() {
				k = "link"
			}
			want["/"+strings.TrimSuffix(e.Name, "/")] = ent{k, e.Link, e.Mode, e.MTime, e.Data}
		}
		seen := map[string]bool{}
		for i, l := range p.Mtree {
			atomic.AddInt64(&st.lines, 1)
			if l.Err != "" {
				add("mtree-unparsable", l.Raw)
				continue
			}
			key := "/" + strings.TrimSuffix(strings.TrimPrefix(l.Path, "./"), "/")
			w, ok := want[key]
			if !ok {
				add("mtree-line-without-entry", l.Raw)
				continue
			}
			if seen[key] {
				add("mtree-duplicate-line", l.Raw)
			}
			seen[key] = true
			if i == 0 && key != "/.PKGINFO" {
				add("mtree-pkginfo-not-first", l.Raw)
			}
			if l.KV["type"] != w.kind {
				add("mtree-type", fmt.Sprintf("%s: %q, archive member is %q", l.Path, l.KV["type"], w.kind))
				continue
			}
			if w.kind != "link" {
				// a symlink's mode is not stored in a tar header in a meaningful way
				if l.KV["mode"] != strconv.FormatInt(w.mode, 8) {
					add("mtree-mode", fmt.Sprintf("%s: mode=%s, archive member has %o", l.Path, l.KV["mode"], w.mode))
				}
			}
			if l.KV["time"] != fmt.Sprintf("%d.0", w.mtime) {
				add("mtree-time", fmt.Sprintf("%s: time=%s, archive member has %d", l.Path, l.KV["time"], w.mtime))
			}
			switch w.kind {
			case "file":
				atomic.AddInt64(&st.digests, 2)
				atomic.AddInt64(&st.sizes, 1)
				if l.KV["size"] != strconv.Itoa(len(w.data)) {
					add("mtree-size", fmt.Sprintf("%s: size=%s, shipped %d bytes", l.Path, l.KV["size"], len(w.data)))
				}
				if l.KV["md5digest"] != fmt.Sprintf("%x", md5.Sum(w.data)) {
					add("mtree-md5", l.Path)
				}
				if l.KV["sha256digest"] != fmt.Sprintf("%x", sha256.Sum256(w.data)) {
					add("mtree-sha256", l.Path)
				}
			case "link":
				if l.KV["link"] != w.link {
					add("mtree-link", fmt.Sprintf("%s: link=%q, archive member points to %q", l.Path, l.KV["link"], w.link))
				}
			}
		}
		for k := range want {
			if !seen[k] {
				add("mtree-entry-without-line", k)
			}
		}
	case "rpm":
		r := p.Rpm
		sig, h := r.Sig, r.Hdr
		atomic.AddInt64(&st.sizes, 3)
		atomic.AddInt64(&st.digests, 2)
		if v := sig.IntList(dec.RpmSigSize); len(v) != 1 || v[0] != int64(len(h.Blob)+len(r.PayloadRaw)) {
			add("sig-size-1000", fmt.Sprintf("%v, header+payload is %d", v, len(h.Blob)+len(r.PayloadRaw)))
		}
		if v, _ := sig.Str(dec.RpmSigSHA256); v != fmt.Sprintf("%x", sha256.Sum256(h.Blob)) {
			add("sig-sha256-273", fmt.Sprintf("stored %s", v))
		}
		if v := h.StrList(dec.RpmTagPayloadDigest); len(v) != 1 || v[0] != fmt.Sprintf("%x", sha256.Sum256(r.PayloadRaw)) {
			add("payload-digest-5092", fmt.Sprintf("%v", v))
		}
		if v := h.IntList(dec.RpmTagPayloadDigAlg); len(v) != 1 || v[0] != 8 {
			add("payload-digest-algo-5093", fmt.Sprintf("%v", v))
		}
		var regsum, linksum int64
		alg := h.IntList(dec.RpmTagFileDigestAlg)
		for i, e := range p.Entries {
			if e.Flags&64 != 0 {
				continue
			}
			st2 := h.StrList(dec.RpmTagFileDigests)
			switch e.Kind {
			case "file":
				atomic.AddInt64(&st.digests, 1)
				atomic.AddInt64(&st.sizes, 1)
				regsum += int64(len(e.Data))
				if i < len(st2) && st2[i] != fmt.Sprintf("%x", sha256.Sum256(e.Data)) {
					add("file-digest-1035", fmt.Sprintf("%s: stored %s", e.Path, st2[i]))
				}
				if i < len(alg) && alg[i] != 8 {
					add("file-digest-algo-5011", fmt.Sprintf("%s: %d", e.Path, alg[i]))
				}
				if e.Size != int64(len(e.Data)) {
					add("file-size-1028", fmt.Sprintf("%s: stored %d, shipped %d", e.Path, e.Size, len(e.Data)))
				}
			case "symlink":
				linksum += int64(len(e.Link))
				if i < len(st2) && st2[i] != "" {
					add("file-digest-1035-on-symlink", e.Path)
				}
			case "dir":
				if i < len(st2) && st2[i] != "" {
					add("file-digest-1035-on-dir", e.Path)
				}
			}
		}
		okSize := func(v int64) bool { return v == regsum || v == regsum+linksum }
		if v := h.IntList(dec.RpmTagSize); len(v) != 1 || !okSize(v[0]) {
			add("size-1009", fmt.Sprintf("%v, regular files total %d (+%d symlink targets)", v, regsum, linksum))
		}
		if v := sig.IntList(dec.RpmSigPayloadSize); len(v) != 1 || !(okSize(v[0]) || v[0] == int64(len(p.PayloadUnc)) || p.Cpio != nil && v[0] == p.Cpio.Len) {
			add("sig-payload-size-1007", fmt.Sprintf("%v, uncompressed cpio is %d bytes, files total %d", v, len(p.PayloadUnc), regsum))
		}
	}
	return ps
}

func c03(run *ev.Run, tier string) {
	n := ncases(100, 1200, tier)
	run.Rule = "cases = generated payloads biased to digest-relevant shapes (empty payload, only dirs/symlinks, empty files, files straddling 512/4096/128Ki/1Mi boundaries, up to 5 MiB in thorough), every deb/rpm compression round-robin; every digest, checksum and size stored in the package is recomputed by the harness from the decoded shipped bytes (no nfpm code). Further workloads: several packages of one format built at the same time into slowly draining writers under GOMAXPROCS 1 and N (incl. 250-entry trees whose names all need escaping); good builds after builds that failed half-way (shared helper afterFailedBuilds); SOURCE_DATE_EPOCH exported (before 1970, different from the configured mtime); the nfpm binary rebuilding to a target that holds a longer file. non-trivial = payload with >=1 non-empty regular file; distinct = feature set; procfs sources (stat size 0), one source shipped to several destinations, payloads totalling zero bytes"
	var st digStats
	var rebuilt int64
	forCases(run, caseCfg{
		prop: "C03", n: n, useCLI: tier == "thorough",
		opts: func(i int) gen.Opts {
			o := gen.DefaultOpts()
			o.Big = 1
			if tier == "thorough" && i%5 == 0 {
				o.Big = 2
			}
			switch i % 10 {
			case 8:
				o.NEntries = [2]int{0, 0}
			case 9:
				o.NEntries = [2]int{12, 25}
			}
			o.Changelog = i%6 == 2
			return o
		},
		tweak: func(i int, c *gen.Case) {
			c.Spec.Deb.Compression = []string{"", "gzip", "xz", "zstd", "none"}[i%5]
			c.Spec.RPM.Compression = []string{"", "gzip", "gzip:1", "gzip:9", "xz", "lzma", "zstd", "zstd:1", "zstd:19"}[i%9]
			if i%10 == 7 {
				// only directories and symlinks
				var keep []*gen.Content
				for _, e := range c.Spec.Contents {
					if e.Type == "dir" || e.Type == "symlink" {
						keep = append(keep, e)
					}
				}
				c.Spec.Contents = keep
				c.Feature("only-dirs-and-symlinks")
			}
		},
	}, func(b *built) {
		nonEmpty := false
		for _, p := range b.pkgs {
			for _, e := range p.Entries {
				if e.Kind == "file" && len(e.Data) > 0 {
					nonEmpty = true
				}
			}
		}
		run.Case(b.c.Fingerprint(), nonEmpty)
		if b.c.Index < 1 {
			run.Sample(map[string]any{"case": b.c.Index, "yaml": ev.Short(b.yaml, 1200)})
		}
		for f, p := range b.pkgs {
			for _, pr := range digestProblems(f, p, &st) {
				run.Violate("C03/"+f+"/"+pr.kind, map[string]any{"case": b.c.Index, "detail": ev.Short(pr.detail, 600)})
			}
		}
		// second build in the same process after the sources changed in place
		if b.c.Index%2 == 0 && mutateSources(b.c, 4) > 0 {
			atomic.AddInt64(&rebuilt, 1)
			nb := rebuild(run, "C03", b, formats, false)
			for f, p := range nb.pkgs {
				for _, pr := range digestProblems(f, p, &st) {
					run.Violate("C03/"+f+"/after-source-change/"+pr.kind, map[string]any{"case": b.c.Index, "detail": ev.Short(pr.detail, 600)})
				}
			}
		}
	})
	run.Set("cases_rebuilt_after_source_change", rebuilt)
	c03Overlapping(run, tier, &st)
	afterFailedBuilds(run, "C03", func(f string, raw []byte, p *dec.Package) []problem { return digestProblems(f, p, &st) })
	c03SourceDateEpochSet(run, tier, &st)
	// one source shipped to several destinations counts once per destination; a payload
	// that totals zero bytes still states its size
	{
		ddir := newWorkDir("c03-twice")
		one := filepath.Join(ddir, "one.bin")
		_ = os.WriteFile(one, bytes.Repeat([]byte("0123456789abcdef"), 5000), 0o644)
		zero := filepath.Join(ddir, "zero.dat")
		_ = os.WriteFile(zero, nil, 0o644)
		for name, contents := range map[string][]*gen.Content{
			"one-source-three-destinations": {{Src: one, Dst: "/opt/twice/a.bin"}, {Src: one, Dst: "/opt/twice/b.bin"}, {Src: one, Dst: "/usr/share/twice/c.bin", Type: "config"}},
			"only-empty-files":              {{Src: zero, Dst: "/opt/twice/zero.dat"}, {Src: zero, Dst: "/opt/twice/zero2.dat"}},
			"only-a-directory-and-a-link":   {{Type: "dir", Dst: "/var/lib/twice"}, {Type: "symlink", Src: "/var/lib/twice", Dst: "/opt/twice-link"}},
			"no-contents-at-all":            {},
		} {
			s := &gen.Spec{Name: "twice", Arch: "amd64", Version: "1.0.0", Maintainer: "T <t@example.com>", Description: "d", MTime: 1500000000}
			s.RPM.BuildHost = "verif-host"
			s.Contents = contents
			for _, f := range formats {
				run.Case("directed|"+name+"|"+f, true)
				res := buildYAML(s.YAML(), f)
				if res.Err != nil || res.Panic != "" {
					run.Violate("C03/"+f+"/build-error", map[string]any{"case": name, "error": fmt.Sprint(res.Err, ev.Short(res.Panic, 200))})
					continue
				}
				p := dec.Decode(f, res.Bytes, false)
				if len(p.Errs) > 0 {
					run.Violate("C03/"+f+"/undecodable", map[string]any{"case": name, "errors": p.Errs})
					continue
				}
				for _, pr := range digestProblems(f, p, &st) {
					run.Violate("C03/"+f+"/"+name+"/"+pr.kind, map[string]any{"detail": ev.Short(pr.detail, 300)})
				}
			}
		}
		removeWorkDir(ddir)
	}
	// sources whose stat size is not the number of bytes a read returns (procfs: size 0,
	// real content): whatever a format ships of them, the sizes and digests it states
	// are those of the shipped bytes
	for _, src := range []string{"/proc/crypto", "/proc/iomem", "/proc/filesystems"} {
		if b, err := os.ReadFile(src); err != nil || len(b) == 0 {
			continue
		}
		s := &gen.Spec{Name: "procsrc", Arch: "amd64", Version: "1.0.0", Maintainer: "P <p@example.com>", Description: "d", MTime: 1500000000}
		s.RPM.BuildHost = "verif-host"
		s.Contents = []*gen.Content{{Src: src, Dst: "/opt/procsrc/snapshot.txt"}}
		for _, f := range formats {
			run.Case("source-with-stat-size-0|"+src+"|"+f, true)
			res := buildYAML(s.YAML(), f)
			if res.Err != nil || res.Panic != "" {
				continue // refusing such a source is loud
			}
			p := dec.Decode(f, res.Bytes, false)
			if len(p.Errs) > 0 {
				run.Violate("C03/"+f+"/undecodable", map[string]any{"source": src, "errors": p.Errs})
				continue
			}
			for _, pr := range digestProblems(f, p, &st) {
				run.Violate("C03/"+f+"/source-with-stat-size-0/"+pr.kind, map[string]any{"source": src, "detail": ev.Short(pr.detail, 300)})
			}
		}
	}
	// the command line tool rebuilding to the same target after the payload shrank
	if bin := nfpmBin(run); bin != "" {
		cliRebuildSmaller(run, bin, "C03", func(f, how string, atTarget, fresh []byte) {
			p := dec.Decode(f, atTarget, false)
			if len(p.Errs) > 0 {
				run.Violate("C03/"+f+"/cli-rebuild/undecodable", map[string]any{"how": how, "errors": p.Errs})
				return
			}
			for _, pr := range digestProblems(f, p, &st) {
				run.Violate("C03/"+f+"/cli-rebuild/"+pr.kind, map[string]any{"how": how, "detail": ev.Short(pr.detail, 600)})
			}
			if len(atTarget) != len(fresh) {
				run.Violate("C03/"+f+"/cli-rebuild/bytes-outside-the-digested-package", map[string]any{"how": how, "file_bytes": len(atTarget), "package_bytes": len(fresh)})
			}
		})
	}
	run.Set("digests_recomputed", st.digests)
	run.Set("size_fields_checked", st.sizes)
	run.Set("digest_lines_parsed", st.lines)
	run.Assume("rpm signature tag 1007 is accepted when it equals the uncompressed cpio length or the sum of file sizes (rpm does not verify it; rpmpack writes the latter)")
	run.Assume("deb md5sums names may be stored as './usr/bin/x' or 'usr/bin/x' (both are relative; the property does not pick one)")
}

// slowWriter accepts a few KiB per call and yields in between: a destination
// that drains slowly (a pipe, a network file system) keeps a build inside its
// final write phase while other builds of the same process start and finish.
type slowWriter struct {
	buf bytes.Buffer
}

func (w *slowWriter) Write(p []byte) (int, error) {
	n := len(p)
	for len(p) > 0 {
		k := len(p)
		if k > 4096 {
			k = 4096
		}
		w.buf.Write(p[:k])
		p = p[k:]
		runtime.Gosched()
		time.Sleep(20 * time.Microsecond)
	}
	return n, nil
}

// c03Overlapping: several packages of one format are built at the same time in
// this process into slowly draining destinations, once with a single P (buffers
// recycled through a sync.Pool come back to the very next taker) and once with
// all of them. Every package must carry digests of its OWN bytes and equal the
// package built alone.
func c03Overlapping(run *ev.Run, tier string, st *digStats) {
	ncfg := 6
	if tier == "thorough" {
		ncfg = 16
	}
	type cs struct {
		c    *gen.Case
		y    string
		root string
	}
	var cases []cs
	for i := 0; i < ncfg; i++ {
		root := newWorkDir("c03o")
		o := gen.DefaultOpts()
		o.NEntries = [2]int{2, 6}
		o.Big = 1
		c, err := gen.New(uint64(run.Seed), 30000+i, root, o)
		if err != nil {
			run.Inconclusive(err.Error())
			removeWorkDir(root)
			continue
		}
		c.Spec.Deb.Compression = []string{"", "gzip", "none", "zstd"}[i%4]
		cases = append(cases, cs{c, c.Spec.YAML(), root})
	}
	// two cases whose payload names all need escaping in .MTREE (blank, '#',
	// backslash, non-ASCII): several hundred entries each
	for k := 0; k < 2; k++ {
		root := newWorkDir("c03e")
		td := filepath.Join(root, "esc")
		_ = os.MkdirAll(td, 0o755)
		for j := 0; j < 250; j++ {
			_ = os.WriteFile(filepath.Join(td, fmt.Sprintf("f %d #%d \\ é%d.txt", k, j, j%7)), []byte(fmt.Sprintf("escaped %d %d\n", k, j)), 0o644)
		}
		s := &gen.Spec{Name: fmt.Sprintf("escaped%d", k), Arch: "amd64", Version: "1.0.0", Maintainer: "E <e@example.com>", Description: "d", MTime: 1400000000}
		s.RPM.BuildHost = "verif-host"
		s.Contents = []*gen.Content{{Type: "tree", Src: td, Dst: fmt.Sprintf("/opt/esc %d", k)}}
		cases = append(cases, cs{&gen.Case{Spec: s}, s.YAML(), root})
	}
	defer func() {
		for _, c := range cases {
			removeWorkDir(c.root)
		}
	}()
	var built int64
	for _, procs := range []int{1, 0} {
		prev := runtime.GOMAXPROCS(0)
		if procs > 0 {
			runtime.GOMAXPROCS(procs)
		}
		for _, f := range formats {
			alone := make([][]byte, len(cases))
			for k, c := range cases {
				if r := buildYAML(c.y, f); r.Err == nil && r.Panic == "" {
					alone[k] = r.Bytes
				}
			}
			for round := 0; round < 2; round++ {
				outs := make([]*slowWriter, len(cases))
				errs := make([]error, len(cases))
				var wg sync.WaitGroup
				for k := range cases {
					if alone[k] == nil {
						continue
					}
					outs[k] = &slowWriter{}
					wg.Add(1)
					go func(k int) {
						defer wg.Done()
						defer func() {
							if r := recover(); r != nil {
								errs[k] = fmt.Errorf("panic: %v", r)
							}
						}()
						if round == 1 {
							time.Sleep(time.Duration(k) * 300 * time.Microsecond) // staggered starts
						}
						err, pan := packageTo(cases[k].y, f, outs[k], nil)
						if pan != "" {
							err = fmt.Errorf("panic: %s", pan)
						}
						errs[k] = err
					}(k)
				}
				wg.Wait()
				for k := range cases {
					if outs[k] == nil {
						continue
					}
					atomic.AddInt64(&built, 1)
					run.Case(fmt.Sprintf("overlapping|procs=%d|%s|round=%d|case=%d", procs, f, round, k), true)
					d := map[string]any{"gomaxprocs": procs, "case": 30000 + k, "builds_in_flight": len(cases), "staggered": round == 1}
					if errs[k] != nil {
						d["error"] = errs[k].Error()
						run.Violate("C03/"+f+"/overlapping-build-failed", d)
						continue
					}
					p := dec.Decode(f, outs[k].buf.Bytes(), false)
					if len(p.Errs) > 0 {
						d["errors"] = p.Errs
						run.Violate("C03/"+f+"/overlapping/undecodable", d)
						continue
					}
					for _, pr := range digestProblems(f, p, st) {
						d["detail"] = ev.Short(pr.detail, 600)
						run.Violate("C03/"+f+"/overlapping/"+pr.kind, d)
					}
					if !bytes.Equal(outs[k].buf.Bytes(), alone[k]) {
						d["len"], d["len_alone"] = outs[k].buf.Len(), len(alone[k])
						run.Violate("C03/"+f+"/overlapping/differs-from-the-package-built-alone", d)
					}
				}
			}
		}
		runtime.GOMAXPROCS(prev)
	}
	run.Set("packages_built_while_others_were_in_flight", built)
}

// c03SourceDateEpochSet: SOURCE_DATE_EPOCH is exported (as reproducible-build
// environments do) and differs from the configured mtime, or is the only time
// given: what the package states about its own members still matches them.
func c03SourceDateEpochSet(run *ev.Run, tier string, st *digStats) {
	prev, had := os.LookupEnv("SOURCE_DATE_EPOCH")
	defer func() {
		if had {
			_ = os.Setenv("SOURCE_DATE_EPOCH", prev)
		} else {
			_ = os.Unsetenv("SOURCE_DATE_EPOCH")
		}
	}()
	n := 6
	if tier == "thorough" {
		n = 40
	}
	var built int64
	for i := 0; i < n; i++ {
		root := newWorkDir("c03s")
		o := gen.DefaultOpts()
		o.NEntries = [2]int{2, 6}
		o.NoPkgMTime = i%3 == 2
		c, err := gen.New(uint64(run.Seed), 31000+i, root, o)
		if err != nil {
			run.Inconclusive(err.Error())
			removeWorkDir(root)
			continue
		}
		y := c.Spec.YAML()
		for _, sde := range []string{"1000000000", "2000000001", "-86400", "10000000000"} { // a date before 1970, one after 2262 (rpm's 32 bit fields may refuse it: loud)
			_ = os.Setenv("SOURCE_DATE_EPOCH", sde)
			for _, f := range formats {
				run.Case(fmt.Sprintf("source-date-epoch-set|%s|configured-mtime=%v|%s|%d", sde, c.Spec.MTime != 0, f, i), true)
				res := buildYAML(y, f)
				if res.Err != nil || res.Panic != "" {
					if len(sde) < 11 {
						run.Violate("C03/"+f+"/build-error", map[string]any{"case": 31000 + i, "SOURCE_DATE_EPOCH": sde, "error": fmt.Sprint(res.Err, ev.Short(res.Panic, 200))})
					}
					continue
				}
				built++
				p := dec.Decode(f, res.Bytes, false)
				if len(p.Errs) > 0 {
					run.Violate("C03/"+f+"/undecodable", map[string]any{"case": 31000 + i, "errors": p.Errs})
					continue
				}
				for _, pr := range digestProblems(f, p, st) {
					run.Violate("C03/"+f+"/source-date-epoch-set/"+pr.kind, map[string]any{"case": 31000 + i, "SOURCE_DATE_EPOCH": sde, "configured_mtime": c.Spec.MTime, "detail": ev.Short(pr.detail, 500)})
				}
			}
		}
		_ = os.Unsetenv("SOURCE_DATE_EPOCH")
		removeWorkDir(root)
	}
	run.Set("packages_built_with_source_date_epoch_exported", built)
}
