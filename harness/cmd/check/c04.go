package main

import (
	"archive/tar"
	"bytes"
	"crypto/rand"
	"crypto/rsa"
	"crypto/x509"
	"encoding/pem"
	"fmt"
	"io"
	"os"
	"path"
	"path/filepath"
	"sort"
	"strings"
	"sync"
	"sync/atomic"

	"github.com/goreleaser/nfpm/v2"

	"verifharness/internal/dec"
	"verifharness/internal/ev"
	"verifharness/internal/gen"
)

func init() { register("C04", "exploration", c04) }

type problem struct {
	kind   string
	detail string
}

// tarRules applies the rules the property states for every tar.
// dotSlash: names must start with "./" (deb/ipk).
func tarRules(label string, a *dec.TarArchive, dotSlash bool, complete bool) []problem {
	var ps []problem
	add := func(k, d string) { ps = append(ps, problem{label + "/" + k, d}) }
	for _, e := range a.Errs {
		add("malformed", e)
	}
	if complete {
		if a.EndBlocks < 2 {
			add("no-end-marker", fmt.Sprintf("%d zero blocks at the end", a.EndBlocks))
		}
	} else {
		if a.EndBlocks != 0 {
			add("has-end-marker", fmt.Sprintf("%d zero blocks at the end of a segment that must be cut", a.EndBlocks))
		}
	}
	if !a.Aligned {
		add("not-512-aligned", fmt.Sprintf("length %d", a.Len))
	}
	seen := map[string]int{}
	dirsSeen := map[string]bool{}
	for i := range a.Entries {
		e := &a.Entries[i]
		n := e.Name
		if strings.HasPrefix(n, "/") {
			add("absolute-name", n)
		}
		if dotSlash && !strings.HasPrefix(n, "./") {
			add("missing-dot-slash", n)
		}
		for _, comp := range strings.Split(n, "/") {
			if comp == ".." {
				add("dotdot-component", n)
			}
		}
		key := strings.TrimSuffix(strings.TrimPrefix(n, "./"), "/")
		if key == "" {
			key = "."
		}
		if j, dup := seen[key]; dup {
			add("duplicate-name", fmt.Sprintf("%q (entries %d and %d)", n, j, i))
		}
		seen[key] = i
		if e.IsDir() && !strings.HasSuffix(n, "/") {
			add("dir-without-trailing-slash", n)
		}
		if !e.IsDir() && strings.HasSuffix(n, "/") {
			add("non-dir-with-trailing-slash", n)
		}
		for _, b := range e.Base256 {
			if b == "mode" { // a mode always fits the octal field; other fields may legitimately need base-256
				add("base256-"+b, fmt.Sprintf("%q stores %s in base-256 (value %d)", n, b, e.Mode))
			}
		}
		if e.Mode&^0o7777 != 0 {
			add("mode-beyond-12-bits", fmt.Sprintf("%q mode %o", n, e.Mode))
		}
		// parents precede children: any ancestor that is an entry of this tar
		// must already have been seen
		if e.IsDir() {
			dirsSeen[key] = true
		}
	}
	// second pass for ordering (needs the full set of directory names)
	allDirs := map[string]int{}
	for i := range a.Entries {
		e := &a.Entries[i]
		if e.IsDir() {
			allDirs[strings.TrimSuffix(strings.TrimPrefix(e.Name, "./"), "/")] = i
		}
	}
	for i := range a.Entries {
		key := strings.TrimSuffix(strings.TrimPrefix(a.Entries[i].Name, "./"), "/")
		for d := path.Dir(key); d != "." && d != "/"; d = path.Dir(d) {
			if j, ok := allDirs[d]; ok && j > i {
				add("child-before-parent", fmt.Sprintf("%q (entry %d) precedes its parent %q (entry %d)", a.Entries[i].Name, i, d, j))
			}
		}
	}
	return ps
}

// stdlibAgrees re-reads a tar stream with archive/tar (an implementation
// other than the raw walker) and compares names and sizes.
func stdlibAgrees(label string, b []byte, a *dec.TarArchive) []problem {
	var ps []problem
	tr := tar.NewReader(bytes.NewReader(b))
	i := 0
	for {
		h, err := tr.Next()
		if err == io.EOF {
			break
		}
		if err != nil {
			ps = append(ps, problem{label + "/stdlib-reader-error", err.Error()})
			return ps
		}
		if i >= len(a.Entries) {
			ps = append(ps, problem{label + "/reader-disagreement", "archive/tar sees more entries than the raw walker"})
			return ps
		}
		if h.Name != a.Entries[i].Name || h.Size != a.Entries[i].Size && h.Typeflag == tar.TypeReg {
			ps = append(ps, problem{label + "/reader-disagreement", fmt.Sprintf("entry %d: archive/tar %q/%d, raw walker %q/%d", i, h.Name, h.Size, a.Entries[i].Name, a.Entries[i].Size)})
		}
		if _, err := io.Copy(io.Discard, tr); err != nil {
			ps = append(ps, problem{label + "/stdlib-reader-error", err.Error()})
			return ps
		}
		i++
	}
	if i != len(a.Entries) {
		ps = append(ps, problem{label + "/reader-disagreement", fmt.Sprintf("archive/tar sees %d entries, raw walker %d", i, len(a.Entries))})
	}
	return ps
}

func names(a *dec.TarArchive) []string {
	var out []string
	for _, e := range a.Entries {
		out = append(out, e.Name)
	}
	return out
}

// structural returns every violated structural rule of a decoded package.
func structural(f string, raw []byte, p *dec.Package, signed bool, hasScripts bool) []problem {
	var ps []problem
	add := func(k, d string) { ps = append(ps, problem{k, d}) }
	for _, e := range p.Errs {
		add("decode", e)
	}
	switch f {
	case "deb":
		var ns []string
		for _, m := range p.Ar.Members {
			ns = append(ns, m.Name)
		}
		ok := len(ns) >= 3 && ns[0] == "debian-binary" && ns[1] == "control.tar.gz" &&
			(ns[2] == "data.tar.gz" || ns[2] == "data.tar.xz" || ns[2] == "data.tar.zst" || ns[2] == "data.tar")
		if ok && signed {
			ok = len(ns) == 4 && strings.HasPrefix(ns[3], "_gpg")
		} else if ok {
			ok = len(ns) == 3
		}
		if !ok {
			add("ar-members", fmt.Sprintf("%v (signed=%v)", ns, signed))
		}
		if len(p.Ar.Members) > 0 && string(p.Ar.Members[0].Data) != "2.0\n" {
			add("debian-binary", fmt.Sprintf("%q", p.Ar.Members[0].Data))
		}
		if p.Control != nil {
			ps = append(ps, tarRules("control.tar", p.Control, true, true)...)
			if p.Control.Find("./control") == nil {
				add("control.tar/no-control-member", fmt.Sprintf("%v", names(p.Control)))
			}
		}
		if p.DataTar != nil {
			ps = append(ps, tarRules("data.tar", p.DataTar, true, true)...)
		}
	case "ipk":
		if p.Outer != nil {
			ps = append(ps, tarRules("outer.tar", p.Outer, true, true)...)
			ns := names(p.Outer)
			if len(ns) != 3 || ns[0] != "./debian-binary" || ns[1] != "./control.tar.gz" || ns[2] != "./data.tar.gz" {
				add("outer-members", fmt.Sprintf("%v", ns))
			} else if string(p.Outer.Entries[0].Data) != "2.0\n" {
				add("debian-binary", fmt.Sprintf("%q", p.Outer.Entries[0].Data))
			}
		}
		if p.Control != nil {
			ps = append(ps, tarRules("control.tar", p.Control, true, true)...)
		}
		if p.DataTar != nil {
			ps = append(ps, tarRules("data.tar", p.DataTar, true, true)...)
		}
	case "apk":
		want := 2
		if signed {
			want = 3
		}
		if len(p.GzMembers) != want {
			add("gzip-member-count", fmt.Sprintf("%d, want %d", len(p.GzMembers), want))
		}
		if signed && p.SigTar != nil {
			ps = append(ps, tarRules("signature.tar", p.SigTar, false, false)...)
			if len(p.SigTar.Entries) != 1 || !strings.HasPrefix(p.SigTar.Entries[0].Name, ".SIGN.RSA.") {
				add("signature-segment", fmt.Sprintf("%v", names(p.SigTar)))
			}
		}
		if p.Control != nil {
			ps = append(ps, tarRules("control.tar", p.Control, false, false)...)
			if len(p.Control.Entries) == 0 || p.Control.Entries[0].Name != ".PKGINFO" {
				add("pkginfo-not-first", fmt.Sprintf("%v", names(p.Control)))
			}
		}
		if p.DataTar != nil {
			ps = append(ps, tarRules("data.tar", p.DataTar, false, true)...)
		}
		// a reader untars the concatenation of all segments as one stream
		var cat []byte
		total := 0
		for _, m := range p.GzMembers {
			cat = append(cat, m.Data...)
		}
		for _, a := range []*dec.TarArchive{p.SigTar, p.Control, p.DataTar} {
			if a != nil {
				total += len(a.Entries)
			}
		}
		whole := dec.ParseTar(cat)
		for _, e := range whole.Errs {
			add("concatenation/malformed", e)
		}
		if len(whole.Entries) != total {
			add("concatenation/entry-count", fmt.Sprintf("one-stream read sees %d entries, segments hold %d", len(whole.Entries), total))
		}
		ps = append(ps, stdlibAgrees("concatenation", cat, whole)...)
	case "archlinux":
		if p.Tar != nil {
			ps = append(ps, tarRules("tar", p.Tar, false, true)...)
			var pi, mt, inst int
			for _, e := range p.Tar.Entries {
				switch e.Name {
				case ".PKGINFO":
					pi++
				case ".MTREE":
					mt++
				case ".INSTALL":
					inst++
				}
			}
			if pi != 1 {
				add("pkginfo-count", fmt.Sprint(pi))
			}
			if mt != 1 {
				add("mtree-count", fmt.Sprint(mt))
			}
			if hasScripts && inst != 1 || !hasScripts && inst != 0 {
				add("install-presence", fmt.Sprintf(".INSTALL members: %d, scripts configured: %v", inst, hasScripts))
			}
			if mt == 1 {
				if dec.Sniff(p.MtreeRaw) != "gzip" {
					add("mtree-not-gzip", "")
				}
				if !p.MtreeHdr {
					add("mtree-no-header", "")
				}
				if len(p.Mtree) == 0 || p.Mtree[0].Path != "./.PKGINFO" {
					first := ""
					if len(p.Mtree) > 0 {
						first = p.Mtree[0].Raw
					}
					add("mtree-pkginfo-not-first", first)
				}
				for _, l := range p.Mtree {
					if l.Err != "" {
						add("mtree-unparsable-line", l.Raw+": "+l.Err)
					}
				}
			}
		}
	case "rpm":
		r := p.Rpm
		if r == nil || r.Hdr == nil {
			break
		}
		if r.HdrOffset%8 != 0 {
			add("header-not-8-aligned", fmt.Sprint(r.HdrOffset))
		}
		if (r.SigOffset+len(r.Sig.Blob)+r.SigPad)%8 != 0 {
			add("signature-header-not-padded-to-8", "")
		}
		if pf, _ := r.Hdr.Str(dec.RpmTagPayloadFormat); pf != "cpio" {
			add("payload-format", pf)
		}
		if p.Cpio == nil {
			break
		}
		var hdrNames []string
		for _, e := range p.Entries {
			if e.Flags&64 != 0 { // RPMFILE_GHOST
				continue
			}
			hdrNames = append(hdrNames, e.Path)
		}
		var cpNames []string
		for _, c := range p.Cpio.Entries {
			cpNames = append(cpNames, path.Clean("/"+strings.TrimPrefix(c.Name, "./")))
		}
		if strings.Join(hdrNames, "\x00") != strings.Join(cpNames, "\x00") {
			add("cpio-header-correspondence", fmt.Sprintf("header (non-ghost): %v; cpio: %v", hdrNames, cpNames))
		}
		var all []string
		for _, e := range p.Entries {
			all = append(all, e.Path)
		}
		if !sort.StringsAreSorted(all) {
			add("header-files-not-sorted", fmt.Sprintf("%v", all))
		}
		dup := map[string]bool{}
		for _, n := range all {
			if dup[n] {
				add("duplicate-file", n)
			}
			dup[n] = true
		}
	}
	return ps
}

func c04(run *ev.Run, tier string) {
	n := ncases(100, 1500, tier)
	run.Rule = "cases = C01-style generated configurations, each built unsigned and (deb, rpm, apk) signed with the repository's unprotected test keys, all deb/rpm compressions round-robin; every output is parsed end to end by the harness readers (raw tar walker + archive/tar reader, ar, gzip member splitter, rpm lead/header/cpio, mtree) and every structural rule of the statement is asserted; deb output additionally goes through dpkg-deb -I/-c, xz/lzma payloads through the xz CLI. Further workloads: declared directories with non-canonical interiors plus an entry below, tree names with backslashes, destinations 31..70 directories deep, good builds after failed ones (afterFailedBuilds), the CLI over a larger existing file, bytes accepted by a destination that refused a write. Package dates before 1970 / from 2242 on (no deb or ipk tar member may need a pax header), all scripts blank. non-trivial = payload with >=1 directory, >=1 regular file and >=2 nesting levels; distinct = feature set x signed; changelog files without entries, owner / group names outside ASCII or beyond 32 bytes, descriptions with blank or white-space-only inner lines"
	var archives, rules, dpkgRuns, xzRuns, tarRuns, gzipRuns int64
	haveTar := have("tar")
	var mu sync.Mutex
	perFormat := map[string]int64{}
	haveDpkg := have("dpkg-deb")
	dpkgEvery := 5
	if tier == "thorough" {
		dpkgEvery = 1
	}
	useCLI := true
	for pass := 0; pass < 2; pass++ {
		signed := pass == 1
		fs := formats
		if signed {
			fs = []string{"deb", "rpm", "apk"}
		}
		forCases(run, caseCfg{
			prop: "C04", n: n, formats: fs, useCLI: useCLI,
			opts: func(i int) gen.Opts {
				o := gen.DefaultOpts()
				o.Big = 1
				o.Overrides = i%4 == 1
				o.Changelog = i%3 == 0
				if i%10 == 9 {
					o.NEntries = [2]int{0, 0} // empty payloads
				}
				return o
			},
			tweak: func(i int, c *gen.Case) {
				c.Spec.Deb.Compression = []string{"", "gzip", "xz", "zstd", "none"}[i%5]
				c.Spec.RPM.Compression = []string{"", "gzip", "gzip:1", "gzip:9", "xz", "lzma", "zstd", "zstd:1", "zstd:19"}[i%9]
				if signed {
					c.Spec.Deb.Sig.KeyFile = testKey("privkey_unprotected.asc")
					if i%3 == 1 {
						c.Spec.Deb.Sig.Method = "dpkg-sig"
					}
					if i%3 == 2 {
						c.Spec.Deb.Sig.Type = []string{"origin", "maint", "archive"}[i%9/3]
					}
					c.Spec.RPM.Sig.KeyFile = testKey("privkey_unprotected.asc")
					c.Spec.APK.Sig.KeyFile = testKey("rsa_unprotected.priv")
					if i%2 == 0 {
						c.Spec.APK.Sig.KeyName = "verif-key"
					}
				}
			},
		}, func(b *built) {
			c := b.c
			s := c.Spec
			nontriv := c.Features["type-dir"] || c.Features["type-tree"] || c.Features["shape-dirsrc"]
			run.Case(fmt.Sprintf("%s|signed=%v", c.Fingerprint(), signed), nontriv && len(s.Contents) >= 2)
			if c.Index < 1 {
				run.Sample(map[string]any{"case": c.Index, "signed": signed, "yaml": ev.Short(b.yaml, 1200)})
			}
			for f, p := range b.pkgs {
				hasScripts := false
				if f == "archlinux" {
					sc := s.Scripts
					hasScripts = sc.PreInstall != "" || sc.PostInstall != "" || sc.PreRemove != "" || sc.PostRemove != "" || s.ArchL.PreUpgrade != "" || s.ArchL.PostUpgrade != ""
				}
				ps := structural(f, b.raw[f], p, signed, hasScripts)
				// stdlib reader over every complete tar
				switch f {
				case "deb", "ipk":
					if p.DataTar != nil {
						unc, err := dec.Decompress(p.DataAlgo, p.DataRaw, false)
						if err == nil {
							ps = append(ps, stdlibAgrees("data.tar", unc, p.DataTar)...)
						}
					}
				}
				// GNU gzip as an independent reader of every gzip layer
				if have("gzip") && (tier == "thorough" || c.Index%3 == 0) {
					var layers [][]byte
					switch f {
					case "deb":
						layers = append(layers, p.CtrlRaw)
						if p.DataAlgo == "gzip" {
							layers = append(layers, p.DataRaw)
						}
					case "ipk":
						layers = append(layers, b.raw[f], p.CtrlRaw, p.DataRaw)
					case "apk":
						layers = append(layers, b.raw[f])
					case "archlinux":
						layers = append(layers, p.MtreeRaw)
					}
					for li, l := range layers {
						if l == nil {
							continue
						}
						atomic.AddInt64(&gzipRuns, 1)
						if _, se, code, err := runCmd(l, "", nil, "gzip", "-t"); err == nil && code != 0 {
							ps = append(ps, problem{fmt.Sprintf("gzip-layer-%d/gnu-gzip-rejects", li), ev.Short(string(se), 200)})
						}
					}
				}
				// GNU tar as a reader that shares nothing with the writer
				if haveTar && (tier == "thorough" || c.Index%3 == 0) {
					switch f {
					case "deb", "ipk":
						if p.DataTar != nil {
							if unc, err := dec.Decompress(p.DataAlgo, p.DataRaw, false); err == nil {
								ps = append(ps, gnuTarAgrees("data.tar", unc, p.DataTar)...)
								atomic.AddInt64(&tarRuns, 1)
							}
						}
						if p.Control != nil {
							if unc, _, err := dec.Gunzip(p.CtrlRaw); err == nil {
								ps = append(ps, gnuTarAgrees("control.tar", unc, p.Control)...)
								atomic.AddInt64(&tarRuns, 1)
							}
						}
					case "apk":
						var cat []byte
						for _, m := range p.GzMembers {
							cat = append(cat, m.Data...)
						}
						ps = append(ps, gnuTarAgrees("concatenation", cat, dec.ParseTar(cat))...)
						atomic.AddInt64(&tarRuns, 1)
					case "archlinux":
						if p.Tar != nil {
							if unc, err := dec.Unzstd(b.raw[f]); err == nil {
								ps = append(ps, gnuTarAgrees("tar", unc, p.Tar)...)
								atomic.AddInt64(&tarRuns, 1)
							}
						}
					}
				}
				atomic.AddInt64(&archives, 1)
				atomic.AddInt64(&rules, 1)
				mu.Lock()
				perFormat[f]++
				mu.Unlock()
				if p.DataAlgo == "xz" || p.PayloadAlgo == "xz" || p.PayloadAlgo == "lzma" {
					if have("xz") {
						atomic.AddInt64(&xzRuns, 1)
					}
				}
				for _, pr := range ps {
					run.Violate("C04/"+f+"/"+pr.kind, map[string]any{"case": c.Index, "signed": signed, "detail": ev.Short(pr.detail, 700)})
				}
				if f == "deb" && haveDpkg && c.Index%dpkgEvery == 0 {
					atomic.AddInt64(&dpkgRuns, 1)
					dpkgAccepts(run, c, b.raw[f], p, signed)
				}
			}
		})
	}
	c04Spellings(run)
	c04DirSpellings(run)
	c04OddTreeNames(run)
	c04UnusualDates(run)
	c04DeepPaths(run)
	afterFailedBuilds(run, "C04", func(f string, raw []byte, p *dec.Package) []problem { return structural(f, raw, p, false, true) })
	c04AcceptedBytes(run)
	if bin := nfpmBin(run); bin != "" {
		c04CLIOverExisting(run, bin)
	}
	c04ApkAlignment(run)
	run.Set("archives_checked", archives)
	run.Set("archives_per_format", perFormat)
	run.Set("dpkg_deb_runs", dpkgRuns)
	run.Set("xz_cli_crosschecks", xzRuns)
	run.Set("gnu_tar_reads", tarRuns)
	run.Set("gnu_gzip_tests", gzipRuns)
	run.Set("external_readers", map[string]bool{"dpkg-deb": haveDpkg, "xz": have("xz"), "GNU tar": haveTar})
	run.Assume("rpm, cpio, zstd, bsdtar, apk and pacman CLIs are not installed: their formats are read by harness-owned parsers and by the decoder halves of the klauspost/ulikunitz libraries")
}

// dpkgAccepts runs dpkg-deb over the produced file.
func dpkgAccepts(run *ev.Run, c *gen.Case, raw []byte, p *dec.Package, signed bool) {
	dir := newWorkDir("c04-dpkg")
	defer removeWorkDir(dir)
	fn := filepath.Join(dir, "p.deb")
	if err := os.WriteFile(fn, raw, 0o644); err != nil {
		run.Inconclusive("cannot write deb for dpkg-deb: " + err.Error())
		return
	}
	_, se, code, err := runCmd(nil, dir, nil, "dpkg-deb", "-I", fn)
	if err != nil {
		run.Inconclusive("dpkg-deb could not be run: " + err.Error())
		return
	}
	if code != 0 {
		run.Violate("C04/deb/dpkg-deb-info-rejects", map[string]any{"case": c.Index, "signed": signed, "stderr": ev.Short(string(se), 500)})
		return
	}
	so, se, code, _ := runCmd(nil, dir, nil, "dpkg-deb", "-c", fn)
	if code != 0 {
		run.Violate("C04/deb/dpkg-deb-contents-rejects", map[string]any{"case": c.Index, "signed": signed, "stderr": ev.Short(string(se), 500)})
		return
	}
	lines := 0
	for _, l := range strings.Split(string(so), "\n") {
		if strings.TrimSpace(l) != "" {
			lines++
		}
	}
	if p.DataTar != nil && lines != len(p.DataTar.Entries) {
		run.Violate("C04/deb/dpkg-deb-entry-count", map[string]any{"case": c.Index, "dpkg": lines, "harness": len(p.DataTar.Entries)})
	}
}

// genRSAKey writes a fresh unprotected PKCS#1 RSA key of the given size.
func genRSAKey(dir string, bits int) (privPath string, pub *rsa.PublicKey, err error) {
	k, err := rsa.GenerateKey(rand.Reader, bits)
	if err != nil {
		return "", nil, err
	}
	p := filepath.Join(dir, fmt.Sprintf("rsa%d.priv", bits))
	b := pem.EncodeToMemory(&pem.Block{Type: "RSA PRIVATE KEY", Bytes: x509.MarshalPKCS1PrivateKey(k)})
	if err := os.WriteFile(p, b, 0o600); err != nil {
		return "", nil, err
	}
	return p, &k.PublicKey, nil
}

// c04ApkAlignment aims at the 512-byte boundaries of the apk segments: a
// control segment whose last member ends exactly on a block boundary
// (.PKGINFO or a script of 512*k bytes) and a signature of exactly 512 bytes
// (RSA-4096).
func c04ApkAlignment(run *ev.Run) {
	dir := newWorkDir("c04-align")
	defer removeWorkDir(dir)
	key4096, _, err := genRSAKey(dir, 4096)
	if err != nil {
		run.Inconclusive("cannot generate RSA-4096 key: " + err.Error())
		return
	}
	payload := filepath.Join(dir, "f.txt")
	_ = os.WriteFile(payload, []byte("hello\n"), 0o644)
	mk := func() *gen.Spec {
		s := &gen.Spec{Name: "align", Arch: "amd64", Version: "1.0.0", Maintainer: "A <a@example.com>", Description: "d", MTime: 1500000000}
		s.Contents = []*gen.Content{{Src: payload, Dst: "/opt/align/f.txt"}}
		return s
	}
	check := func(label string, s *gen.Spec, signed bool) {
		res := buildYAML(s.YAML(), "apk")
		if res.Err != nil || res.Panic != "" {
			run.Violate("C04/apk/build-error", map[string]any{"variant": label, "error": fmt.Sprint(res.Err, res.Panic)})
			return
		}
		p := dec.Decode("apk", res.Bytes, false)
		run.Case("apk-align|"+label, true)
		for _, pr := range structural("apk", res.Bytes, p, signed, false) {
			run.Violate("C04/apk/"+pr.kind, map[string]any{"variant": label, "signed": signed, "detail": ev.Short(pr.detail, 500)})
		}
	}
	// (a) .PKGINFO of exactly 512*k bytes, no scripts
	s := mk()
	res := buildYAML(s.YAML(), "apk")
	if res.Err == nil {
		p := dec.Decode("apk", res.Bytes, false)
		l := len(p.Pkginfo)
		for _, target := range []int{512, 1024} {
			s2 := mk()
			s2.Description = "d" + strings.Repeat("x", target-l%target)
			if r2 := buildYAML(s2.YAML(), "apk"); r2.Err == nil {
				p2 := dec.Decode("apk", r2.Bytes, false)
				if len(p2.Pkginfo)%512 != 0 {
					run.Inconclusive(fmt.Sprintf("alignment variant missed its target: .PKGINFO is %d bytes", len(p2.Pkginfo)))
				}
			}
			check(fmt.Sprintf("pkginfo-%d", target), s2, false)
			s3 := mk()
			s3.Description = s2.Description
			s3.APK.Sig.KeyFile = testKey("rsa_unprotected.priv")
			check(fmt.Sprintf("pkginfo-%d-signed", target), s3, true)
		}
	}
	// (b) last script ends on a block boundary
	for _, size := range []int{511, 512, 513, 1024, 4096} {
		sp := filepath.Join(dir, fmt.Sprintf("s%d.sh", size))
		_ = os.WriteFile(sp, bytes.Repeat([]byte("#"), size), 0o755)
		s := mk()
		s.APK.PreUpgrade = sp
		check(fmt.Sprintf("last-script-%d", size), s, false)
		s = mk()
		s.Scripts.PostInstall = sp
		check(fmt.Sprintf("only-script-%d", size), s, false)
	}
	// (c) signature of exactly 512 bytes
	s = mk()
	s.APK.Sig.KeyFile = key4096
	s.APK.Sig.KeyName = "k4096"
	check("sig-rsa4096", s, true)
	s = mk()
	s.APK.Sig.KeyFile = testKey("rsa_unprotected.priv")
	check("sig-testkey", s, true)
}

// c04Spellings: two entries whose destinations are the same path spelled
// differently. Preparation may reject the pair; if it is accepted the archive
// must still have unique member names.
func c04Spellings(run *ev.Run) {
	dir := newWorkDir("c04-spell")
	defer removeWorkDir(dir)
	a := filepath.Join(dir, "a.txt")
	b := filepath.Join(dir, "b.txt")
	_ = os.WriteFile(a, []byte("a\n"), 0o644)
	_ = os.WriteFile(b, []byte("b\n"), 0o644)
	pairs := [][2]string{{"/opt/sp/f", "opt/sp/f"}, {"/opt/sp/f", "/opt//sp/f"}, {"/opt/sp/f", "/opt/./sp/f"}, {"/opt/sp/f", "/opt/x/../sp/f"}, {"/opt/sp/d/", "/opt/sp/d"}}
	for _, pr0 := range pairs {
		pairs = append(pairs, [2]string{pr0[1], pr0[0]}) // both orders
	}
	for _, pr := range pairs {
		for _, types := range [][2]string{{"", ""}, {"config", ""}, {"dir", "dir"}, {"symlink", ""}} {
			s := &gen.Spec{Name: "spell", Arch: "amd64", Version: "1.0.0", Maintainer: "S <s@example.com>", Description: "d", MTime: 1500000000}
			s.RPM.BuildHost = "verif-host"
			mk := func(dst, typ, src string) *gen.Content {
				c := &gen.Content{Dst: dst, Type: typ}
				switch typ {
				case "dir":
				case "symlink":
					c.Src = "/nonexistent-verif/t"
				default:
					c.Src = src
				}
				return c
			}
			s.Contents = []*gen.Content{mk(pr[0], types[0], a), mk(pr[1], types[1], b)}
			for _, f := range formats {
				run.Case(fmt.Sprintf("spelling|%s|%s|%v|%s", pr[0], pr[1], types, f), true)
				res := buildYAML(s.YAML(), f)
				if res.Err != nil || res.Panic != "" {
					continue // rejected: fine
				}
				p := dec.Decode(f, res.Bytes, false)
				for _, x := range structural(f, res.Bytes, p, false, false) {
					run.Violate("C04/"+f+"/"+x.kind, map[string]any{"destinations": pr, "types": types, "detail": ev.Short(x.detail, 400)})
				}
			}
		}
	}
}

// c04DirSpellings: a declared directory whose destination is spelled with a
// leading and trailing slash and a non-canonical interior (as left behind by an
// empty variable inside the path), together with an entry below it: the
// directory is one archive member, not two.
func c04DirSpellings(run *ev.Run) {
	dir := newWorkDir("c04-dirspell")
	defer removeWorkDir(dir)
	a := filepath.Join(dir, "a.txt")
	_ = os.WriteFile(a, []byte("a\n"), 0o644)
	for _, dst := range []string{"/opt//app/", "/opt/./app/", "/opt/x/../app/", "/opt/app//", "opt/app/", "./opt/app/", "/opt///app/"} {
		for _, below := range []string{"/opt/app/bin/tool", "/opt/app/tool"} {
			for _, order := range []int{0, 1} {
				s := &gen.Spec{Name: "dirspell", Arch: "amd64", Version: "1.0.0", Maintainer: "S <s@example.com>", Description: "d", MTime: 1500000000}
				s.RPM.BuildHost = "verif-host"
				d := &gen.Content{Dst: dst, Type: "dir", FI: &gen.FI{Mode: 0o750}}
				fl := &gen.Content{Dst: below, Src: a}
				s.Contents = []*gen.Content{d, fl}
				if order == 1 {
					s.Contents = []*gen.Content{fl, d}
				}
				for _, f := range formats {
					run.Case(fmt.Sprintf("dir-spelling|%s|%s|%d|%s", dst, below, order, f), true)
					res := buildYAML(s.YAML(), f)
					if res.Err != nil || res.Panic != "" {
						continue // rejected: fine
					}
					p := dec.Decode(f, res.Bytes, false)
					for _, x := range structural(f, res.Bytes, p, false, false) {
						run.Violate("C04/"+f+"/"+x.kind, map[string]any{"directory": dst, "entry_below": below, "detail": ev.Short(x.detail, 400)})
					}
					n := 0
					for _, e := range p.Entries {
						if e.Path == "/opt/app" {
							n++
						}
					}
					if n > 1 {
						run.Violate("C04/"+f+"/duplicate-member/declared-directory", map[string]any{"directory": dst, "entry_below": below, "members_for_/opt/app": n})
					}
				}
			}
		}
	}
}

// c04DeepPaths: every ancestor of a deeply nested destination is a member and
// precedes it, however deep the nesting.
func c04DeepPaths(run *ev.Run) {
	dir := newWorkDir("c04-deep")
	defer removeWorkDir(dir)
	a := filepath.Join(dir, "a.txt")
	_ = os.WriteFile(a, []byte("a\n"), 0o644)
	for _, depth := range []int{31, 32, 33, 40, 70} {
		var parts []string
		for k := 0; k < depth; k++ {
			parts = append(parts, fmt.Sprintf("d%d", k))
		}
		dst := "/" + strings.Join(parts, "/") + "/leaf.txt"
		s := &gen.Spec{Name: "deep", Arch: "amd64", Version: "1.0.0", Maintainer: "S <s@example.com>", Description: "d", MTime: 1500000000}
		s.RPM.BuildHost = "verif-host"
		s.Contents = []*gen.Content{{Src: a, Dst: dst}, {Type: "symlink", Src: "/nonexistent-verif/t", Dst: "/" + strings.Join(parts, "/") + "/link"}}
		for _, f := range formats {
			run.Case(fmt.Sprintf("deep-destination|%d|%s", depth, f), true)
			res := buildYAML(s.YAML(), f)
			if res.Err != nil || res.Panic != "" {
				continue // a format may refuse paths it cannot store
			}
			p := dec.Decode(f, res.Bytes, false)
			for _, x := range structural(f, res.Bytes, p, false, false) {
				run.Violate("C04/"+f+"/"+x.kind, map[string]any{"destination_depth": depth, "detail": ev.Short(x.detail, 400)})
			}
			if f != "rpm" {
				have := map[string]bool{}
				for _, e := range p.Entries {
					have[e.Path] = true
				}
				for k := 1; k <= depth; k++ {
					if anc := "/" + strings.Join(parts[:k], "/"); !have[anc] {
						run.Violate("C04/"+f+"/ancestor-directory-missing", map[string]any{"destination_depth": depth, "missing": ev.Short(anc, 80), "level": k})
						break
					}
				}
			}
		}
	}
}

// c04UnusualDates: package dates that do not fit eleven octal digits (before
// 1970, from 2242 on). dpkg's own tar reader knows the v7, ustar and GNU header
// types and treats any other typeflag - pax 'x' / 'g' included - as an error
// (deb(5)), so no member of a deb or ipk tarball may need a pax header; and all
// scripts being blank files does not make the archlinux .INSTALL member go away.
func c04UnusualDates(run *ev.Run) {
	dir := newWorkDir("c04-dates")
	defer removeWorkDir(dir)
	a := filepath.Join(dir, "a.txt")
	_ = os.WriteFile(a, []byte("a\n"), 0o644)
	blank := filepath.Join(dir, "blank.sh")
	_ = os.WriteFile(blank, []byte(" \n\t\n"), 0o755)
	empty := filepath.Join(dir, "empty.sh")
	_ = os.WriteFile(empty, nil, 0o755)
	chg := filepath.Join(dir, "changelog.yaml")
	_ = os.WriteFile(chg, []byte("- semver: \"1.0.0\"\n  date: 2020-01-01T00:00:00Z\n  packager: \"P <p@example.com>\"\n  changes:\n    - note: \"n\"\n"), 0o644)
	for _, mt := range []int64{-86400, -2208988800, 8589934592, 10413792000, 253402300799} {
		s := &gen.Spec{Name: "dates", Arch: "amd64", Version: "1.0.0", Maintainer: "S <s@example.com>", Description: "d", MTime: mt, Changelog: chg}
		s.RPM.BuildHost = "verif-host"
		s.Contents = []*gen.Content{{Src: a, Dst: "/opt/dates/a.txt"}, {Src: a, Dst: "/etc/dates/a.conf", Type: "config"}}
		s.Scripts.PostInstall = blank
		s.Deb.Interest = []string{"/t"}
		for _, f := range formats {
			run.Case(fmt.Sprintf("unusual-package-date|%d|%s", mt, f), true)
			res := buildYAML(s.YAML(), f)
			if res.Err != nil || res.Panic != "" {
				continue // a format may refuse a date it cannot store
			}
			p := dec.Decode(f, res.Bytes, false)
			for _, x := range structural(f, res.Bytes, p, false, true) {
				run.Violate("C04/"+f+"/"+x.kind, map[string]any{"package_mtime": mt, "detail": ev.Short(x.detail, 400)})
			}
			if f == "deb" || f == "ipk" {
				for _, ta := range []*dec.TarArchive{p.Control, p.DataTar} {
					if ta == nil {
						continue
					}
					for _, e := range ta.Entries {
						if e.PAX != nil {
							run.Violate("C04/"+f+"/tar-member-needs-a-pax-header", map[string]any{"package_mtime": mt, "member": e.Name, "pax_records": fmt.Sprint(e.PAX)})
							break
						}
					}
				}
			}
		}
	}
	// all configured scripts are blank or empty files
	for _, sc := range []string{blank, empty} {
		s := &gen.Spec{Name: "blankscripts", Arch: "amd64", Version: "1.0.0", Maintainer: "S <s@example.com>", Description: "d", MTime: 1500000000}
		s.RPM.BuildHost = "verif-host"
		s.Contents = []*gen.Content{{Src: a, Dst: "/opt/dates/a.txt"}}
		s.Scripts.PreInstall, s.Scripts.PostInstall, s.Scripts.PreRemove, s.Scripts.PostRemove = sc, sc, sc, sc
		s.ArchL.PreUpgrade, s.ArchL.PostUpgrade = sc, sc
		for _, f := range formats {
			run.Case("all-scripts-blank|"+filepath.Base(sc)+"|"+f, true)
			res := buildYAML(s.YAML(), f)
			if res.Err != nil || res.Panic != "" {
				continue
			}
			p := dec.Decode(f, res.Bytes, false)
			for _, x := range structural(f, res.Bytes, p, false, true) {
				run.Violate("C04/"+f+"/"+x.kind, map[string]any{"scripts": "all " + filepath.Base(sc), "detail": ev.Short(x.detail, 400)})
			}
		}
	}
	// descriptions whose inner lines are blank or hold only white space: the control
	// paragraph may not contain a line a reader takes for the end of the paragraph
	for di, desc := range []string{"first\n\nthird", "first\n \t \nthird", "first\n   \n\t\nfourth\n ", "first\r\n\r\nthird"} {
		s := &gen.Spec{Name: "blanklines", Arch: "amd64", Version: "1.0.0", Maintainer: "S <s@example.com>", Description: desc, MTime: 1500000000}
		s.RPM.BuildHost = "verif-host"
		s.Contents = []*gen.Content{{Src: a, Dst: "/opt/dates/a.txt"}}
		for _, f := range formats {
			run.Case(fmt.Sprintf("description-with-blank-inner-lines|%d|%s", di, f), true)
			res := buildYAML(s.YAML(), f)
			if res.Err != nil || res.Panic != "" {
				continue
			}
			p := dec.Decode(f, res.Bytes, false)
			for _, x := range structural(f, res.Bytes, p, false, false) {
				run.Violate("C04/"+f+"/"+x.kind, map[string]any{"description": desc, "detail": ev.Short(x.detail, 400)})
			}
		}
	}
	// a changelog file that exists but lists no entries yet
	for ci, body := range []string{"", "[]\n", "# nothing released yet\n"} {
		none := filepath.Join(dir, fmt.Sprintf("no-entries-%d.yaml", ci))
		_ = os.WriteFile(none, []byte(body), 0o644)
		s := &gen.Spec{Name: "nochanges", Arch: "amd64", Version: "1.0.0", Maintainer: "S <s@example.com>", Description: "d", MTime: 1500000000, Changelog: none}
		s.RPM.BuildHost = "verif-host"
		s.Contents = []*gen.Content{{Src: a, Dst: "/opt/dates/a.txt"}}
		for _, f := range formats {
			run.Case(fmt.Sprintf("changelog-without-entries|%d|%s", ci, f), true)
			res := buildYAML(s.YAML(), f)
			if res.Err != nil || res.Panic != "" {
				continue // refusing such a changelog is an answer too
			}
			p := dec.Decode(f, res.Bytes, false)
			for _, x := range structural(f, res.Bytes, p, false, false) {
				run.Violate("C04/"+f+"/"+x.kind, map[string]any{"changelog": fmt.Sprintf("file without entries (%q)", body), "detail": ev.Short(x.detail, 400)})
			}
		}
	}
	// owner and group names outside ASCII, and longer than a tar header field
	for _, og := range [][2]string{{"w\u00fcrfel", "gr\u00f6\u00dfe"}, {"\u7528\u6237", "root"}, {strings.Repeat("o", 40), "root"}, {"root", strings.Repeat("g", 33)}} {
		s := &gen.Spec{Name: "owners", Arch: "amd64", Version: "1.0.0", Maintainer: "S <s@example.com>", Description: "d", MTime: 1500000000}
		s.RPM.BuildHost = "verif-host"
		s.Contents = []*gen.Content{
			{Src: a, Dst: "/opt/owners/a.txt", FI: &gen.FI{Owner: og[0], Group: og[1]}},
			{Type: "dir", Dst: "/var/lib/owners", FI: &gen.FI{Owner: og[0], Group: og[1]}},
			{Type: "symlink", Src: "/opt/owners/a.txt", Dst: "/opt/owners/link", FI: &gen.FI{Owner: og[0], Group: og[1]}},
		}
		for _, f := range formats {
			run.Case(fmt.Sprintf("owner-names|%s:%s|%s", og[0], og[1], f), true)
			res := buildYAML(s.YAML(), f)
			if res.Err != nil || res.Panic != "" {
				continue // a format may refuse a name it cannot store
			}
			p := dec.Decode(f, res.Bytes, false)
			for _, x := range structural(f, res.Bytes, p, false, false) {
				run.Violate("C04/"+f+"/"+x.kind, map[string]any{"owner": og[0], "group": og[1], "detail": ev.Short(x.detail, 400)})
			}
			if f == "deb" || f == "ipk" {
				for _, ta := range []*dec.TarArchive{p.Control, p.DataTar} {
					if ta == nil {
						continue
					}
					for _, e := range ta.Entries {
						if e.PAX != nil {
							run.Violate("C04/"+f+"/tar-member-needs-a-pax-header", map[string]any{"owner": og[0], "group": og[1], "member": e.Name, "pax_records": fmt.Sprint(e.PAX)})
							break
						}
					}
				}
			}
		}
	}
}

// c04OddTreeNames: names read from the build host that contain a backslash (an
// ordinary byte on Linux) stay one path component: every member's parent
// directory is a member and precedes it.
func c04OddTreeNames(run *ev.Run) {
	dir := newWorkDir("c04-bs")
	defer removeWorkDir(dir)
	td := filepath.Join(dir, "t")
	_ = os.MkdirAll(filepath.Join(td, "d\\x"), 0o755)
	_ = os.MkdirAll(filepath.Join(td, "plain"), 0o755)
	for _, n := range []string{"we\\ird.txt", "d\\x/f.txt", "up\\..\\..\\escape.txt", "plain/a\\b\\c.txt", "trailing\\"} {
		_ = os.WriteFile(filepath.Join(td, n), []byte(n+"\n"), 0o644)
	}
	s := &gen.Spec{Name: "oddnames", Arch: "amd64", Version: "1.0.0", Maintainer: "S <s@example.com>", Description: "d", MTime: 1500000000}
	s.RPM.BuildHost = "verif-host"
	s.Contents = []*gen.Content{{Type: "tree", Src: td, Dst: "/opt/odd"}}
	for _, f := range formats {
		run.Case("tree-names-with-backslashes|"+f, true)
		res := buildYAML(s.YAML(), f)
		if res.Err != nil || res.Panic != "" {
			continue // refusing such names is loud
		}
		p := dec.Decode(f, res.Bytes, false)
		for _, x := range structural(f, res.Bytes, p, false, false) {
			run.Violate("C04/"+f+"/"+x.kind, map[string]any{"tree_names": "with backslashes", "detail": ev.Short(x.detail, 400)})
		}
		for _, e := range p.Entries {
			if !strings.HasPrefix(e.Path, "/opt/odd") && e.Path != "/opt" {
				run.Violate("C04/"+f+"/member-outside-the-tree-destination", map[string]any{"path": e.Path})
			}
		}
	}
}

// gnuTarAgrees feeds an (uncompressed) tar stream to GNU tar, an implementation
// that shares nothing with Go's archive/tar, and compares the member names.
func gnuTarAgrees(label string, b []byte, a *dec.TarArchive) []problem {
	so, se, code, err := runCmd(b, "", nil, "tar", "--quoting-style=literal", "-tf", "-")
	if err != nil {
		return nil
	}
	if code != 0 {
		return []problem{{label + "/gnu-tar-rejects", ev.Short(string(se), 300)}}
	}
	got := strings.Split(strings.TrimSuffix(string(so), "\n"), "\n")
	if len(a.Entries) == 0 && len(got) == 1 && got[0] == "" {
		return nil
	}
	if len(got) != len(a.Entries) {
		return []problem{{label + "/gnu-tar-entry-count", fmt.Sprintf("GNU tar lists %d members, raw walker %d", len(got), len(a.Entries))}}
	}
	for i := range got {
		if got[i] != a.Entries[i].Name {
			return []problem{{label + "/gnu-tar-name", fmt.Sprintf("member %d: GNU tar %q, raw walker %q", i, got[i], a.Entries[i].Name)}}
		}
	}
	return nil
}

// c04CLIOverExisting: the command line tool writes over a larger file that
// already exists at the target; the result must be the package and nothing else.
func c04CLIOverExisting(run *ev.Run, bin string) {
	dir := newWorkDir("c04-cli")
	defer removeWorkDir(dir)
	pf := filepath.Join(dir, "p.txt")
	_ = os.WriteFile(pf, []byte("payload\n"), 0o644)
	s := &gen.Spec{Name: "overwrite", Arch: "amd64", Version: "1.0.0", Maintainer: "O <o@example.com>", Description: "d", MTime: 1500000000}
	s.RPM.BuildHost = "verif-host"
	s.Contents = []*gen.Content{{Src: pf, Dst: "/opt/overwrite/p.txt"}}
	cfgp := filepath.Join(dir, "nfpm.yaml")
	_ = os.WriteFile(cfgp, []byte(s.YAML()), 0o644)
	ext := map[string]string{"deb": ".deb", "rpm": ".rpm", "apk": ".apk", "ipk": ".ipk", "archlinux": ".pkg.tar.zst"}
	for _, f := range formats {
		ref := buildYAML(s.YAML(), f)
		if ref.Err != nil {
			continue
		}
		target := filepath.Join(dir, "existing"+ext[f])
		_ = os.WriteFile(target, bytes.Repeat([]byte("OLD PACKAGE BYTES "), 20000), 0o644)
		so, se, code, err := runCmd(nil, dir, nil, bin, "package", "-f", cfgp, "-p", f, "-t", target)
		run.Case("cli-over-larger-existing-file|"+f, true)
		if err != nil || code != 0 {
			run.Violate("C04/"+f+"/cli-build-failed", map[string]any{"output": ev.Short(string(so)+string(se), 300)})
			continue
		}
		got, _ := os.ReadFile(target)
		p := dec.Decode(f, got, false)
		probs := structural(f, got, p, false, false)
		if len(got) != len(ref.Bytes) {
			probs = append(probs, problem{"trailing-or-missing-bytes", fmt.Sprintf("file is %d bytes, the package is %d bytes", len(got), len(ref.Bytes))})
		}
		for _, x := range probs {
			run.Violate("C04/"+f+"/over-existing-file/"+x.kind, map[string]any{"detail": ev.Short(x.detail, 300)})
		}
	}
}

// countingWriter fails from write k on and keeps what it accepted.
type c04Writer struct {
	k, calls int
	buf      bytes.Buffer
}

func (w *c04Writer) Write(p []byte) (int, error) {
	i := w.calls
	w.calls++
	if w.k >= 0 && i >= w.k {
		return 0, fmt.Errorf("verif: destination full")
	}
	return w.buf.Write(p)
}

// c04AcceptedBytes: whenever Package reports success, the bytes the destination
// accepted must be a well-formed package - also when the destination refused a
// write somewhere (signed debs with odd/even signature sizes, every write index).
func c04AcceptedBytes(run *ev.Run) {
	dir := newWorkDir("c04-acc")
	defer removeWorkDir(dir)
	pf := filepath.Join(dir, "p.txt")
	_ = os.WriteFile(pf, []byte("payload\n"), 0o644)
	for _, f := range []string{"deb", "deb-signed-odd", "deb-signed-even", "rpm", "apk", "ipk", "archlinux"} {
		format := strings.SplitN(f, "-", 2)[0]
		s := &gen.Spec{Name: "accepted", Arch: "amd64", Version: "1.0.0", Maintainer: "A <a@example.com>", Description: "d", MTime: 1500000000}
		s.RPM.BuildHost = "verif-host"
		s.Contents = []*gen.Content{{Src: pf, Dst: "/opt/accepted/p.txt"}}
		siglen := map[string]int{"deb-signed-odd": 101, "deb-signed-even": 100}[f]
		build := func(w io.Writer) error {
			cfg, err := parseYAML(s.YAML(), nil)
			if err != nil {
				return err
			}
			info, err := infoFor(&cfg, format)
			if err != nil {
				return err
			}
			if siglen > 0 {
				info.Deb.Signature.SignFn = func(io.Reader) ([]byte, error) { return bytes.Repeat([]byte("s"), siglen), nil }
			}
			p, _ := nfpm.Get(format)
			return p.Package(info, w)
		}
		probe := &c04Writer{k: -1}
		if err := build(probe); err != nil {
			continue
		}
		for k := 0; k < probe.calls; k++ {
			w := &c04Writer{k: k}
			err := build(w)
			run.Case(fmt.Sprintf("accepted-bytes|%s|%d", f, k), true)
			if err != nil {
				continue // reported: nothing is claimed about the partial bytes
			}
			p := dec.Decode(format, w.buf.Bytes(), false)
			probs := structural(format, w.buf.Bytes(), p, siglen > 0, false)
			if !bytes.Equal(w.buf.Bytes(), probe.buf.Bytes()) {
				probs = append(probs, problem{"success-reported-for-different-bytes", fmt.Sprintf("%d bytes accepted, complete package is %d bytes", w.buf.Len(), probe.buf.Len())})
			}
			for _, x := range probs {
				run.Violate("C04/"+format+"/success-with-refused-write/"+x.kind, map[string]any{"variant": f, "k": k, "detail": ev.Short(x.detail, 300)})
			}
		}
	}
}
