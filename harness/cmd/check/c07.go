package main

import (
	"bytes"
	"crypto/sha256"
	"fmt"
	"os"
	"os/exec"
	"path/filepath"
	"runtime"
	"strconv"
	"strings"
	"sync"
	"sync/atomic"
	"time"

	"verifharness/internal/dec"
	"verifharness/internal/ev"
	"verifharness/internal/gen"
	"verifharness/internal/rng"
)

func init() { register("C07", "exploration", c07) }

// pgzip writes uint32(time.Time{}.Unix()) into the gzip MTIME field when no
// modification time is set: a clock-independent constant meaning "unset".
const pgzipUnsetMTime = 2288912640

type c07Case struct {
	c       *gen.Case
	yaml    string
	allowed map[int64]bool
	base    map[string][]byte // format -> baseline bytes
}

func allowedStamps(c *gen.Case) map[int64]bool {
	a := map[int64]bool{0: true}
	if c.Spec.MTime != 0 {
		a[c.Spec.MTime] = true
	}
	for _, n := range c.Tree.Nodes {
		a[n.MTime] = true
		a[n.MTimeRounded()] = true // archive writers may round the sub-second part
	}
	var walk func(l []*gen.Content)
	walk = func(l []*gen.Content) {
		for _, e := range l {
			if e.FI != nil && e.FI.MTime != 0 {
				a[e.FI.MTime] = true
			}
		}
	}
	walk(c.Spec.Contents)
	for _, o := range c.Spec.Overrides {
		walk(o.Contents)
	}
	for _, ce := range c.ChangelogEntries {
		a[ce.Date] = true
	}
	return a
}

func checkStamps(run *ev.Run, cc *c07Case, f string, raw []byte, how string, n *int64) {
	p := dec.Decode(f, raw, false)
	if len(p.Errs) > 0 {
		run.Violate("C07/"+f+"/undecodable", map[string]any{"case": cc.c.Index, "how": how, "errors": p.Errs})
		return
	}
	for _, st := range p.Stamps {
		atomic.AddInt64(n, 1)
		ok := cc.allowed[st.Val]
		if !ok && strings.HasPrefix(st.Where, "gzip:") && st.Val == pgzipUnsetMTime {
			ok = true
		}
		if !ok {
			where := st.Where
			if i := strings.Index(where, ":"); i >= 0 {
				// key by the kind of field, not by the member name
				rest := where[i+1:]
				kind := where[:i]
				if strings.HasPrefix(rest, "atime:") || strings.HasPrefix(rest, "ctime:") {
					kind += ":" + rest[:5]
				}
				where = kind
			}
			run.Violate("C07/"+f+"/timestamp-not-from-config-or-sources/"+where, map[string]any{
				"case": cc.c.Index, "how": how, "field": st.Where, "value": st.Val,
				"as_time": time.Unix(st.Val, 0).UTC().Format(time.RFC3339), "package_mtime": cc.c.Spec.MTime})
		}
	}
}

func c07(run *ev.Run, tier string) {
	n := ncases(40, 400, tier)
	run.Rule = "cases = generated configurations with fixed package mtime, fixed rpm build host, no signing, all script slots, changelogs, >=8 custom deb/ipk fields, all compressors, payloads beyond the compressors' block sizes. Each (case, format) is built: baseline; again in-process; under GOMAXPROCS 1,2,3,4,8,16; after the batch crossed a wall-clock second; and by the nfpm binary under TZ=UTC/Asia/Tokyo/America/St_Johns x GOMAXPROCS 1/16 x absolute/cwd-relative source paths x mtime in YAML/SOURCE_DATE_EPOCH (incl. SOURCE_DATE_EPOCH=0, =2208988800 and =-86400 twice, one second apart). All outputs of a (case, format) must be byte-identical; every timestamp decoded from the output (ar, every tar level incl. atime/ctime, gzip MTIME, rpm BUILDTIME/FILEMTIMES/changelog, cpio, archlinux builddate, .MTREE) must be the package mtime, a per-entry mtime, an on-disk mtime of a source of that case, or 0/unset. History scenarios: failed builds between good ones (GOMAXPROCS 1 and N), a changelog entry without a date after a second passed, rebuilding from the same parsed configuration after source metadata changed, a CLI rebuild over an older larger package; SOURCE_DATE_EPOCH negative / after 2038 / zero-padded / set next to a different configured mtime; the mtime written with a zone offset; destinations differing only in letter case; a .MTREE listing beyond 512 KiB. non-trivial = case with >=2 scripts and a payload file >= 128 KiB or a changelog; distinct = feature set"
	run.Rule += "; the nfpm binary pinned to one and to three processors (taskset)"
	bin := nfpmBin(run)
	var builds, stamps, cliRuns int64
	cases := make([]*c07Case, n)
	var mu sync.Mutex
	// generate + baseline
	parallel(n, 8, func(i int) {
		root := newWorkDir("c07")
		o := gen.DefaultOpts()
		o.Big = 1
		if tier == "thorough" && i%8 == 0 {
			o.Big = 2
		}
		o.Changelog = i%3 == 0
		o.Overrides = i%5 == 1
		c, err := gen.New(uint64(run.Seed), i, root, o)
		if err != nil {
			run.Inconclusive(err.Error())
			return
		}
		r := rng.New(uint64(run.Seed)).Fork(uint64(70000 + i))
		s := c.Spec
		for k := 0; k < 9; k++ {
			s.Deb.Fields.Set(fmt.Sprintf("X-Repro-%c%d", 'A'+r.Intn(26), r.Intn(1000)), "v"+strconv.Itoa(k))
			s.IPK.Fields.Set(fmt.Sprintf("X-Repro-%c%d", 'A'+r.Intn(26), r.Intn(1000)), "v"+strconv.Itoa(k))
		}
		// custom fields whose names differ only in letter case (all of them are
		// legal, none is reserved)
		s.IPK.Fields.Set("Source", "s1")
		s.IPK.Fields.Set("SOURCE", "s2")
		s.IPK.Fields.Set("source", "s3")
		s.Deb.Fields.Set("X-Case", "d1")
		s.Deb.Fields.Set("X-CASE", "d2")
		s.Depends = []string{"b", "a", "c"}
		s.Deb.Interest = []string{"/t2", "/t1"}
		s.IPK.Tags = []string{"z", "y"}
		s.Deb.Compression = []string{"", "gzip", "xz", "zstd", "none"}[i%5]
		s.RPM.Compression = []string{"", "gzip", "gzip:1", "gzip:9", "xz", "lzma", "zstd", "zstd:1", "zstd:19"}[i%9]
		if i%4 == 2 {
			// a semi-compressible payload larger than pgzip's and zstd's block sizes
			nd := &gen.Node{Rel: "src/blocks.bin", Kind: "file", Perm: 0o644, MTime: 1234567890, Size: 2*1024*1024 + 333, Seed: uint64(i) * 7}
			c.Tree.Add(nd)
			_ = os.MkdirAll(filepath.Join(root, "src"), 0o755)
			_ = os.WriteFile(filepath.Join(root, nd.Rel), nd.Content(), 0o644)
			mt := time.Unix(nd.MTime, 0)
			_ = os.Chtimes(filepath.Join(root, nd.Rel), mt, mt)
			s.Contents = append(s.Contents, &gen.Content{Src: filepath.Join(root, nd.Rel), Dst: "/opt/" + s.Name + "/blocks.bin"})
			c.Feature("block-sized-payload")
		}
		if i%8 == 2 {
			s.Maintainer = "" // deb and ipk substitute a fixed placeholder (and print a notice): not anything from the builder's environment
		}
		if i%2 == 1 {
			// destinations that differ only in the case of letters (README / readme /
			// ReadMe): their relative order is part of the bytes
			for k, nm := range []string{"README", "readme", "ReadMe", "Readme"} {
				nd := &gen.Node{Rel: fmt.Sprintf("src/case-%d.txt", k), Kind: "file", Perm: 0o644, MTime: 1234567000 + int64(k), Size: 20 + k, Seed: uint64(k) + 1}
				c.Tree.Add(nd)
				_ = os.MkdirAll(filepath.Join(root, "src"), 0o755)
				_ = os.WriteFile(filepath.Join(root, nd.Rel), nd.Content(), 0o644)
				mt := time.Unix(nd.MTime, 0)
				_ = os.Chtimes(filepath.Join(root, nd.Rel), mt, mt)
				s.Contents = append(s.Contents, &gen.Content{Src: filepath.Join(root, nd.Rel), Dst: "/usr/share/doc/" + s.Name + "/" + nm})
			}
			s.Contents = append(s.Contents, &gen.Content{Type: "dir", Dst: "/var/lib/" + s.Name + "/Cache"}, &gen.Content{Type: "dir", Dst: "/var/lib/" + s.Name + "/cache"})
			c.Feature("case-only-differences")
		}
		if i%8 == 5 {
			// several hundred entries: metadata members (.MTREE, md5sums, rpm header
			// arrays) grow beyond the compressors' block sizes
			sd := "src/many"
			nmany := 600
			if i == 5 {
				nmany = 2600 // the .MTREE listing alone passes 256 KiB and 512 KiB (block sizes of parallel compressors)
			}
			for k := 0; k < nmany; k++ {
				nd := &gen.Node{Rel: fmt.Sprintf("%s/d%02d/file-%04d.dat", sd, k%17, k), Kind: "file", Perm: 0o644, MTime: 1234567890 + int64(k), Size: 10 + k%50, Seed: uint64(k)}
				c.Tree.Add(nd)
			}
			_ = c.Tree.Materialize(root)
			s.Contents = append(s.Contents, &gen.Content{Src: filepath.Join(root, sd), Dst: "/usr/share/" + s.Name + "/many", Type: "tree"})
			c.Feature("many-files")
		}
		cc := &c07Case{c: c, yaml: s.YAML(), allowed: allowedStamps(c), base: map[string][]byte{}}
		nscripts := len(c.Tokens)
		run.Case(c.Fingerprint(), nscripts >= 2 && (c.Features["big-file"] || c.Features["block-sized-payload"] || c.Features["changelog"]))
		if i < 2 {
			run.Sample(map[string]any{"case": i, "yaml": ev.Short(cc.yaml, 1200)})
		}
		for _, f := range formats {
			res := buildYAML(cc.yaml, f)
			atomic.AddInt64(&builds, 1)
			if res.Err != nil || res.Panic != "" {
				run.Violate("C07/"+f+"/build-error", map[string]any{"case": i, "error": fmt.Sprint(res.Err, ev.Short(res.Panic, 300))})
				continue
			}
			cc.base[f] = res.Bytes
			checkStamps(run, cc, f, res.Bytes, "in-process baseline", &stamps)
		}
		mu.Lock()
		cases[i] = cc
		mu.Unlock()
	})
	rebuildAll := func(how string, workers int) {
		parallel(n, workers, func(i int) {
			cc := cases[i]
			if cc == nil {
				return
			}
			for _, f := range formats {
				b0, ok := cc.base[f]
				if !ok {
					continue
				}
				res := buildYAML(cc.yaml, f)
				atomic.AddInt64(&builds, 1)
				if res.Err != nil || res.Panic != "" {
					run.Violate("C07/"+f+"/rebuild-error", map[string]any{"case": i, "how": how, "error": fmt.Sprint(res.Err)})
					continue
				}
				if !bytes.Equal(res.Bytes, b0) {
					run.Violate("C07/"+f+"/bytes-differ/"+strings.SplitN(how, "=", 2)[0], diffDetail(cc, f, how, b0, res.Bytes))
				}
			}
		})
	}
	rebuildAll("second in-process build", 8)
	// the same instant written with a zone offset (mtime: ...+05:30) is the same mtime
	parallel(n, 8, func(i int) {
		cc := cases[i]
		if cc == nil || cc.c.Spec.MTime == 0 {
			return
		}
		utc := "mtime: " + time.Unix(cc.c.Spec.MTime, 0).UTC().Format(time.RFC3339)
		if !strings.Contains(cc.yaml, utc+"\n") {
			return
		}
		zone := time.FixedZone("", []int{19800, -12600, 7200}[i%3])
		y := strings.Replace(cc.yaml, utc+"\n", "mtime: "+time.Unix(cc.c.Spec.MTime, 0).In(zone).Format(time.RFC3339)+"\n", 1)
		for _, f := range formats {
			b0, ok := cc.base[f]
			if !ok {
				continue
			}
			res := buildYAML(y, f)
			atomic.AddInt64(&builds, 1)
			if res.Err != nil || res.Panic != "" {
				run.Violate("C07/"+f+"/rebuild-error", map[string]any{"case": i, "how": "mtime written with a zone offset", "error": fmt.Sprint(res.Err)})
				continue
			}
			if !bytes.Equal(res.Bytes, b0) {
				run.Violate("C07/"+f+"/bytes-differ/mtime-written-with-a-zone-offset", diffDetail(cc, f, "mtime written with a zone offset", b0, res.Bytes))
			}
		}
	})
	old := runtime.GOMAXPROCS(0)
	for _, g := range []int{1, 2, 3, 4, 8, 16} {
		runtime.GOMAXPROCS(g)
		rebuildAll(fmt.Sprintf("GOMAXPROCS=%d", g), 4)
	}
	runtime.GOMAXPROCS(old)
	time.Sleep(1100 * time.Millisecond) // one sleep per batch: the wall clock crosses a second boundary
	rebuildAll("after a wall-clock second boundary", 8)

	c07History(run, &builds)

	// cross-process through the nfpm binary
	if bin != "" {
		// what is at the target after a rebuild does not depend on what was there
		cliRebuildSmaller(run, bin, "C07", func(f, how string, atTarget, fresh []byte) {
			atomic.AddInt64(&cliRuns, 3)
			if !bytes.Equal(atTarget, fresh) {
				run.Violate("C07/"+f+"/bytes-differ/target-held-an-older-larger-package", map[string]any{"how": how, "len": len(atTarget), "len_fresh_target": len(fresh), "first_difference_at": firstDiffAt(fresh, atTarget)})
			}
		})
		type variant struct {
			name     string
			tz       string
			gmp      string
			relative bool
			sde      bool
		}
		variants := []variant{
			{"abs-UTC-16-yaml", "UTC", "16", false, false},
			{"abs-Tokyo-1-yaml", "Asia/Tokyo", "1", false, false},
			{"rel-StJohns-16-yaml", "America/St_Johns", "16", true, false},
			{"abs-Tokyo-16-sde", "Asia/Tokyo", "16", false, true},
			{"rel-UTC-1-sde", "UTC", "1", true, true},
		}
		every := 1
		if tier != "thorough" {
			every = 2
		}
		parallel(n, 8, func(i int) {
			cc := cases[i]
			if cc == nil || i%every != 0 {
				return
			}
			root := cc.c.Root
			outDir := filepath.Join(root, "out")
			_ = os.MkdirAll(outDir, 0o755)
			for vi, v := range variants {
				y := cc.yaml
				if v.relative {
					y = strings.ReplaceAll(y, root+"/", "")
				}
				env := []string{"PATH=" + os.Getenv("PATH"), "HOME=" + root, "TZ=" + v.tz, "GOMAXPROCS=" + v.gmp,
					// identity and locale of whoever runs the build
					"USER=builder" + v.gmp, "LOGNAME=builder" + v.gmp, "DEBFULLNAME=Builder " + v.tz, "DEBEMAIL=builder@" + v.gmp + ".example", "EMAIL=other@" + v.gmp + ".example",
					"LANG=" + []string{"C", "de_DE.UTF-8", "tr_TR.UTF-8"}[vi%3], "LC_ALL=" + []string{"C", "de_DE.UTF-8", "tr_TR.UTF-8"}[vi%3], "HOSTNAME=host" + v.gmp}
				if v.sde {
					// drop the top-level mtime line and pass the same instant through the environment
					var keep []string
					for _, l := range strings.Split(y, "\n") {
						if strings.HasPrefix(l, "mtime: ") {
							continue
						}
						keep = append(keep, l)
					}
					y = strings.Join(keep, "\n")
					sde := strconv.FormatInt(cc.c.Spec.MTime, 10)
					if vi%2 == 0 {
						sde = fmt.Sprintf("%012d", cc.c.Spec.MTime) // zero padded: still the same decimal number
					}
					env = append(env, "SOURCE_DATE_EPOCH="+sde)
				} else {
					// the variable only stands in for an unset mtime: a configured mtime
					// is what the package carries, whether the variable is earlier or later
					env = append(env, "SOURCE_DATE_EPOCH="+[]string{"946684800", "2000000000", "0"}[vi%3])
				}
				cfgp := filepath.Join(root, fmt.Sprintf("nfpm-%d.yaml", vi))
				_ = os.WriteFile(cfgp, []byte(y), 0o644)
				for _, f := range formats {
					b0, ok := cc.base[f]
					if !ok {
						continue
					}
					target := filepath.Join(outDir, fmt.Sprintf("v%d.%s", vi, f))
					so, se, code, err := runCmd(nil, root, env, bin, "package", "-f", cfgp, "-p", f, "-t", target)
					atomic.AddInt64(&cliRuns, 1)
					if err != nil || code != 0 {
						run.Violate("C07/"+f+"/cli-build-failed", map[string]any{"case": i, "variant": v.name, "exit": code, "output": ev.Short(string(so)+string(se), 400)})
						continue
					}
					got, _ := os.ReadFile(target)
					_ = os.Remove(target)
					if !bytes.Equal(got, b0) {
						run.Violate("C07/"+f+"/bytes-differ/cross-process", diffDetail(cc, f, "nfpm binary "+v.name, b0, got))
					}
				}
			}
		})
		// a builder that may use fewer processors (cpuset, affinity: what runtime.NumCPU reports,
		// which GOMAXPROCS does not influence) produces the same bytes
		if ts, err := exec.LookPath("taskset"); err == nil {
			parallel(n, 8, func(i int) {
				cc := cases[i]
				if cc == nil || (i != 5 && i%8 != 3) {
					return
				}
				root := cc.c.Root
				cfgp := filepath.Join(root, "nfpm-cpus.yaml")
				_ = os.WriteFile(cfgp, []byte(cc.yaml), 0o644)
				env := []string{"PATH=" + os.Getenv("PATH"), "HOME=" + root, "TZ=UTC"}
				for _, cpus := range []string{"0", "0-2"} {
					for _, f := range formats {
						b0, ok := cc.base[f]
						if !ok {
							continue
						}
						target := filepath.Join(root, "cpus."+f)
						so, se, code, err := runCmd(nil, root, env, ts, "-c", cpus, bin, "package", "-f", cfgp, "-p", f, "-t", target)
						atomic.AddInt64(&cliRuns, 1)
						if err != nil || code != 0 {
							run.Violate("C07/"+f+"/cli-build-failed", map[string]any{"case": i, "variant": "taskset -c " + cpus, "exit": code, "output": ev.Short(string(so)+string(se), 400)})
							continue
						}
						got, _ := os.ReadFile(target)
						_ = os.Remove(target)
						if !bytes.Equal(got, b0) {
							run.Violate("C07/"+f+"/bytes-differ/builder-with-fewer-processors", diffDetail(cc, f, "nfpm binary under taskset -c "+cpus, b0, got))
						}
					}
				}
			})
		}
		// SOURCE_DATE_EPOCH beyond 2038 (does not fit 32 bits) is a valid fixed mtime too
		parallel(n, 8, func(i int) {
			cc := cases[i]
			if cc == nil || i%4 != 1 {
				return
			}
			root := cc.c.Root
			var keep []string
			for _, l := range strings.Split(cc.yaml, "\n") {
				if !strings.HasPrefix(l, "mtime: ") {
					keep = append(keep, l)
				}
			}
			cfgp := filepath.Join(root, "nfpm-sde-late.yaml")
			_ = os.WriteFile(cfgp, []byte(strings.Join(keep, "\n")), 0o644)
			const late = 2208988800 // 2040-01-01
			env := []string{"PATH=" + os.Getenv("PATH"), "HOME=" + root, "TZ=UTC", "SOURCE_DATE_EPOCH=" + strconv.FormatInt(late, 10)}
			cl := *cc
			cl.allowed = map[int64]bool{late: true}
			for k := range cc.allowed {
				cl.allowed[k] = true
			}
			delete(cl.allowed, cc.c.Spec.MTime)
			for _, f := range formats {
				var outs [2][]byte
				for k := 0; k < 2; k++ {
					target := filepath.Join(root, fmt.Sprintf("sdelate-%d.%s", k, f))
					so, se, code, err := runCmd(nil, root, env, bin, "package", "-f", cfgp, "-p", f, "-t", target)
					atomic.AddInt64(&cliRuns, 1)
					if err != nil || code != 0 {
						run.Violate("C07/"+f+"/cli-build-failed", map[string]any{"case": i, "variant": "SOURCE_DATE_EPOCH=2208988800", "output": ev.Short(string(so)+string(se), 300)})
						break
					}
					outs[k], _ = os.ReadFile(target)
					_ = os.Remove(target)
					if k == 0 {
						time.Sleep(1050 * time.Millisecond)
					}
				}
				if outs[0] == nil || outs[1] == nil {
					continue
				}
				if !bytes.Equal(outs[0], outs[1]) {
					run.Violate("C07/"+f+"/bytes-differ/source-date-epoch-after-2038", diffDetail(&cl, f, "SOURCE_DATE_EPOCH=2208988800 twice", outs[0], outs[1]))
				}
				checkStamps(run, &cl, f, outs[1], "SOURCE_DATE_EPOCH=2208988800", &stamps)
			}
		})
		// a date before 1970 (negative SOURCE_DATE_EPOCH) is a fixed mtime as well:
		// two runs one second apart give the same bytes
		parallel(n, 8, func(i int) {
			cc := cases[i]
			if cc == nil || i%4 != 2 {
				return
			}
			root := cc.c.Root
			var keep []string
			for _, l := range strings.Split(cc.yaml, "\n") {
				if !strings.HasPrefix(l, "mtime: ") {
					keep = append(keep, l)
				}
			}
			cfgp := filepath.Join(root, "nfpm-sde-neg.yaml")
			_ = os.WriteFile(cfgp, []byte(strings.Join(keep, "\n")), 0o644)
			env := []string{"PATH=" + os.Getenv("PATH"), "HOME=" + root, "TZ=UTC", "SOURCE_DATE_EPOCH=-86400"}
			for _, f := range formats {
				var outs [2][]byte
				for k := 0; k < 2; k++ {
					target := filepath.Join(root, fmt.Sprintf("sdeneg-%d.%s", k, f))
					_, _, code, err := runCmd(nil, root, env, bin, "package", "-f", cfgp, "-p", f, "-t", target)
					atomic.AddInt64(&cliRuns, 1)
					if err != nil || code != 0 {
						break // a date the format cannot store may be refused
					}
					outs[k], _ = os.ReadFile(target)
					_ = os.Remove(target)
					if k == 0 {
						time.Sleep(1050 * time.Millisecond)
					}
				}
				if outs[0] == nil || outs[1] == nil {
					continue
				}
				if !bytes.Equal(outs[0], outs[1]) {
					run.Violate("C07/"+f+"/bytes-differ/source-date-epoch-before-1970", diffDetail(cc, f, "SOURCE_DATE_EPOCH=-86400 twice", outs[0], outs[1]))
				}
			}
		})
		// SOURCE_DATE_EPOCH=0 is a valid fixed mtime: two runs one second apart
		parallel(n, 8, func(i int) {
			cc := cases[i]
			if cc == nil || i%4 != 0 {
				return
			}
			root := cc.c.Root
			var keep []string
			for _, l := range strings.Split(cc.yaml, "\n") {
				if !strings.HasPrefix(l, "mtime: ") {
					keep = append(keep, l)
				}
			}
			cfgp := filepath.Join(root, "nfpm-sde0.yaml")
			_ = os.WriteFile(cfgp, []byte(strings.Join(keep, "\n")), 0o644)
			env := []string{"PATH=" + os.Getenv("PATH"), "HOME=" + root, "TZ=UTC", "SOURCE_DATE_EPOCH=0"}
			c0 := *cc
			c0.allowed = map[int64]bool{}
			for k := range cc.allowed {
				c0.allowed[k] = true
			}
			delete(c0.allowed, cc.c.Spec.MTime)
			for _, f := range formats {
				var outs [2][]byte
				for k := 0; k < 2; k++ {
					target := filepath.Join(root, fmt.Sprintf("sde0-%d.%s", k, f))
					so, se, code, err := runCmd(nil, root, env, bin, "package", "-f", cfgp, "-p", f, "-t", target)
					atomic.AddInt64(&cliRuns, 1)
					if err != nil || code != 0 {
						run.Violate("C07/"+f+"/cli-build-failed", map[string]any{"case": i, "variant": "SOURCE_DATE_EPOCH=0", "output": ev.Short(string(so)+string(se), 300)})
						break
					}
					outs[k], _ = os.ReadFile(target)
					_ = os.Remove(target)
					if k == 0 {
						time.Sleep(1050 * time.Millisecond)
					}
				}
				if outs[0] == nil || outs[1] == nil {
					continue
				}
				if !bytes.Equal(outs[0], outs[1]) {
					run.Violate("C07/"+f+"/bytes-differ/source-date-epoch-0", diffDetail(&c0, f, "SOURCE_DATE_EPOCH=0 twice", outs[0], outs[1]))
				}
				checkStamps(run, &c0, f, outs[1], "SOURCE_DATE_EPOCH=0", &stamps)
			}
		})
	}
	for _, cc := range cases {
		if cc != nil {
			removeWorkDir(cc.c.Root)
		}
	}
	run.Set("in_process_builds", builds)
	run.Set("cli_builds", cliRuns)
	run.Set("timestamps_decoded_and_checked", stamps)
	run.Set("gomaxprocs_values", []int{1, 2, 3, 4, 8, 16})
	run.Assume("gzip MTIME fields may hold 0 (compress/gzip) or 2288912640 (pgzip's encoding of an unset time): both are clock-independent")
	run.Assume("changelog entry dates come from the changelog file and are part of the configuration")
}

// diffDetail describes where two outputs diverge.
func diffDetail(cc *c07Case, f, how string, a, b []byte) map[string]any {
	first := -1
	for i := 0; i < len(a) && i < len(b); i++ {
		if a[i] != b[i] {
			first = i
			break
		}
	}
	if first < 0 && len(a) != len(b) {
		first = min(len(a), len(b))
	}
	return map[string]any{"case": cc.c.Index, "format": f, "how": how, "baseline_len": len(a), "other_len": len(b), "first_difference_at": first,
		"baseline_sha256": fmt.Sprintf("%x", sha256.Sum256(a)), "other_sha256": fmt.Sprintf("%x", sha256.Sum256(b))}
}

// c07History: what a package is made of does not depend on what the process
// did before: failed builds, earlier builds from the same parsed configuration
// whose sources changed since, and the time that passed.
func c07History(run *ev.Run, builds *int64) {
	dir := newWorkDir("c07h")
	defer removeWorkDir(dir)
	w := func(name, body string, mode os.FileMode) string {
		p := filepath.Join(dir, name)
		_ = os.WriteFile(p, []byte(body), mode)
		mt := time.Unix(1300000000, 0)
		_ = os.Chtimes(p, mt, mt)
		return p
	}
	payload := w("payload.bin", strings.Repeat("payload line\n", 500), 0o644)
	other := w("other.conf", "key = value\n", 0o644)
	// one changelog entry carries no date
	chg := w("changelog.yaml", "- semver: \"1.1.0\"\n  date: 2021-03-04T05:06:07Z\n  packager: \"P <p@example.com>\"\n  changes:\n    - note: \"dated\"\n- semver: \"1.0.0\"\n  packager: \"P <p@example.com>\"\n  changes:\n    - note: \"no date given\"\n", 0o644)
	mk := func() *gen.Spec {
		s := &gen.Spec{Name: "hist", Arch: "amd64", Version: "1.1.0", Maintainer: "H <h@example.com>", Description: "history", MTime: 1400000000, Changelog: chg}
		s.RPM.BuildHost = "verif-host"
		s.Contents = []*gen.Content{{Src: payload, Dst: "/opt/hist/payload.bin"}, {Src: other, Dst: "/etc/hist/other.conf", Type: "config"}}
		s.Scripts.PreInstall = w("preinstall.sh", "#!/bin/sh\necho pre-install\n", 0o755)
		s.Scripts.PostInstall = w("postinstall.sh", "#!/bin/sh\necho post-install\n", 0o755)
		s.Scripts.PreRemove = w("preremove.sh", "#!/bin/sh\necho pre-remove\n", 0o755)
		s.Scripts.PostRemove = w("postremove.sh", "#!/bin/sh\necho post-remove\n", 0o755)
		s.ArchL.PreUpgrade = w("preupgrade.sh", "#!/bin/sh\necho pre-upgrade\n", 0o755)
		s.APK.PreUpgrade = s.ArchL.PreUpgrade
		return s
	}
	good := mk().YAML()
	base := map[string][]byte{}
	for _, f := range formats {
		res := buildYAML(good, f)
		atomic.AddInt64(builds, 1)
		if res.Err != nil || res.Panic != "" {
			run.Violate("C07/"+f+"/build-error", map[string]any{"history": "baseline", "error": fmt.Sprint(res.Err, ev.Short(res.Panic, 300))})
			continue
		}
		base[f] = res.Bytes
	}
	same := func(f, how string, got buildResult) {
		atomic.AddInt64(builds, 1)
		if got.Err != nil || got.Panic != "" {
			run.Violate("C07/"+f+"/rebuild-error", map[string]any{"how": how, "error": fmt.Sprint(got.Err, ev.Short(got.Panic, 300))})
			return
		}
		if !bytes.Equal(got.Bytes, base[f]) {
			run.Violate("C07/"+f+"/bytes-differ/"+how, map[string]any{"how": how, "len": len(got.Bytes), "len_baseline": len(base[f]), "first_difference_at": firstDiffAt(base[f], got.Bytes)})
		}
	}
	// (1) failed builds in between, with one P (recycled buffers come straight
	// back) and with all of them; the script that is missing varies
	old := runtime.GOMAXPROCS(0)
	for _, g := range []int{1, old} {
		runtime.GOMAXPROCS(g)
		for round := 0; round < 4; round++ {
			bad := mk()
			missing := filepath.Join(dir, "does-not-exist.sh")
			switch round % 4 {
			case 0:
				bad.Scripts.PreRemove, bad.ArchL.PreUpgrade, bad.APK.PreUpgrade = missing, missing, missing
			case 1:
				bad.Scripts.PostRemove = missing
			case 2:
				bad.Scripts.PreInstall = missing
			case 3:
				bad.Changelog = filepath.Join(dir, "no-such-changelog.yaml")
			}
			by := bad.YAML()
			for _, f := range formats {
				if _, ok := base[f]; !ok {
					continue
				}
				run.Case(fmt.Sprintf("history|after-failed-build|%s|procs=%d|round=%d", f, g, round), true)
				_ = buildYAML(by, f) // fails (or not, for formats that do not read the missing file)
				same(f, "after-a-failed-build", buildYAML(good, f))
			}
		}
	}
	runtime.GOMAXPROCS(old)
	// (2) time passes: the entry without a date must not pick up the clock
	time.Sleep(1100 * time.Millisecond)
	for _, f := range formats {
		if _, ok := base[f]; ok {
			run.Case("history|dateless-changelog-entry|"+f, true)
			same(f, "changelog-entry-without-date-after-a-second", buildYAML(good, f))
		}
	}
	// (3) ONE parsed configuration: build everything, change the metadata and
	// size of sources, obtain settings again from the same configuration and
	// build: equal to what a fresh parse gives now
	cfg, err := parseYAML(good, nil)
	if err != nil {
		run.Inconclusive(err.Error())
		return
	}
	for _, f := range formats {
		if info, err := infoFor(&cfg, f); err == nil {
			_ = packageInfo(f, info)
			atomic.AddInt64(builds, 1)
		}
	}
	_ = os.Chmod(payload, 0o600)
	_ = os.WriteFile(other, []byte("key = another and longer value\n"), 0o640)
	_ = os.Chmod(other, 0o640)
	mt := time.Unix(1300000000, 0)
	_ = os.Chtimes(other, mt, mt)
	// (nothing is parsed between the change and these builds: a parse may well
	// refresh whatever the process remembered about the sources)
	again := map[string]buildResult{}
	for _, f := range formats {
		info, err := infoFor(&cfg, f)
		if err != nil {
			run.Inconclusive(err.Error())
			continue
		}
		again[f] = packageInfo(f, info)
	}
	for _, f := range formats {
		got, ok := again[f]
		fresh := buildYAML(good, f)
		if !ok || fresh.Err != nil || fresh.Panic != "" {
			continue
		}
		base[f] = fresh.Bytes
		run.Case("history|same-parsed-config-after-source-metadata-changed|"+f, true)
		same(f, "same-parsed-configuration-after-source-metadata-changed", got)
	}
}
