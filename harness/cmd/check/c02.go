package main

import (
	"bytes"
	"fmt"
	"os"
	"path/filepath"
	"regexp"
	"sort"
	"strconv"
	"strings"
	"sync/atomic"
	"time"

	"verifharness/internal/dec"
	"verifharness/internal/ev"
	"verifharness/internal/gen"
	"verifharness/internal/rng"
)

func init() { register("C02", "exploration", c02) }

// ---------------------------------------------------------------- reference composers

// relForms: which relation lists a format's metadata vocabulary can carry.
var relFields = map[string]map[string]string{
	"deb":       {"depends": "Depends", "predepends": "Pre-Depends", "recommends": "Recommends", "suggests": "Suggests", "conflicts": "Conflicts", "breaks": "Breaks", "replaces": "Replaces", "provides": "Provides"},
	"ipk":       {"depends": "Depends", "predepends": "Pre-Depends", "recommends": "Recommends", "suggests": "Suggests", "conflicts": "Conflicts", "replaces": "Replaces", "provides": "Provides"},
	"apk":       {"depends": "depend", "replaces": "replaces", "provides": "provides"},
	"archlinux": {"depends": "depend", "conflicts": "conflict", "replaces": "replaces", "provides": "provides"},
}

var rpmRelTags = map[string][3]int{
	"depends":    {dec.RpmTagRequireName, dec.RpmTagRequireVer, dec.RpmTagRequireFlags},
	"recommends": {dec.RpmTagRecommendName, dec.RpmTagRecommendVer, dec.RpmTagRecommendFlag},
	"suggests":   {dec.RpmTagSuggestName, dec.RpmTagSuggestVer, dec.RpmTagSuggestFlag},
	"conflicts":  {dec.RpmTagConflictName, dec.RpmTagConflictVer, dec.RpmTagConflictFlags},
	"replaces":   {dec.RpmTagObsoleteName, dec.RpmTagObsoleteVer, dec.RpmTagObsoleteFlags},
	"provides":   {dec.RpmTagProvideName, dec.RpmTagProvideVer, dec.RpmTagProvideFlags},
}

// effRel returns the effective relation list of a format (override wholesale).
func effRel(s *gen.Spec, f, rel string) []string {
	pick := func(o *gen.Over) []string {
		switch rel {
		case "depends":
			return o.Depends
		case "recommends":
			return o.Recommends
		case "suggests":
			return o.Suggests
		case "conflicts":
			return o.Conflicts
		case "replaces":
			return o.Replaces
		case "provides":
			return o.Provides
		case "breaks":
			return o.Deb.Breaks
		case "predepends":
			if f == "ipk" {
				return o.IPK.Predepends
			}
			return o.Deb.Predepends
		}
		return nil
	}
	if o := s.Overrides[f]; o != nil {
		if l := pick(o); len(l) > 0 {
			return l
		}
	}
	return pick(&s.Over)
}

type verParts struct{ Epoch, V, Pre, Meta, Rel string }

func debVersion(v verParts) string {
	s := ""
	if v.Epoch != "" {
		s = v.Epoch + ":"
	}
	s += v.V
	if v.Pre != "" {
		s += "~" + v.Pre
	}
	if v.Meta != "" {
		s += "+" + v.Meta
	}
	if v.Rel != "" {
		s += "-" + v.Rel
	}
	return s
}

func rpmVersion(v verParts) (version, release string) {
	version = v.V
	if v.Pre != "" {
		version += "~" + strings.ReplaceAll(v.Pre, "-", "_")
	}
	if v.Meta != "" {
		version += "+" + v.Meta
	}
	release = v.Rel
	if release == "" {
		release = "1"
	}
	return
}

// archVersion: [E:]V[P]-rel, prerelease with '-' -> '_' (pkgver may not contain
// '-'), release numeric else 1; metadata is not carried (tolerated).
func archVersion(v verParts) string {
	rel := 1
	if n, err := strconv.Atoi(v.Rel); err == nil {
		rel = n
	}
	s := ""
	if v.Epoch != "" {
		s = v.Epoch + ":"
	}
	return fmt.Sprintf("%s%s%s-%d", s, v.V, strings.ReplaceAll(v.Pre, "-", "_"), rel)
}

// ---------------------------------------------------------------- metadata generator

var relNames = []string{"libfoo", "bar-baz", "qux", "zlib1g", "python3", "systemd", "openssl", "core-utils", "lib.so.6", "a+b"}

func genRelList(r *rng.R, style string) []string {
	n := r.Intn(7)
	seen := map[string]bool{}
	var out []string
	for len(out) < n {
		nm := rng.Pick(r, relNames) + strconv.Itoa(r.Intn(50))
		if seen[nm] {
			continue
		}
		seen[nm] = true
		if style != "names" && r.P(1, 2) {
			op := rng.Pick(r, []string{">=", "<=", "=", ">", "<"})
			ver := fmt.Sprintf("%d.%d", r.Intn(9), r.Intn(20))
			switch style {
			case "rpm":
				nm = nm + " " + op + " " + ver
			case "deb":
				if op == ">" {
					op = ">>"
				}
				if op == "<" {
					op = "<<"
				}
				nm = nm + " (" + op + " " + ver + ")"
			default:
				nm = nm + op + ver
			}
		}
		out = append(out, nm)
	}
	return out
}

var descLines = []string{"A tool that does things.", "Zweite Zeile mit Umlauten äöü.", "行三 unicode", "tabs\tinside", "colon: inside", "# looks like a comment", "- looks like a list", "trailing dot.", "x"}

func genDescription(r *rng.R) string {
	n := r.Range(1, 6)
	var ls []string
	for i := 0; i < n; i++ {
		switch {
		case r.P(1, 12):
			// a very long line (folded YAML scalars produce them): beyond 4 KiB and 64 KiB buffers
			w := rng.Pick(r, []string{"long word ", "x", "äö "})
			ls = append(ls, strings.Repeat(w, rng.Pick(r, []int{500, 4096, 5000, 70000, 200000})/len(w))+"end")
		case r.P(1, 10):
			ls = append(ls, "double  space\tand tab\u00a0nbsp "+strconv.Itoa(r.Intn(1000)))
		case i > 0 && i < n-1 && r.P(1, 4):
			ls = append(ls, "")
		case i > 0 && i < n-1 && r.P(1, 6):
			ls = append(ls, "   ") // whitespace-only line
		default:
			ls = append(ls, rng.Pick(r, descLines)+" "+strconv.Itoa(r.Intn(1000)))
		}
	}
	d := strings.Join(ls, "\n")
	if r.P(1, 3) {
		d += "\n"
	}
	return d
}

// wantDescLines: what a format's parser must recover: every line trimmed,
// trailing blank lines dropped.
func wantDescLines(d string) []string {
	ls := strings.Split(strings.TrimSpace(d), "\n")
	for i := range ls {
		ls[i] = strings.TrimSpace(ls[i])
	}
	return ls
}

func genMeta(r *rng.R, s *gen.Spec, i int) verParts {
	v := verParts{V: fmt.Sprintf("%d.%d.%d", r.Intn(30), r.Intn(30), r.Intn(30))}
	if r.P(1, 2) {
		v.Pre = rng.Pick(r, []string{"beta1", "rc.1", "alpha-2", "pre.3-x", "0.3.7"})
	}
	if r.P(1, 2) {
		v.Meta = rng.Pick(r, []string{"git", "build5", "20200101", "exp.sha.5114f85", "p1"})
	}
	if r.P(1, 2) {
		v.Rel = rng.Pick(r, []string{"1", "2", "17", "r3", "4294967296", "20240131120000"})
	}
	if r.P(1, 3) {
		v.Epoch = rng.Pick(r, []string{"0", "1", "3", "12"})
	}
	s.Version, s.Prerelease, s.VersionMetadata, s.Release, s.Epoch = v.V, v.Pre, v.Meta, v.Rel, v.Epoch
	// the same components may also arrive embedded in the version string
	// (default schema: semver); explicit fields take precedence
	switch r.Intn(4) {
	case 1: // everything embedded
		s.Version, s.Prerelease, s.VersionMetadata = embed(v.V, v.Pre, v.Meta), "", ""
		if r.Bool() {
			s.Version = "v" + s.Version
		}
	case 2: // metadata embedded, prerelease explicit
		s.Version, s.VersionMetadata = embed(v.V, "", v.Meta), ""
	case 3: // prerelease embedded, metadata explicit
		s.Version, s.Prerelease = embed(v.V, v.Pre, ""), ""
	}
	s.Description = genDescription(r)
	opt := func(vals ...string) string {
		if r.P(1, 3) {
			return ""
		}
		return rng.Pick(r, vals)
	}
	s.Maintainer = opt("Jane Doe <jane@example.com>", "Ünï Cödé <u@example.org>", "team@example.net")
	s.Vendor = opt("ACME Inc.", "Verif GmbH & Co")
	s.Homepage = opt("https://example.com/x?y=1", "http://localhost")
	s.License = opt("MIT", "Apache-2.0 OR MIT", "GPL-2.0+")
	s.Section = opt("utils", "net", "misc/extra")
	s.Priority = opt("extra", "optional", "required")
	// either plain names everywhere (valid in every format's syntax), or
	// rpm-syntax constraints in the base lists with every other format getting
	// its own syntax through its override block
	baseStyle := "names"
	if r.P(1, 2) {
		baseStyle = "rpm"
	}
	s.Depends = genRelList(r, baseStyle)
	s.Recommends = genRelList(r, baseStyle)
	s.Suggests = genRelList(r, baseStyle)
	s.Conflicts = genRelList(r, baseStyle)
	s.Replaces = genRelList(r, baseStyle)
	s.Provides = genRelList(r, baseStyle)
	s.Deb.Breaks = genRelList(r, "deb")
	s.Deb.Predepends = genRelList(r, "deb")
	s.IPK.Predepends = genRelList(r, "deb")
	if baseStyle == "rpm" {
		for _, f := range []string{"deb", "ipk", "apk", "archlinux"} {
			style := "deb"
			if f == "apk" || f == "archlinux" {
				style = "plain"
			}
			o := s.Overrides[f]
			if o == nil {
				o = &gen.Over{}
			}
			nonEmpty := func() []string {
				for {
					if l := genRelList(r, style); len(l) > 0 {
						return l
					}
				}
			}
			o.Depends, o.Recommends, o.Suggests = nonEmpty(), nonEmpty(), nonEmpty()
			o.Conflicts, o.Replaces, o.Provides = nonEmpty(), nonEmpty(), nonEmpty()
			s.SetOverride(f, o)
		}
	}
	// format specific extras
	if r.P(1, 2) {
		for k := r.Range(1, 9); k > 0; k-- {
			s.Deb.Fields.Set(fmt.Sprintf("X-Field-%c%d", 'A'+r.Intn(26), r.Intn(100)), rng.Pick(r, []string{"value", "a b c", "1", ""}))
		}
	}
	if r.P(1, 2) {
		s.Deb.Interest = genTrig(r)
		s.Deb.InterestAwait = genTrig(r)
		s.Deb.InterestNoAw = genTrig(r)
		s.Deb.Activate = genTrig(r)
		s.Deb.ActivateAwait = genTrig(r)
		s.Deb.ActivateNoAw = genTrig(r)
	}
	if r.P(1, 2) {
		s.IPK.ABIVersion = opt("1", "2.0")
		s.IPK.Tags = genTrig(r)
		s.IPK.Essential = r.Bool()
		s.IPK.AutoInstalled = r.Bool()
		for k := r.Intn(3); k > 0; k-- {
			s.IPK.Alternatives = append(s.IPK.Alternatives, gen.IPKAlt{Priority: r.Range(1, 300), Target: "/usr/bin/t" + strconv.Itoa(k), LinkName: "/usr/bin/l" + strconv.Itoa(k)})
		}
		for k := r.Intn(5); k > 0; k-- {
			s.IPK.Fields.Set(fmt.Sprintf("X-Ipk-%d", r.Intn(100)), rng.Pick(r, []string{"v", "w x", ""}))
		}
		if r.P(1, 3) {
			s.IPK.Fields.Set("Maintainer", "must be stripped") // documented as disallowed
		}
	}
	if r.P(1, 2) {
		s.RPM.Group = opt("System/Tools", "Unspecified")
		s.RPM.Summary = opt("An explicit summary", "Zusammenfassung ü")
		s.RPM.Packager = opt("RPM Packager <rp@example.com>")
		if r.Bool() {
			s.RPM.Prefixes = []string{"/opt", "/usr/local"}[:r.Range(1, 2)]
		}
	}
	s.RPM.BuildHost = rng.Pick(r, []string{"verif-host", "build-01.example.com"})
	if r.P(1, 2) {
		s.ArchL.Pkgbase = opt("base-pkg")
		s.ArchL.Packager = opt("Arch Packager <ap@example.com>")
	}
	if r.P(1, 4) {
		s.Platform = rng.Pick(r, []string{"linux", "darwin", "freebsd"})
	}
	return v
}

func genTrig(r *rng.R) []string {
	var out []string
	for k := r.Intn(3); k > 0; k-- {
		out = append(out, fmt.Sprintf("/usr/lib/trig%d", r.Intn(100)))
	}
	return out
}

// ---------------------------------------------------------------- the oracle

type metaCmp struct {
	run   *ev.Run
	f     string
	cid   any
	count *int64
}

func (m metaCmp) eq(field, got, want string) {
	atomic.AddInt64(m.count, 1)
	if got != want {
		m.run.Violate("C02/"+m.f+"/"+field, map[string]any{"case": m.cid, "got": ev.Short(got, 300), "want": ev.Short(want, 300)})
	}
}

func (m metaCmp) viol(field string, d map[string]any) {
	d["case"] = m.cid
	m.run.Violate("C02/"+m.f+"/"+field, d)
}

func splitList(s string) []string {
	if s == "" {
		return nil
	}
	return strings.Split(s, ", ")
}

// expectArch: what the goarch table says, else identity.
func expectArch(table map[string]map[string]string, f, goarch string) string {
	if v, ok := table[f][goarch]; ok {
		return v
	}
	return goarch
}

// checkMeta compares the decoded metadata of one package with the spec.
func checkMeta(m metaCmp, s *gen.Spec, v verParts, p *dec.Package, wantArch string, c *gen.Case) {
	f := m.f
	platform := s.Platform
	if platform == "" {
		platform = "linux"
	}
	desc := s.Description
	if desc == "" {
		desc = "no description given"
	}
	dl := wantDescLines(desc)
	optEq := func(field, key, want string) {
		got, ok := p.MetaGet(key)
		if want == "" {
			atomic.AddInt64(m.count, 1)
			if ok && got != "" {
				m.viol(field+"-present-unconfigured", map[string]any{"got": got})
			}
			return
		}
		m.eq(field, got, want)
	}
	switch f {
	case "deb", "ipk":
		g := func(k string) string { x, _ := p.MetaGet(k); return x }
		m.eq("name", g("Package"), s.Name)
		m.eq("version", g("Version"), debVersion(v))
		if f == "deb" && platform != "linux" {
			m.eq("architecture", g("Architecture"), platform+"-"+wantArch)
		} else {
			m.eq("architecture", g("Architecture"), wantArch)
		}
		maint := s.Maintainer
		if strings.TrimSpace(maint) == "" {
			maint = "" // nfpm substitutes a placeholder; any non-empty value is fine
			atomic.AddInt64(m.count, 1)
			if g("Maintainer") == "" {
				m.viol("maintainer-empty", map[string]any{})
			}
		} else {
			m.eq("maintainer", g("Maintainer"), maint)
		}
		optEq("homepage", "Homepage", s.Homepage)
		optEq("license", "License", s.License)
		if f == "deb" {
			m.eq("section", g("Section"), s.Section)
		} else {
			optEq("section", "Section", s.Section)
			optEq("vendor", "Vendor", s.Vendor)
		}
		prio := s.Priority
		if prio == "" {
			prio = "optional" // documented default for deb
		}
		if s.Priority != "" || f == "deb" {
			m.eq("priority", g("Priority"), prio)
		}
		// description: synopsis + continuation lines via the deb822 rules
		got := strings.Split(g("Description"), "\n")
		for i := range got {
			if got[i] == "." {
				got[i] = ""
			}
		}
		m.eq("description-synopsis", got[0], dl[0])
		m.eq("description-lines", strings.Join(got, "\n"), strings.Join(dl, "\n"))
		for rel, field := range relFields[f] {
			want := effRel(s, f, rel)
			gotl := splitList(g(field))
			atomic.AddInt64(m.count, 1)
			if strings.Join(gotl, "\x00") != strings.Join(want, "\x00") {
				m.viol("relation/"+rel, map[string]any{"got": gotl, "want": want})
			}
		}
		if f == "deb" {
			if _, ok := p.MetaGet("Breaks"); ok && len(effRel(s, f, "breaks")) == 0 {
				m.viol("relation/breaks-present-unconfigured", map[string]any{})
			}
			// custom fields
			for _, k := range s.Deb.Fields.Keys {
				want := s.Deb.Fields.Vals[k]
				gotv, ok := p.MetaGet(k)
				atomic.AddInt64(m.count, 1)
				if want == "" && ok || want != "" && gotv != want {
					m.viol("custom-field", map[string]any{"key": k, "got": gotv, "present": ok, "want": want})
				}
			}
			// triggers
			var wantT []string
			for _, x := range []struct {
				d string
				l []string
			}{{"interest", s.Deb.Interest}, {"interest-await", s.Deb.InterestAwait}, {"interest-noawait", s.Deb.InterestNoAw},
				{"activate", s.Deb.Activate}, {"activate-await", s.Deb.ActivateAwait}, {"activate-noawait", s.Deb.ActivateNoAw}} {
				for _, t := range x.l {
					wantT = append(wantT, x.d+" "+t)
				}
			}
			var gotT []string
			for _, l := range strings.Split(string(p.Triggers), "\n") {
				if l != "" {
					gotT = append(gotT, l)
				}
			}
			sort.Strings(wantT)
			sort.Strings(gotT)
			atomic.AddInt64(m.count, 1)
			if strings.Join(gotT, "\n") != strings.Join(wantT, "\n") || (len(wantT) == 0) == p.HasCtrl["triggers"] {
				m.viol("triggers", map[string]any{"got": gotT, "want": wantT, "member_present": p.HasCtrl["triggers"]})
			}
		} else {
			optEq("abi-version", "ABIVersion", s.IPK.ABIVersion)
			var alts []string
			for _, a := range s.IPK.Alternatives {
				alts = append(alts, fmt.Sprintf("%d:%s:%s", a.Priority, a.LinkName, a.Target))
			}
			optEq("alternatives", "Alternatives", strings.Join(alts, ", "))
			optEq("tags", "Tags", strings.Join(s.IPK.Tags, ", "))
			ess, aut := "", ""
			if s.IPK.Essential {
				ess = "yes"
			}
			if s.IPK.AutoInstalled {
				aut = "yes"
			}
			optEq("essential", "Essential", ess)
			optEq("auto-installed", "Auto-Installed", aut)
			for _, k := range s.IPK.Fields.Keys {
				if strings.EqualFold(k, "Maintainer") {
					continue // disallowed custom field: the real Maintainer was compared above
				}
				want := s.IPK.Fields.Vals[k]
				gotv, ok := p.MetaGet(k)
				atomic.AddInt64(m.count, 1)
				if want == "" && ok || want != "" && gotv != want {
					m.viol("custom-field", map[string]any{"key": k, "got": gotv, "present": ok, "want": want})
				}
			}
			// exactly one Maintainer field
			nm := 0
			for _, fl := range p.Meta {
				if fl.Name == "Maintainer" {
					nm++
				}
			}
			if nm != 1 {
				m.viol("maintainer-field-count", map[string]any{"count": nm})
			}
		}
		// changelog extra (deb): changelog.Debian.gz carries every entry
		if f == "deb" && c != nil {
			e := p.Find("/usr/share/doc/" + s.Name + "/changelog.Debian.gz")
			atomic.AddInt64(m.count, 1)
			if (e != nil) != (s.Changelog != "") {
				m.viol("changelog-presence", map[string]any{"present": e != nil, "configured": s.Changelog != ""})
			} else if e != nil {
				txt, _, err := dec.Gunzip(e.Data)
				if err != nil {
					m.viol("changelog-not-gzip", map[string]any{"error": err.Error()})
				}
				for _, ce := range c.ChangelogEntries {
					if !bytes.Contains(txt, []byte(s.Name+" ("+ce.Semver+")")) {
						m.viol("changelog-entry-header", map[string]any{"semver": ce.Semver, "text": ev.Short(string(txt), 400)})
					}
					for _, n := range ce.Notes {
						if !bytes.Contains(txt, []byte(n)) {
							m.viol("changelog-note", map[string]any{"note": n})
						}
					}
				}
			}
		}
	case "rpm":
		h := p.Rpm.Hdr
		g := func(t int) string { x, _ := h.Str(t); return x }
		ver, rel := rpmVersion(v)
		m.eq("name", g(dec.RpmTagName), s.Name)
		m.eq("version", g(dec.RpmTagVersion), ver)
		m.eq("release", g(dec.RpmTagRelease), rel)
		ep := h.IntList(dec.RpmTagEpoch)
		atomic.AddInt64(m.count, 1)
		if v.Epoch == "" && len(ep) != 0 || v.Epoch != "" && (len(ep) != 1 || strconv.FormatInt(ep[0], 10) != v.Epoch) {
			m.viol("epoch", map[string]any{"got": ep, "want": v.Epoch})
		}
		m.eq("architecture", g(dec.RpmTagArch), wantArch)
		m.eq("platform", g(dec.RpmTagOS), platform)
		packager := s.RPM.Packager
		if packager == "" {
			packager = s.Maintainer
		}
		opt := func(field string, tag int, want string) {
			got, ok := h.Str(tag)
			if want == "" {
				atomic.AddInt64(m.count, 1)
				if ok && got != "" {
					m.viol(field+"-present-unconfigured", map[string]any{"got": got})
				}
				return
			}
			m.eq(field, got, want)
		}
		opt("packager", dec.RpmTagPackager, packager)
		opt("vendor", dec.RpmTagVendor, s.Vendor)
		opt("homepage", dec.RpmTagURL, s.Homepage)
		m.eq("license", g(dec.RpmTagLicense), s.License)
		opt("group", dec.RpmTagGroup, s.RPM.Group)
		m.eq("buildhost", g(dec.RpmTagBuildHost), s.RPM.BuildHost)
		sum := s.RPM.Summary
		if sum == "" {
			sum = strings.Split(desc, "\n")[0]
		}
		m.eq("summary", g(dec.RpmTagSummary), sum)
		gd := strings.Split(strings.TrimRight(g(dec.RpmTagDescription), "\n \t"), "\n")
		for i := range gd {
			gd[i] = strings.TrimSpace(gd[i])
		}
		m.eq("description-synopsis", gd[0], dl[0])
		m.eq("description-lines", strings.Join(gd, "\n"), strings.Join(dl, "\n"))
		atomic.AddInt64(m.count, 1)
		if got := h.StrList(dec.RpmTagPrefixes); strings.Join(got, "\x00") != strings.Join(s.RPM.Prefixes, "\x00") {
			m.viol("prefixes", map[string]any{"got": got, "want": s.RPM.Prefixes})
		}
		for rel, tags := range rpmRelTags {
			want := effRel(s, f, rel)
			names, vers, flags := h.StrList(tags[0]), h.StrList(tags[1]), h.IntList(tags[2])
			atomic.AddInt64(m.count, 1)
			if len(names) != len(vers) || len(names) != len(flags) {
				m.viol("relation-arrays/"+rel, map[string]any{"names": len(names), "versions": len(vers), "flags": len(flags)})
				continue
			}
			var got []string
			for i, n := range names {
				if n == s.Name && rel == "provides" || strings.HasPrefix(n, "rpmlib(") {
					continue // self-provide and rpmlib() requires are the tolerated extras
				}
				op := map[int64]string{0: "", 2: "<", 4: ">", 8: "=", 10: "<=", 12: ">="}[flags[i]&0xe]
				x := n
				if op != "" || vers[i] != "" {
					x = n + " " + op + " " + vers[i]
				}
				got = append(got, x)
			}
			if strings.Join(got, "\x00") != strings.Join(want, "\x00") {
				m.viol("relation/"+rel, map[string]any{"got": got, "want": want})
			}
		}
		// changelog tags
		if c != nil {
			times, titles, texts := h.IntList(dec.RpmTagChangelogTime), h.StrList(dec.RpmTagChangelogName), h.StrList(dec.RpmTagChangelogText)
			atomic.AddInt64(m.count, 1)
			if s.Changelog == "" {
				if len(times)+len(titles)+len(texts) != 0 {
					m.viol("changelog-present-unconfigured", map[string]any{})
				}
			} else if len(times) != len(c.ChangelogEntries) || len(titles) != len(times) || len(texts) != len(times) {
				m.viol("changelog-entry-count", map[string]any{"times": len(times), "titles": len(titles), "texts": len(texts), "want": len(c.ChangelogEntries)})
			} else {
				for i, ce := range c.ChangelogEntries {
					if times[i] != ce.Date || titles[i] != ce.Packager+" - "+ce.Semver || len(ce.Notes) > 0 && !strings.Contains(texts[i], ce.Notes[0]) {
						m.viol("changelog-entry", map[string]any{"i": i, "time": times[i], "title": titles[i], "text": texts[i], "want": ce})
					}
				}
			}
		}
	case "apk":
		g := func(k string) string { x, _ := p.MetaGet(k); return x }
		m.eq("name", g("pkgname"), s.Name)
		pv := g("pkgver")
		atomic.AddInt64(m.count, 1)
		wantPrefix := v.V
		if v.Pre != "" {
			wantPrefix += "_" + v.Pre
		}
		okv := strings.HasPrefix(pv, wantPrefix)
		rest := strings.TrimPrefix(pv, wantPrefix)
		if v.Rel != "" {
			r := v.Rel
			if !strings.HasPrefix(r, "r") {
				r = "r" + r
			}
			okv = okv && strings.HasPrefix(rest, "-"+r)
			rest = strings.TrimPrefix(rest, "-"+r)
		}
		if v.Meta != "" {
			okv = okv && strings.HasSuffix(rest, v.Meta) && strings.HasPrefix(rest, "-")
		} else {
			okv = okv && rest == ""
		}
		if !okv {
			m.viol("version", map[string]any{"got": pv, "parts": v})
		}
		m.eq("architecture", g("arch"), wantArch)
		optEq("maintainer", "maintainer", s.Maintainer)
		optEq("homepage", "url", s.Homepage)
		optEq("license", "license", s.License)
		m.eq("description-synopsis", strings.TrimSpace(strings.Split(g("pkgdesc"), "\n")[0]), dl[0])
		for rel, key := range relFields[f] {
			want := effRel(s, f, rel)
			got := dec.GetAll(p.Meta, key)
			atomic.AddInt64(m.count, 1)
			if strings.Join(got, "\x00") != strings.Join(want, "\x00") {
				m.viol("relation/"+rel, map[string]any{"got": got, "want": want})
			}
		}
	case "archlinux":
		g := func(k string) string { x, _ := p.MetaGet(k); return x }
		m.eq("name", g("pkgname"), s.Name)
		want := archVersion(v)
		cls := "version"
		if v.Pre != "" && v.Epoch == "" {
			cls = "version/prerelease-without-epoch"
		}
		m.eq(cls, g("pkgver"), want)
		m.eq("architecture", g("arch"), wantArch)
		optEq("homepage", "url", s.Homepage)
		optEq("license", "license", s.License)
		pb := s.ArchL.Pkgbase
		if pb == "" {
			pb = s.Name
		}
		m.eq("pkgbase", g("pkgbase"), pb)
		if s.ArchL.Packager != "" {
			m.eq("packager", g("packager"), s.ArchL.Packager)
		}
		m.eq("description-flattened", g("pkgdesc"), strings.ReplaceAll(desc, "\n", " "))
		for rel, key := range relFields[f] {
			want := effRel(s, f, rel)
			got := dec.GetAll(p.Meta, key)
			atomic.AddInt64(m.count, 1)
			if strings.Join(got, "\x00") != strings.Join(want, "\x00") {
				m.viol("relation/"+rel, map[string]any{"got": got, "want": want})
			}
		}
	}
}

// parseArchDoc reads the GOARCH tables from www/docs/goarch-to-pkg.md.
func parseArchDoc(repo string) (map[string]map[string]string, []string, error) {
	b, err := os.ReadFile(filepath.Join(repo, "www", "docs", "goarch-to-pkg.md"))
	if err != nil {
		return nil, nil, err
	}
	table := map[string]map[string]string{}
	all := map[string]bool{}
	cur := ""
	hdr := regexp.MustCompile("^## `([a-z]+)`")
	row := regexp.MustCompile("^\\| `([^`]+)` \\| `([^`]+)` \\|")
	for _, l := range strings.Split(string(b), "\n") {
		if m := hdr.FindStringSubmatch(l); m != nil {
			cur = m[1]
			table[cur] = map[string]string{}
			continue
		}
		if m := row.FindStringSubmatch(l); m != nil && cur != "" {
			table[cur][m[1]] = m[2]
			all[m[1]] = true
		}
	}
	var goarches []string
	for a := range all {
		goarches = append(goarches, a)
	}
	sort.Strings(goarches)
	return table, goarches, nil
}

func decodedArch(f string, p *dec.Package) string {
	switch f {
	case "deb", "ipk":
		x, _ := p.MetaGet("Architecture")
		return x
	case "rpm":
		x, _ := p.Rpm.Hdr.Str(dec.RpmTagArch)
		return x
	}
	x, _ := p.MetaGet("arch")
	return x
}

func c02(run *ev.Run, tier string) {
	n := ncases(150, 2000, tier)
	run.Rule = "part 1 (exhaustive): every GOARCH documented in www/docs/goarch-to-pkg.md (parsed at run time) plus two undocumented ones x 5 formats, and the format-specific arch override verbatim; part 2 (exhaustive): all 32 combinations of optional version components x 5 formats; part 3: generated metadata (unicode / multi-line / blank-line / whitespace-only-line descriptions, empty optional fields, relation lists of length 0..6 with constraints in the format's syntax via overrides, custom fields, triggers, ipk extras, rpm extras, changelog). Every field decoded from control / rpm header / .PKGINFO is compared with the configured value. Directed additions: relations and custom fields supplied through the environment, refused rpm relations at every list position, two relations on one package, a changelog rewritten in place (also with unchanged length and mtime), entries dated after 2038, folded custom fields, relocation prefixes as spelled, epochs with leading zeros. non-trivial = multi-line description and >=3 non-empty relation lists; distinct = feature/shape fingerprint; rpm epochs with leading zeros, homepages a URL library would re-encode, relations naming the package itself, a release of exactly 0, a description line beyond 1 MiB, good builds after failed ones"
	var cmps int64
	table, goarches, err := parseArchDoc(*flagRepo)
	if err != nil {
		run.Inconclusive("cannot read goarch-to-pkg.md: " + err.Error())
		return
	}
	for _, f := range formats {
		if len(table[f]) == 0 {
			run.Violate("C02/"+f+"/arch-table-undocumented", map[string]any{"doc": "www/docs/goarch-to-pkg.md has no table for " + f})
		}
	}
	dir := newWorkDir("c02")
	defer removeWorkDir(dir)
	payload := filepath.Join(dir, "p.txt")
	_ = os.WriteFile(payload, []byte("x\n"), 0o644)
	base := func() *gen.Spec {
		s := &gen.Spec{Name: "metapkg", Arch: "amd64", Version: "1.2.3", Maintainer: "M <m@example.com>", Description: "desc", MTime: 1600000000}
		s.RPM.BuildHost = "verif-host"
		s.Contents = []*gen.Content{{Src: payload, Dst: "/opt/metapkg/p.txt"}}
		return s
	}
	buildDecode := func(s *gen.Spec, f string, what any) *dec.Package {
		res := buildYAML(s.YAML(), f)
		if res.Err != nil || res.Panic != "" {
			run.Violate("C02/"+f+"/build-error", map[string]any{"case": what, "error": fmt.Sprint(res.Err, ev.Short(res.Panic, 300))})
			return nil
		}
		p := dec.Decode(f, res.Bytes, false)
		if len(p.Errs) > 0 {
			run.Violate("C02/"+f+"/undecodable", map[string]any{"case": what, "errors": p.Errs})
			return nil
		}
		return p
	}
	// part 1: architecture matrix
	archCells := 0
	for _, ga := range append(append([]string{}, goarches...), "riscv64", "loong64") {
		for _, f := range formats {
			s := base()
			s.Arch = ga
			archCells++
			run.Case("arch|"+ga+"|"+f, true)
			if p := buildDecode(s, f, "arch "+ga); p != nil {
				want := expectArch(table, f, ga)
				atomic.AddInt64(&cmps, 1)
				if got := decodedArch(f, p); got != want {
					run.Violate("C02/"+f+"/architecture-table", map[string]any{"goarch": ga, "got": got, "documented": want})
				}
			}
			// override verbatim - also when it is spelled like a GOARCH name of the table
			for _, ov := range []string{"custom_" + ga, goarches[(archCells*7)%len(goarches)], ga} {
				s = base()
				s.Arch = "amd64"
				if ov == ga {
					s.Arch = "386"
				}
				switch f {
				case "deb":
					s.Deb.Arch = ov
				case "rpm":
					s.RPM.Arch = ov
				case "apk":
					s.APK.Arch = ov
				case "ipk":
					s.IPK.Arch = ov
				case "archlinux":
					s.ArchL.Arch = ov
				}
				if p := buildDecode(s, f, "arch override "+ov); p != nil {
					atomic.AddInt64(&cmps, 1)
					if got := decodedArch(f, p); got != ov {
						run.Violate("C02/"+f+"/architecture-override", map[string]any{"goarch": s.Arch, "got": got, "want": ov})
					}
				}
			}
		}
	}
	run.Set("arch_matrix_cells", archCells)
	run.Set("documented_goarches", goarches)
	// part 1b: relation items that reach the configuration through the
	// environment, with the padding values read from files tend to have (blanks,
	// a trailing line break): the package carries the item, not the padding
	{
		s := base()
		s.Depends = []string{"${VERIF_DEP_A}", "literal-dep", "${VERIF_DEP_B}"}
		s.Provides = []string{"${VERIF_PROV}"}
		s.Conflicts = []string{"literal-foe", "${VERIF_FOE}"}
		envv := map[string]string{"VERIF_DEP_A": "  libpadded", "VERIF_DEP_B": "libtail \n", "VERIF_PROV": "\tvirt-x\t", "VERIF_FOE": "foe-y\r\n", "VERIF_FIELD": "from-the-mapping"}
		// custom fields: whatever is expanded is expanded with the caller's mapping;
		// the process environment says something else
		s.Deb.Fields.Set("X-From-Env", "${VERIF_FIELD}")
		s.IPK.Fields.Set("X-From-Env", "${VERIF_FIELD}")
		_ = os.Setenv("VERIF_FIELD", "from-the-process-environment")
		defer os.Unsetenv("VERIF_FIELD")
		want := map[string][]string{"depends": {"libpadded", "literal-dep", "libtail"}, "provides": {"virt-x"}, "conflicts": {"literal-foe", "foe-y"}}
		for _, f := range formats {
			run.Case("relations-through-environment|"+f, true)
			cfg, err := parseYAML(s.YAML(), func(k string) string { return envv[k] })
			if err != nil {
				run.Violate("C02/"+f+"/build-error", map[string]any{"case": "relations through the environment", "error": err.Error()})
				continue
			}
			info, err := infoFor(&cfg, f)
			if err != nil {
				run.Inconclusive(err.Error())
				continue
			}
			res := packageInfo(f, info)
			if res.Err != nil || res.Panic != "" {
				run.Violate("C02/"+f+"/build-error", map[string]any{"case": "relations through the environment", "error": fmt.Sprint(res.Err, ev.Short(res.Panic, 300))})
				continue
			}
			p := dec.Decode(f, res.Bytes, false)
			if len(p.Errs) > 0 {
				run.Violate("C02/"+f+"/undecodable", map[string]any{"case": "relations through the environment", "errors": p.Errs})
				continue
			}
			got := map[string][]string{}
			switch f {
			case "deb", "ipk":
				for rel, field := range map[string]string{"depends": "Depends", "provides": "Provides", "conflicts": "Conflicts"} {
					v, _ := p.MetaGet(field)
					got[rel] = splitList(v)
				}
			case "rpm":
				for rel, tag := range map[string]int{"depends": dec.RpmTagRequireName, "provides": dec.RpmTagProvideName, "conflicts": dec.RpmTagConflictName} {
					for _, n := range p.Rpm.Hdr.StrList(tag) {
						if !strings.HasPrefix(n, "rpmlib(") && n != s.Name && !strings.HasPrefix(n, s.Name+"(") {
							got[rel] = append(got[rel], n)
						}
					}
				}
			case "apk":
				got["depends"], got["provides"] = dec.GetAll(p.Meta, "depend"), dec.GetAll(p.Meta, "provides")
				got["conflicts"] = want["conflicts"] // no field of its own
			default:
				got["depends"], got["provides"], got["conflicts"] = dec.GetAll(p.Meta, "depend"), dec.GetAll(p.Meta, "provides"), dec.GetAll(p.Meta, "conflict")
			}
			if f == "deb" || f == "ipk" {
				atomic.AddInt64(&cmps, 1)
				if v, ok := p.MetaGet("X-From-Env"); !ok || (v != "from-the-mapping" && v != "${VERIF_FIELD}") {
					run.Violate("C02/"+f+"/custom-field-from-environment", map[string]any{"got": v, "present": ok, "mapping_says": "from-the-mapping"})
				}
			}
			for rel, w := range want {
				atomic.AddInt64(&cmps, 1)
				if strings.Join(got[rel], "|") != strings.Join(w, "|") {
					run.Violate("C02/"+f+"/relation-from-environment-not-trimmed/"+rel, map[string]any{"got": got[rel], "want": w})
				}
			}
		}
	}

	// part 1c: an rpm relation the rpm writer refuses (dpkg-only operators), at
	// every position of every list: the build fails, or the relation is in the
	// header - it is never left out silently
	for _, rel := range []string{"depends", "provides", "conflicts", "replaces", "recommends", "suggests"} {
		for pos := 0; pos < 3; pos++ {
			for _, bad := range []string{"badrel << 1.0", "badrel >> 2", "badrel == 3"} {
				items := []string{"ok-a", "ok-b"}
				items = append(items[:pos], append([]string{bad}, items[pos:]...)...)
				s := base()
				switch rel {
				case "depends":
					s.Depends = items
				case "provides":
					s.Provides = items
				case "conflicts":
					s.Conflicts = items
				case "replaces":
					s.Replaces = items
				case "recommends":
					s.Recommends = items
				case "suggests":
					s.Suggests = items
				}
				run.Case(fmt.Sprintf("rpm-refused-relation|%s|%d|%s", rel, pos, bad), true)
				res := buildYAML(s.YAML(), "rpm")
				if res.Err != nil || res.Panic != "" {
					continue // loud
				}
				p := dec.Decode("rpm", res.Bytes, false)
				if len(p.Errs) > 0 {
					run.Violate("C02/rpm/undecodable", map[string]any{"case": "refused relation", "errors": p.Errs})
					continue
				}
				tag := map[string]int{"depends": dec.RpmTagRequireName, "provides": dec.RpmTagProvideName, "conflicts": dec.RpmTagConflictName,
					"replaces": dec.RpmTagObsoleteName, "recommends": dec.RpmTagRecommendName, "suggests": dec.RpmTagSuggestName}[rel]
				names := p.Rpm.Hdr.StrList(tag)
				atomic.AddInt64(&cmps, 1)
				if indexOf(names, "badrel") < 0 {
					run.Violate("C02/rpm/relation-dropped-silently/"+rel, map[string]any{"list": items, "position": pos, "names_in_header": names})
				}
			}
		}
	}

	// part 1d: a version range is two relations on the same package: both reach
	// the metadata, in the order given
	for _, f := range formats {
		pair := map[string][]string{
			"deb": {"libc6 (>= 2.30)", "libc6 (<< 3)"}, "ipk": {"libc6 (>= 2.30)", "libc6 (<< 3)"},
			"rpm": {"glibc >= 2.30", "glibc < 3"}, "apk": {"musl>=1.2", "musl<2"}, "archlinux": {"glibc>=2.30", "glibc<3"},
		}[f]
		for _, rel := range []string{"depends", "provides", "conflicts", "replaces"} {
			if f == "apk" && rel == "conflicts" {
				continue
			}
			s := base()
			items := []string{"first-" + rel, pair[0], "middle-" + rel, pair[1]}
			switch rel {
			case "depends":
				s.Depends = items
			case "provides":
				s.Provides = items
			case "conflicts":
				s.Conflicts = items
			case "replaces":
				s.Replaces = items
			}
			run.Case("same-package-twice|"+rel+"|"+f, true)
			res := buildYAML(s.YAML(), f)
			if res.Err != nil || res.Panic != "" {
				continue // a format may refuse a constraint spelling: loud
			}
			p := dec.Decode(f, res.Bytes, false)
			if len(p.Errs) > 0 {
				run.Violate("C02/"+f+"/undecodable", map[string]any{"case": "same package twice", "errors": p.Errs})
				continue
			}
			var got []string
			switch f {
			case "deb", "ipk":
				v, _ := p.MetaGet(map[string]string{"depends": "Depends", "provides": "Provides", "conflicts": "Conflicts", "replaces": "Replaces"}[rel])
				got = splitList(v)
			case "rpm":
				tags := map[string][3]int{"depends": {dec.RpmTagRequireName, dec.RpmTagRequireVer, 0}, "provides": {dec.RpmTagProvideName, dec.RpmTagProvideVer, 0},
					"conflicts": {dec.RpmTagConflictName, dec.RpmTagConflictVer, 0}, "replaces": {dec.RpmTagObsoleteName, dec.RpmTagObsoleteVer, 0}}[rel]
				names, vers := p.Rpm.Hdr.StrList(tags[0]), p.Rpm.Hdr.StrList(tags[1])
				for k, n := range names {
					if n == "glibc" && k < len(vers) {
						got = append(got, n+" "+vers[k])
					}
				}
				atomic.AddInt64(&cmps, 1)
				if len(got) != 2 || got[0] != "glibc 2.30" || got[1] != "glibc 3" {
					run.Violate("C02/rpm/relation-on-same-package-merged-or-dropped/"+rel, map[string]any{"configured": items, "glibc_entries_in_header": got})
				}
				continue
			case "apk":
				got = dec.GetAll(p.Meta, map[string]string{"depends": "depend", "provides": "provides", "replaces": "replaces"}[rel])
			default:
				got = dec.GetAll(p.Meta, map[string]string{"depends": "depend", "provides": "provides", "conflicts": "conflict", "replaces": "replaces"}[rel])
			}
			atomic.AddInt64(&cmps, 1)
			if strings.Join(got, "|") != strings.Join(items, "|") {
				run.Violate("C02/"+f+"/relation-on-same-package-merged-or-dropped/"+rel, map[string]any{"configured": items, "in_package": got})
			}
		}
	}

	// part 1e: a changelog file that is rewritten in place between two builds of
	// the same process: the second package carries the new entries
	{
		chg := filepath.Join(dir, "rewritten-changelog.yaml")
		entry := func(ver, note string) string {
			return "- semver: \"" + ver + "\"\n  date: 2021-03-04T05:06:07Z\n  packager: \"P <p@example.com>\"\n  changes:\n    - note: \"" + note + "\"\n"
		}
		for _, f := range []string{"rpm", "deb", "rpm:same-length-same-second", "deb:same-length-same-second"} {
			sameShape := strings.Contains(f, ":")
			f = strings.SplitN(f, ":", 2)[0]
			stamp := time.Unix(1611111111, 0)
			_ = os.WriteFile(chg, []byte(entry("1.0.0", "first-entry-only-----------")+entry("0.9.0", "older")), 0o644)
			_ = os.Chtimes(chg, stamp, stamp)
			s := base()
			s.Changelog = chg
			first := buildDecode(s, f, "changelog before rewrite")
			if sameShape {
				// same byte length, same modification time: only the content differs
				_ = os.WriteFile(chg, []byte(entry("1.0.0", "added-after-the-first-build")+entry("0.9.0", "older")), 0o644)
				_ = os.Chtimes(chg, stamp, stamp)
			} else {
				_ = os.WriteFile(chg, []byte(entry("1.1.0", "added-after-the-first-build")+entry("1.0.0", "first-entry-only")), 0o644)
			}
			second := buildDecode(s, f, "changelog after rewrite")
			run.Case("changelog-rewritten-in-place|"+f+fmt.Sprint("|same-shape=", sameShape), true)
			if first == nil || second == nil {
				continue
			}
			var text string
			if f == "rpm" {
				text = strings.Join(second.Rpm.Hdr.StrList(dec.RpmTagChangelogText), "\n") + strings.Join(second.Rpm.Hdr.StrList(dec.RpmTagChangelogName), "\n")
			} else if e := second.Find("/usr/share/doc/" + s.Name + "/changelog.Debian.gz"); e != nil {
				if ms, err := dec.SplitGzip(e.Data); err == nil && len(ms) > 0 {
					text = string(ms[0].Data)
				}
			}
			atomic.AddInt64(&cmps, 1)
			if !strings.Contains(text, "added-after-the-first-build") {
				run.Violate("C02/"+f+"/changelog-stale-after-the-file-changed", map[string]any{"changelog_in_second_package": ev.Short(text, 300)})
			}
		}
	}
	// part 1e': changelog dates beyond 2038 fit rpm's unsigned 32 bit tag; an epoch
	// written with a leading zero is a decimal number
	{
		chg := filepath.Join(dir, "late-changelog.yaml")
		_ = os.WriteFile(chg, []byte("- semver: \"2.0.0\"\n  date: 2040-01-01T00:00:00Z\n  packager: \"P <p@example.com>\"\n  changes:\n    - note: \"late\"\n- semver: \"1.0.0\"\n  date: 2100-06-01T00:00:00Z\n  packager: \"P <p@example.com>\"\n  changes:\n    - note: \"later\"\n"), 0o644)
		s := base()
		s.Changelog = chg
		if p := buildDecode(s, "rpm", "changelog dated after 2038"); p != nil {
			run.Case("rpm-changelog-after-2038", true)
			atomic.AddInt64(&cmps, 1)
			got := p.Rpm.Hdr.IntList(dec.RpmTagChangelogTime)
			want := []int64{time.Date(2040, 1, 1, 0, 0, 0, 0, time.UTC).Unix(), time.Date(2100, 6, 1, 0, 0, 0, 0, time.UTC).Unix()}
			if len(got) != 2 || got[0] != want[0] || got[1] != want[1] {
				run.Violate("C02/rpm/changelog-time", map[string]any{"got": got, "want": want})
			}
		}
		for _, ep := range []string{"010", "08", "0012"} {
			s := base()
			s.Epoch = ep
			n, _ := strconv.Atoi(ep)
			if p := buildDecode(s, "archlinux", "epoch "+ep); p != nil {
				run.Case("archlinux-epoch-with-leading-zero|"+ep, true)
				atomic.AddInt64(&cmps, 1)
				if got, _ := p.MetaGet("pkgver"); !strings.HasPrefix(got, fmt.Sprintf("%d:", n)) {
					run.Violate("C02/archlinux/version/epoch-with-leading-zero", map[string]any{"epoch": ep, "pkgver": got, "want_prefix": fmt.Sprintf("%d:", n)})
				}
			}
			s = base()
			s.Epoch = ep
			if p := buildDecode(s, "rpm", "epoch "+ep); p != nil {
				run.Case("rpm-epoch-with-leading-zero|"+ep, true)
				atomic.AddInt64(&cmps, 1)
				if got := p.Rpm.Hdr.IntList(dec.RpmTagEpoch); len(got) != 1 || got[0] != int64(n) {
					run.Violate("C02/rpm/epoch-with-leading-zero", map[string]any{"epoch": ep, "header_epoch": got, "want": n})
				}
			}
		}
	}
	// part 1f: values with a shape of their own: a folded multi-line custom deb
	// field, relocation prefixes spelled with a trailing or doubled slash
	{
		s := base()
		s.Deb.Fields.Set("X-Folded", "first line\n second line\n  third, indented")
		if p := buildDecode(s, "deb", "folded custom field"); p != nil {
			run.Case("deb-folded-custom-field", true)
			atomic.AddInt64(&cmps, 1)
			if v, ok := p.MetaGet("X-Folded"); !ok || v != "first line\nsecond line\n third, indented" {
				run.Violate("C02/deb/custom-field/folded-value", map[string]any{"got": v, "present": ok, "configured": "first line\\n second line\\n  third, indented"})
			}
		}
		s = base()
		s.RPM.Prefixes = []string{"/opt/demo/", "/usr//local", "/srv/./x"}
		if p := buildDecode(s, "rpm", "prefixes as spelled"); p != nil {
			run.Case("rpm-prefixes-as-spelled", true)
			atomic.AddInt64(&cmps, 1)
			if got := p.Rpm.Hdr.StrList(dec.RpmTagPrefixes); strings.Join(got, "|") != strings.Join(s.RPM.Prefixes, "|") {
				run.Violate("C02/rpm/prefixes", map[string]any{"got": got, "want": s.RPM.Prefixes})
			}
		}
	}

	// part 2: all combinations of optional version components
	for mask := 0; mask < 32; mask++ {
		v := verParts{V: "4.5.6"}
		if mask&1 != 0 {
			v.Epoch = "2"
		}
		if mask&2 != 0 {
			v.Pre = "rc.1-x"
		}
		if mask&4 != 0 {
			v.Meta = "git.abc"
		}
		if mask&8 != 0 {
			v.Rel = "3"
		}
		schema := ""
		if mask&16 != 0 {
			schema = "none"
		}
		// versions that are taken verbatim keep their first character, also when
		// it is a 'v': under schema none, and when the string is not a semver
		versions := []string{"4.5.6", "v1.2.3.4"}
		if schema == "none" {
			versions = []string{"4.5.6", "v4.5.6", "v2024.10.02"}
		}
		for _, ver := range versions {
			v.V = ver
			for _, f := range formats {
				s := base()
				s.Version, s.Epoch, s.Prerelease, s.VersionMetadata, s.Release, s.VersionSchema = v.V, v.Epoch, v.Pre, v.Meta, v.Rel, schema
				what := fmt.Sprintf("version %s mask %05b", ver, mask)
				run.Case(fmt.Sprintf("version-combo|%s|%05b|%s", ver, mask, f), mask&14 != 0)
				if p := buildDecode(s, f, what); p != nil {
					checkMeta(metaCmp{run, f, what, &cmps}, s, v, p, expectArch(table, f, "amd64"), nil)
				}
			}
		}
	}
	// part 2b: text fields are data. A homepage is written as configured (no URL
	// normalisation or re-encoding), and a relation that names the package itself is a
	// relation like any other
	for _, hp := range []string{"HTTPS://Example.COM/p\u00e4th with space/#", "https://example.com/a|b^c`d{e}<f>\"g\"", "https://xn--bcher-kva.example/%7euser/../x"} {
		for _, f := range formats {
			s := base()
			s.Homepage = hp
			run.Case("homepage-as-written|"+hp+"|"+f, true)
			if p := buildDecode(s, f, "homepage "+hp); p != nil {
				var got string
				switch f {
				case "deb", "ipk":
					got, _ = p.MetaGet("Homepage")
				case "rpm":
					got, _ = p.Rpm.Hdr.Str(dec.RpmTagURL)
				default:
					got, _ = p.MetaGet("url")
				}
				atomic.AddInt64(&cmps, 1)
				if got != hp {
					run.Violate("C02/"+f+"/homepage-not-as-written", map[string]any{"configured": hp, "in_package": got})
				}
			}
		}
	}
	for _, f := range formats {
		s := base()
		s.Provides = []string{s.Name, "virtual-thing"}
		s.Replaces = []string{s.Name}
		run.Case("relation-naming-the-package-itself|"+f, true)
		p := buildDecode(s, f, "provides and replaces the package's own name")
		if p == nil {
			continue
		}
		for rel, want := range map[string][]string{"provides": s.Provides, "replaces": s.Replaces} {
			var got []string
			switch f {
			case "deb", "ipk":
				v, _ := p.MetaGet(map[string]string{"provides": "Provides", "replaces": "Replaces"}[rel])
				got = splitList(v)
			case "rpm":
				tags := map[string][2]int{"provides": {dec.RpmTagProvideName, dec.RpmTagProvideVer}, "replaces": {dec.RpmTagObsoleteName, dec.RpmTagObsoleteVer}}[rel]
				names, vers := p.Rpm.Hdr.StrList(tags[0]), p.Rpm.Hdr.StrList(tags[1])
				for k, n := range names {
					// the writer's own versioned self-provide is not a configured relation
					if k < len(vers) && vers[k] == "" {
						got = append(got, n)
					}
				}
			default:
				got = dec.GetAll(p.Meta, rel)
			}
			atomic.AddInt64(&cmps, 1)
			if strings.Join(got, "|") != strings.Join(want, "|") {
				run.Violate("C02/"+f+"/relation-naming-the-package-itself-dropped/"+rel, map[string]any{"configured": want, "in_package": got})
			}
		}
	}
	// a release of exactly 0 is a release: every format states it
	for _, f := range formats {
		s := base()
		s.Release = "0"
		run.Case("release-zero|"+f, true)
		if p := buildDecode(s, f, "release 0"); p != nil {
			var got string
			switch f {
			case "rpm":
				got, _ = p.Rpm.Hdr.Str(dec.RpmTagRelease)
				got = "-" + got
			case "apk", "archlinux":
				got, _ = p.MetaGet("pkgver")
			default:
				got, _ = p.MetaGet("Version")
			}
			atomic.AddInt64(&cmps, 1)
			if !strings.HasSuffix(got, map[string]string{"apk": "-r0"}[f]) || (f != "apk" && !strings.HasSuffix(got, "-0")) {
				run.Violate("C02/"+f+"/version/release-zero", map[string]any{"configured_release": "0", "in_package": got})
			}
		}
	}
	// a description with one line beyond a mebibyte: nothing after it is lost
	for _, f := range []string{"deb", "ipk"} {
		s := base()
		s.Description = "synopsis\n" + strings.Repeat("x", (1<<20)+4096) + "\nlast line of the description"
		run.Case("description-line-beyond-one-mebibyte|"+f, true)
		if p := buildDecode(s, f, "description line > 1 MiB"); p != nil {
			got, _ := p.MetaGet("Description")
			atomic.AddInt64(&cmps, 1)
			if !strings.Contains(got, "last line of the description") || strings.Count(got, "x") < (1<<20)+4096 {
				run.Violate("C02/"+f+"/description-truncated/line-beyond-one-mebibyte", map[string]any{"configured_bytes": len(s.Description), "in_package_bytes": len(got), "tail": ev.Short(got[max(0, len(got)-60):], 80)})
			}
		}
	}
	// part 2c: a build that failed half-way leaves nothing behind for the next one
	afterFailedBuilds(run, "C02", func(f string, raw []byte, p *dec.Package) []problem {
		var ps []problem
		for _, key := range map[string][]string{"deb": {"Package", "Version"}, "ipk": {"Package", "Version"}, "apk": {"pkgname", "pkgver"}, "archlinux": {"pkgname", "pkgver"}}[f] {
			if n := len(dec.GetAll(p.Meta, key)); n != 1 {
				ps = append(ps, problem{"metadata-field-count", fmt.Sprintf("%s appears %d times", key, n)})
			}
		}
		return ps
	})
	// part 3: generated metadata
	parallel(n, 8, func(i int) {
		if *flagOnly >= 0 && i != *flagOnly {
			return
		}
		root := newWorkDir("c02c")
		defer removeWorkDir(root)
		o := gen.Opts{NEntries: [2]int{1, 2}, Changelog: i%3 == 0}
		c, err := gen.New(uint64(run.Seed), i, root, o)
		if err != nil {
			run.Inconclusive(err.Error())
			return
		}
		r := rng.New(uint64(run.Seed)).Fork(uint64(1000003 + i))
		s := c.Spec
		v := genMeta(r, s, i)
		nrel := 0
		for _, l := range [][]string{s.Depends, s.Recommends, s.Suggests, s.Conflicts, s.Replaces, s.Provides} {
			if len(l) > 0 {
				nrel++
			}
		}
		shape := fmt.Sprintf("lines=%d rel=%d ov=%d pre=%v meta=%v rel=%v ep=%v chg=%v plat=%s deb.f=%d ipk=%v", len(strings.Split(s.Description, "\n")), nrel, len(s.Overrides), v.Pre != "", v.Meta != "", v.Rel != "", v.Epoch != "", s.Changelog != "", s.Platform, len(s.Deb.Fields.Keys), s.IPK.ABIVersion != "")
		run.Case(shape, strings.Contains(strings.TrimSpace(s.Description), "\n") && nrel >= 3)
		if i < 2 {
			run.Sample(map[string]any{"case": i, "yaml": ev.Short(s.YAML(), 1800)})
		}
		for _, f := range formats {
			if (f == "apk" || f == "archlinux") && s.Platform != "" && s.Platform != "linux" {
				continue // these packagers only build for linux
			}
			if p := buildDecode(s, f, i); p != nil {
				checkMeta(metaCmp{run, f, i, &cmps}, s, v, p, expectArch(table, f, s.Arch), c)
				if f == "deb" && (i%10 == 0 || tier == "thorough" && i%2 == 0) && have("dpkg-deb") {
					dpkgFieldCross(run, i, res2(s, f), p)
				}
			}
		}
	})
	// history: a configured rpm build host must not become the default of a later
	// package built in the same process (the default is the machine's host name)
	if hn, err := os.Hostname(); err == nil {
		for round := 0; round < 2; round++ {
			s1 := base()
			s1.RPM.BuildHost = fmt.Sprintf("configured-host-%d", round)
			_ = buildDecode(s1, "rpm", "buildhost history: configured")
			s2 := base()
			s2.RPM.BuildHost = ""
			run.Case(fmt.Sprintf("history|rpm-buildhost-default-after-configured|%d", round), true)
			if p := buildDecode(s2, "rpm", "buildhost history: default"); p != nil {
				got, _ := p.Rpm.Hdr.Str(dec.RpmTagBuildHost)
				atomic.AddInt64(&cmps, 1)
				if got != hn {
					run.Violate("C02/rpm/buildhost-default-after-configured-build", map[string]any{"got": got, "want_hostname": hn})
				}
			}
		}
	}
	// the command line tool with the packager guessed from the target's extension
	// must ship the same metadata (incl. the format's override block)
	if bin := nfpmBin(run); bin != "" {
		for i := 0; i < 6; i++ {
			root := newWorkDir("c02cli")
			c, err := gen.New(uint64(run.Seed), 500000+i, root, gen.Opts{NEntries: [2]int{1, 2}})
			if err != nil {
				run.Inconclusive(err.Error())
				continue
			}
			r := rng.New(uint64(run.Seed)).Fork(uint64(2000003 + i))
			s := c.Spec
			v := genMeta(r, s, i)
			s.Platform = ""
			for _, f := range []string{"deb", "rpm", "apk", "ipk"} { // make sure every format has an override block
				o := s.Overrides[f]
				if o == nil {
					o = &gen.Over{}
				}
				style := map[string]string{"deb": "deb", "ipk": "deb", "rpm": "rpm", "apk": "plain"}[f]
				for len(o.Depends) == 0 {
					o.Depends = genRelList(r, style)
				}
				s.SetOverride(f, o)
			}
			cfgp := filepath.Join(root, "nfpm.yaml")
			_ = os.WriteFile(cfgp, []byte(s.YAML()), 0o644)
			for _, f := range []string{"deb", "rpm", "apk", "ipk"} {
				tgt := filepath.Join(root, "out."+f)
				so, se, code, err := runCmd(nil, root, nil, bin, "package", "-f", cfgp, "-t", tgt)
				run.Case(fmt.Sprintf("cli-inferred-packager|%s|%d", f, i), true)
				if err != nil || code != 0 {
					run.Violate("C02/"+f+"/cli-build-failed", map[string]any{"case": i, "output": ev.Short(string(so)+string(se), 300)})
					continue
				}
				raw, _ := os.ReadFile(tgt)
				p := dec.Decode(f, raw, false)
				if len(p.Errs) > 0 {
					run.Violate("C02/"+f+"/undecodable", map[string]any{"case": "cli", "errors": p.Errs})
					continue
				}
				checkMeta(metaCmp{run, f, fmt.Sprintf("cli-inferred-%d", i), &cmps}, s, v, p, expectArch(table, f, s.Arch), c)
			}
			removeWorkDir(root)
		}
	}
	run.Set("field_comparisons", cmps)
	run.Set("external_readers", map[string]bool{"dpkg-deb": have("dpkg-deb")})
	run.Assume("a relation is demanded only where the format's metadata vocabulary has a field for it (deb all eight; ipk all but breaks; rpm requires/recommends/suggests/conflicts/obsoletes/provides; apk depend/replaces/provides; archlinux depend/conflict/replaces/provides)")
	run.Assume("archlinux pkgver cannot carry version metadata; apk pkgver is checked for presence and order of the components, not for an exact spelling of the metadata suffix")
	run.Assume("description lines consisting of a single '.' and lines with leading/trailing blanks are not generated (deb822 cannot represent them distinctly)")
}

func res2(s *gen.Spec, f string) []byte { return buildYAML(s.YAML(), f).Bytes }

// dpkgFieldCross reads a few fields back through dpkg-deb -f.
func dpkgFieldCross(run *ev.Run, i int, raw []byte, p *dec.Package) {
	dir := newWorkDir("c02-dpkg")
	defer removeWorkDir(dir)
	fn := filepath.Join(dir, "p.deb")
	if os.WriteFile(fn, raw, 0o644) != nil {
		return
	}
	for _, field := range []string{"Package", "Version", "Architecture", "Depends", "Description"} {
		so, se, code, err := runCmd(nil, dir, nil, "dpkg-deb", "-f", fn, field)
		if err != nil || code != 0 {
			run.Violate("C02/deb/dpkg-deb-field-read", map[string]any{"case": i, "field": field, "code": code, "stderr": ev.Short(string(se), 300)})
			return
		}
		want, _ := p.MetaGet(field)
		got := strings.TrimSuffix(string(so), "\n")
		// dpkg-deb prints continuation lines with their leading space
		got = strings.ReplaceAll(got, "\n ", "\n")
		if field == "Version" {
			// dpkg prints versions in normal form: an epoch of 0 is omitted
			want = strings.TrimPrefix(want, "0:")
		}
		if got != want {
			run.Violate("C02/deb/dpkg-deb-disagrees", map[string]any{"case": i, "field": field, "dpkg": ev.Short(got, 200), "harness": ev.Short(want, 200)})
		}
	}
}

func embed(v, pre, meta string) string {
	if pre != "" {
		v += "-" + pre
	}
	if meta != "" {
		v += "+" + meta
	}
	return v
}
