package main

import (
	"fmt"
	"path/filepath"

	"verifharness/internal/dec"
	"verifharness/internal/ev"
	"verifharness/internal/gen"
)

// built is one generated case packaged in every requested format.
type built struct {
	c    *gen.Case
	yaml string
	raw  map[string][]byte
	pkgs map[string]*dec.Package
	errs map[string]error
}

type caseCfg struct {
	prop    string
	n       int
	workers int
	opts    func(i int) gen.Opts
	tweak   func(i int, c *gen.Case) // adjust the spec before rendering
	formats []string
	useCLI  bool
	// buildErrOK says whether a build error is expected for this case/format
	// (then it is not reported and the format is skipped)
	buildErrOK func(c *gen.Case, f string, err error) bool
}

// forCases generates, builds and decodes cases in parallel and hands each to fn.
// Build failures and undecodable output of a valid configuration are reported
// as violations of the calling property (a package that cannot be built or
// read back ships nothing of what was declared).
func forCases(run *ev.Run, cc caseCfg, fn func(b *built)) {
	if cc.workers == 0 {
		cc.workers = 8
	}
	if cc.formats == nil {
		cc.formats = formats
	}
	parallel(cc.n, cc.workers, func(i int) {
		if *flagOnly >= 0 && i != *flagOnly {
			return
		}
		root := newWorkDir(cc.prop)
		defer removeWorkDir(root)
		c, err := gen.New(uint64(run.Seed), i, root, cc.opts(i))
		if err != nil {
			run.Inconclusive(fmt.Sprintf("case %d: generator: %v", i, err))
			return
		}
		if cc.tweak != nil {
			cc.tweak(i, c)
		}
		b := &built{c: c, yaml: c.Spec.YAML(), raw: map[string][]byte{}, pkgs: map[string]*dec.Package{}, errs: map[string]error{}}
		for _, f := range cc.formats {
			res := buildYAML(b.yaml, f)
			if res.Panic != "" {
				run.Violate(cc.prop+"/"+f+"/panic", map[string]any{"case": i, "panic": ev.Short(res.Panic, 800)})
				continue
			}
			if res.Err != nil {
				b.errs[f] = res.Err
				if cc.buildErrOK != nil && cc.buildErrOK(c, f, res.Err) {
					continue
				}
				run.Violate(cc.prop+"/"+f+"/build-error", map[string]any{"case": i, "error": res.Err.Error()})
				continue
			}
			b.raw[f] = res.Bytes
			b.pkgs[f] = dec.Decode(f, res.Bytes, cc.useCLI)
		}
		fn(b)
	})
}

// testKey returns the path of a key file shipped with the repository's tests.
func testKey(name string) string {
	return filepath.Join(*flagRepo, "internal", "sign", "testdata", name)
}
