package main

import (
	"fmt"
	"os"
	"path/filepath"
	"strings"

	"verifharness/internal/dec"
	"verifharness/internal/ev"
	"verifharness/internal/gen"
)

// built is one generated case packaged in every requested format.
type built struct {
	c    *gen.Case
	yaml string
	raw  map[string][]byte
	pkgs map[string]*dec.Package
	errs map[string]error
}

type caseCfg struct {
	prop    string
	n       int
	workers int
	opts    func(i int) gen.Opts
	tweak   func(i int, c *gen.Case) // adjust the spec before rendering
	formats []string
	useCLI  bool
	// buildErrOK says whether a build error is expected for this case/format
	// (then it is not reported and the format is skipped)
	buildErrOK func(c *gen.Case, f string, err error) bool
}

// forCases generates, builds and decodes cases in parallel and hands each to fn.
// Build failures and undecodable output of a valid configuration are reported
// as violations of the calling property (a package that cannot be built or
// read back ships nothing of what was declared).
func forCases(run *ev.Run, cc caseCfg, fn func(b *built)) {
	if cc.workers == 0 {
		cc.workers = 8
	}
	if cc.formats == nil {
		cc.formats = formats
	}
	parallel(cc.n, cc.workers, func(i int) {
		if *flagOnly >= 0 && i != *flagOnly {
			return
		}
		root := newWorkDir(cc.prop)
		defer removeWorkDir(root)
		c, err := gen.New(uint64(run.Seed), i, root, cc.opts(i))
		if err != nil {
			run.Inconclusive(fmt.Sprintf("case %d: generator: %v", i, err))
			return
		}
		if cc.tweak != nil {
			cc.tweak(i, c)
		}
		b := &built{c: c, yaml: c.Spec.YAML(), raw: map[string][]byte{}, pkgs: map[string]*dec.Package{}, errs: map[string]error{}}
		for _, f := range cc.formats {
			res := buildYAML(b.yaml, f)
			if res.Panic != "" {
				run.Violate(cc.prop+"/"+f+"/panic", map[string]any{"case": i, "panic": ev.Short(res.Panic, 800)})
				continue
			}
			if res.Err != nil {
				b.errs[f] = res.Err
				if cc.buildErrOK != nil && cc.buildErrOK(c, f, res.Err) {
					continue
				}
				run.Violate(cc.prop+"/"+f+"/build-error", map[string]any{"case": i, "error": res.Err.Error()})
				continue
			}
			b.raw[f] = res.Bytes
			b.pkgs[f] = dec.Decode(f, res.Bytes, cc.useCLI)
		}
		fn(b)
	})
}

// testKey returns the path of a key file shipped with the repository's tests.
func testKey(name string) string {
	return filepath.Join(*flagRepo, "internal", "sign", "testdata", name)
}

// mutateSources rewrites, in place, the bytes of up to max regular source
// files of the case (same path; same length for every other file, different
// length otherwise) and restores their mtimes. It models a second build in the
// same process after the sources changed: anything nfpm cached per source path
// would now be stale.
func mutateSources(c *gen.Case, max int) int {
	n := 0
	for _, nd := range c.Tree.Sorted() {
		if nd.Kind != "file" || !strings.HasPrefix(nd.Rel, "src/") {
			continue
		}
		p := c.Tree.Abs(nd.Rel)
		b, err := os.ReadFile(p)
		if err != nil {
			continue
		}
		nb := make([]byte, len(b))
		for i := range b {
			nb[i] = b[i] ^ 0x5a
		}
		if n%2 == 1 || len(nb) == 0 {
			nb = append(nb, []byte(fmt.Sprintf("changed-%d\n", n))...)
		}
		st, err := os.Stat(p)
		if err != nil {
			continue
		}
		_ = os.Chmod(p, 0o600)
		if err := os.WriteFile(p, nb, 0o600); err != nil {
			continue
		}
		_ = os.Chmod(p, nd.Perm)
		_ = os.Chtimes(p, st.ModTime(), st.ModTime())
		n++
		if n >= max {
			break
		}
	}
	return n
}

// rebuild packages the (possibly changed) case again in all its formats.
func rebuild(run *ev.Run, prop string, b *built, fmts []string, useCLI bool) *built {
	nb := &built{c: b.c, yaml: b.yaml, raw: map[string][]byte{}, pkgs: map[string]*dec.Package{}, errs: map[string]error{}}
	for _, f := range fmts {
		res := buildYAML(nb.yaml, f)
		if res.Panic != "" || res.Err != nil {
			run.Violate(prop+"/"+f+"/rebuild-error", map[string]any{"case": b.c.Index, "error": fmt.Sprint(res.Err, ev.Short(res.Panic, 300))})
			continue
		}
		nb.raw[f] = res.Bytes
		nb.pkgs[f] = dec.Decode(f, res.Bytes, useCLI)
	}
	return nb
}
