package main

import (
	"bytes"
	"fmt"
	"os"
	"path/filepath"
	"runtime"
	"sort"
	"strings"
	"time"

	"verifharness/internal/dec"
	"verifharness/internal/ev"
	"verifharness/internal/gen"
)

// built is one generated case packaged in every requested format.
type built struct {
	c    *gen.Case
	yaml string
	raw  map[string][]byte
	pkgs map[string]*dec.Package
	errs map[string]error
	// shared: all formats were built from one parsed configuration, in this order
	shared bool
	order  []string
}

type caseCfg struct {
	prop    string
	n       int
	workers int
	opts    func(i int) gen.Opts
	tweak   func(i int, c *gen.Case) // adjust the spec before rendering
	formats []string
	useCLI  bool
	// buildErrOK says whether a build error is expected for this case/format
	// (then it is not reported and the format is skipped)
	buildErrOK func(c *gen.Case, f string, err error) bool
}

// forCases generates, builds and decodes cases in parallel and hands each to fn.
// Build failures and undecodable output of a valid configuration are reported
// as violations of the calling property (a package that cannot be built or
// read back ships nothing of what was declared).
func forCases(run *ev.Run, cc caseCfg, fn func(b *built)) {
	if cc.workers == 0 {
		cc.workers = 8
	}
	if cc.formats == nil {
		cc.formats = formats
	}
	parallel(cc.n, cc.workers, func(i int) {
		if *flagOnly >= 0 && i != *flagOnly {
			return
		}
		root := newWorkDir(cc.prop)
		defer removeWorkDir(root)
		c, err := gen.New(uint64(run.Seed), i, root, cc.opts(i))
		if err != nil {
			run.Inconclusive(fmt.Sprintf("case %d: generator: %v", i, err))
			return
		}
		if cc.tweak != nil {
			cc.tweak(i, c)
		}
		b := &built{c: c, yaml: c.Spec.YAML(), raw: map[string][]byte{}, pkgs: map[string]*dec.Package{}, errs: map[string]error{}}
		order, shared, build := buildPlan(i, b.yaml, c.Spec, cc.formats)
		b.shared, b.order = shared, order
		for _, f := range order {
			res := build(f)
			if res.Panic != "" {
				run.Violate(cc.prop+"/"+f+"/panic", map[string]any{"case": i, "panic": ev.Short(res.Panic, 800)})
				continue
			}
			if res.Err != nil {
				b.errs[f] = res.Err
				if cc.buildErrOK != nil && cc.buildErrOK(c, f, res.Err) {
					continue
				}
				run.Violate(cc.prop+"/"+f+"/build-error", map[string]any{"case": i, "error": res.Err.Error(), "one_parsed_config": b.shared, "build_order": b.order})
				continue
			}
			b.raw[f] = res.Bytes
			b.pkgs[f] = dec.Decode(f, res.Bytes, cc.useCLI)
		}
		fn(b)
	})
}

// testKey returns the path of a key file shipped with the repository's tests.
func testKey(name string) string {
	return filepath.Join(*flagRepo, "internal", "sign", "testdata", name)
}

// mutateSources rewrites, in place, the bytes of up to max regular source
// files of the case (same path; same length for every other file, different
// length otherwise) and restores their mtimes. It models a second build in the
// same process after the sources changed: anything nfpm cached per source path
// would now be stale.
func mutateSources(c *gen.Case, max int) int {
	n := 0
	for _, nd := range c.Tree.Sorted() {
		if nd.Kind != "file" || !strings.HasPrefix(nd.Rel, "src/") {
			continue
		}
		p := c.Tree.Abs(nd.Rel)
		b, err := os.ReadFile(p)
		if err != nil {
			continue
		}
		nb := make([]byte, len(b))
		for i := range b {
			nb[i] = b[i] ^ 0x5a
		}
		if n%2 == 1 || len(nb) == 0 {
			nb = append(nb, []byte(fmt.Sprintf("changed-%d\n", n))...)
		}
		st, err := os.Stat(p)
		if err != nil {
			continue
		}
		_ = os.Chmod(p, 0o600)
		if err := os.WriteFile(p, nb, 0o600); err != nil {
			continue
		}
		_ = os.Chmod(p, nd.Perm)
		_ = os.Chtimes(p, st.ModTime(), st.ModTime())
		n++
		if n >= max {
			break
		}
	}
	return n
}

// rebuild packages the (possibly changed) case again in all its formats.
func rebuild(run *ev.Run, prop string, b *built, fmts []string, useCLI bool) *built {
	nb := &built{c: b.c, yaml: b.yaml, raw: map[string][]byte{}, pkgs: map[string]*dec.Package{}, errs: map[string]error{}}
	for _, f := range fmts {
		res := buildYAML(nb.yaml, f)
		if res.Panic != "" || res.Err != nil {
			run.Violate(prop+"/"+f+"/rebuild-error", map[string]any{"case": b.c.Index, "error": fmt.Sprint(res.Err, ev.Short(res.Panic, 300))})
			continue
		}
		nb.raw[f] = res.Bytes
		nb.pkgs[f] = dec.Decode(f, res.Bytes, useCLI)
	}
	return nb
}

// buildPlan decides how the formats of case i are built. Even cases: a fresh
// parse per format (what the command line tool does). Odd cases: ONE parsed
// configuration, settings obtained per format from it (what a library caller
// such as goreleaser does), in an order that varies with the case and that puts
// formats with an override block first for half of them - a format must get its
// own effective settings whatever was obtained or built from the configuration
// before. build may be called again for a format (a rebuild): in shared mode it
// obtains the settings anew from the same parsed configuration.
func buildPlan(i int, y string, spec *gen.Spec, fmts []string) (order []string, shared bool, build func(f string) buildResult) {
	order = fmts
	if i%2 == 1 {
		if cfg, err := parseYAML(y, nil); err == nil {
			k := (i / 2) % len(fmts)
			order = append(append([]string{}, fmts[k:]...), fmts[:k]...)
			if (i/2)%2 == 0 {
				var first, rest []string
				for _, f := range order {
					if spec.Overrides[f] != nil {
						first = append(first, f)
					} else {
						rest = append(rest, f)
					}
				}
				order = append(first, rest...)
			}
			return order, true, func(f string) buildResult {
				info, err := infoFor(&cfg, f)
				if err != nil {
					return buildResult{Err: fmt.Errorf("get: %w", err)}
				}
				return packageInfo(f, info)
			}
		}
	}
	return order, false, func(f string) buildResult { return buildYAML(y, f) }
}

// afterFailedBuilds: builds that fail half-way (a script that does not exist,
// a destination or link target no archive header can encode, a missing
// changelog) are followed by a good build in the same process: it equals the package built
// before the failures and passes the calling property's own monitor (check).
func afterFailedBuilds(run *ev.Run, prop string, check func(f string, raw []byte, p *dec.Package) []problem) {
	dir := newWorkDir(strings.ToLower(prop) + "f")
	defer removeWorkDir(dir)
	w := func(name, body string) string {
		p := filepath.Join(dir, name)
		_ = os.WriteFile(p, []byte(body), 0o644)
		mt := time.Unix(1300000000, 0)
		_ = os.Chtimes(p, mt, mt)
		return p
	}
	a, b, c := w("a.bin", strings.Repeat("first file\n", 300)), w("b.bin", strings.Repeat("second file\n", 500)), w("c.bin", "third\n")
	script := w("post.sh", "#!/bin/sh\necho post\n")
	mk := func() *gen.Spec {
		s := &gen.Spec{Name: "afterfail", Arch: "amd64", Version: "1.0.0", Maintainer: "A <a@example.com>", Description: "d", MTime: 1400000000}
		s.RPM.BuildHost = "verif-host"
		s.Contents = []*gen.Content{{Src: a, Dst: "/opt/af/a.bin"}, {Src: b, Dst: "/opt/af/b.bin"}, {Src: c, Dst: "/opt/af/c.bin"},
			{Type: "symlink", Src: "/opt/af/a.bin", Dst: "/opt/af/link"}}
		s.Scripts.PostInstall = script
		return s
	}
	good := mk().YAML()
	bads := map[string]string{}
	{
		s := mk()
		s.Scripts.PreRemove = filepath.Join(dir, "missing.sh")
		bads["missing-script"] = s.YAML()
		s = mk()
		s.Contents = append(s.Contents, &gen.Content{Src: c, Dst: "/opt/af/m\x00nul"})
		bads["nul-in-destination"] = s.YAML()
		s = mk()
		s.Contents = append(s.Contents, &gen.Content{Type: "symlink", Src: "/opt/af/t\x00nul", Dst: "/opt/af/zlink"})
		bads["nul-in-link-target"] = s.YAML()
		s = mk()
		s.Changelog = filepath.Join(dir, "missing-changelog.yaml")
		bads["missing-changelog"] = s.YAML()
	}
	var kinds []string
	for k := range bads {
		kinds = append(kinds, k)
	}
	sort.Strings(kinds)
	old := runtime.GOMAXPROCS(0)
	defer runtime.GOMAXPROCS(old)
	var n int64
	for _, f := range formats {
		base := buildYAML(good, f)
		if base.Err != nil || base.Panic != "" {
			run.Violate(prop+"/"+f+"/build-error", map[string]any{"history": "baseline", "error": fmt.Sprint(base.Err, base.Panic)})
			continue
		}
		for _, g := range []int{1, old} {
			runtime.GOMAXPROCS(g)
			for _, kind := range kinds {
				for rep := 0; rep < 2; rep++ {
					run.Case(fmt.Sprintf("after-failed-build|%s|%s|procs=%d|%d", f, kind, g, rep), true)
					failed := buildYAML(bads[kind], f) // fails where the format reads or encodes the bad part (or not at all)
					res := buildYAML(good, f)
					n++
					d := map[string]any{"failed_build": kind, "failed_build_error": fmt.Sprint(failed.Err), "gomaxprocs": g}
					if res.Err != nil || res.Panic != "" {
						d["error"] = fmt.Sprint(res.Err, res.Panic)
						run.Violate(prop+"/"+f+"/after-failed-build/build-error", d)
						continue
					}
					p := dec.Decode(f, res.Bytes, false)
					if len(p.Errs) > 0 {
						d["errors"] = p.Errs
						run.Violate(prop+"/"+f+"/after-failed-build/undecodable", d)
						continue
					}
					for _, pr := range check(f, res.Bytes, p) {
						d["detail"] = ev.Short(pr.detail, 500)
						run.Violate(prop+"/"+f+"/after-failed-build/"+pr.kind, d)
					}
					if !bytes.Equal(res.Bytes, base.Bytes) {
						run.Violate(prop+"/"+f+"/after-failed-build/differs-from-the-package-built-before", d)
					}
				}
			}
		}
		runtime.GOMAXPROCS(old)
	}
	run.Set("packages_built_after_failed_builds", n)
}
