package main

import (
	"bytes"
	"crypto/sha256"
	"encoding/json"
	"fmt"
	"io"
	"os"
	"os/exec"
	"path/filepath"
	"runtime/debug"
	"strconv"
	"strings"
	"sync"

	"github.com/goreleaser/nfpm/v2"
	_ "github.com/goreleaser/nfpm/v2/apk"
	_ "github.com/goreleaser/nfpm/v2/arch"
	_ "github.com/goreleaser/nfpm/v2/deb"
	"github.com/goreleaser/nfpm/v2/deprecation"
	_ "github.com/goreleaser/nfpm/v2/ipk"
	_ "github.com/goreleaser/nfpm/v2/rpm"

	"verifharness/internal/ev"
	"verifharness/internal/gen"
)

var formats = gen.Formats

// ---------------------------------------------------------------- work dirs

var (
	workMu   sync.Mutex
	workDirs []string
)

// newWorkDir creates a scratch directory outside /repo and /verif.
func newWorkDir(prefix string) string {
	base := os.Getenv("VERIF_TMP")
	if base == "" {
		base = os.TempDir()
	}
	d, err := os.MkdirTemp(base, "verif-"+prefix+"-")
	if err != nil {
		panic(err)
	}
	// resolve symlinks so that paths nfpm reports equal the ones we generate
	if r, err := filepath.EvalSymlinks(d); err == nil {
		d = r
	}
	workMu.Lock()
	workDirs = append(workDirs, d)
	workMu.Unlock()
	return d
}

func removeWorkDir(d string) {
	// tree sources may contain unreadable directories (0o700 is fine for root)
	_ = filepath.Walk(d, func(p string, fi os.FileInfo, err error) error {
		if err == nil && fi.IsDir() {
			_ = os.Chmod(p, 0o755)
		}
		return nil
	})
	_ = os.RemoveAll(d)
}

func cleanupAll() {
	workMu.Lock()
	defer workMu.Unlock()
	for _, d := range workDirs {
		removeWorkDir(d)
	}
	workDirs = nil
}

// ---------------------------------------------------------------- building packages

func noEnv(string) string { return "" }

// parseYAML parses a configuration document the way the CLI does.
func parseYAML(y string, env func(string) string) (nfpm.Config, error) {
	if env == nil {
		env = noEnv
	}
	return nfpm.ParseWithEnvMapping(strings.NewReader(y), env)
}

// infoFor mirrors internal/cmd/package.go: Get(format) then WithDefaults.
func infoFor(cfg *nfpm.Config, format string) (*nfpm.Info, error) {
	info, err := cfg.Get(format)
	if err != nil {
		return nil, err
	}
	return nfpm.WithDefaults(info), nil
}

type buildResult struct {
	Bytes []byte
	Err   error
	Panic string
}

// packageInfo runs Package under recover.
func packageInfo(format string, info *nfpm.Info) (res buildResult) {
	defer func() {
		if r := recover(); r != nil {
			res.Panic = fmt.Sprintf("%v\n%s", r, debug.Stack())
		}
	}()
	p, err := nfpm.Get(format)
	if err != nil {
		res.Err = err
		return
	}
	var buf bytes.Buffer
	res.Err = p.Package(info, &buf)
	res.Bytes = buf.Bytes()
	return
}

// buildYAML = parse + Get + WithDefaults + Package.
func buildYAML(y, format string) buildResult {
	cfg, err := parseYAML(y, nil)
	if err != nil {
		return buildResult{Err: fmt.Errorf("parse: %w", err)}
	}
	info, err := infoFor(&cfg, format)
	if err != nil {
		return buildResult{Err: fmt.Errorf("get: %w", err)}
	}
	return packageInfo(format, info)
}

// ---------------------------------------------------------------- misc helpers

func parallel(n, workers int, fn func(i int)) {
	if workers < 1 {
		workers = 1
	}
	var wg sync.WaitGroup
	ch := make(chan int)
	for w := 0; w < workers; w++ {
		wg.Add(1)
		go func() {
			defer wg.Done()
			for i := range ch {
				fn(i)
			}
		}()
	}
	for i := 0; i < n; i++ {
		ch <- i
	}
	close(ch)
	wg.Wait()
}

var (
	shaMu    sync.Mutex
	shaCache = map[string][32]byte{}
)

func fileSHA(p string) ([32]byte, int64, error) {
	b, err := os.ReadFile(p)
	if err != nil {
		return [32]byte{}, 0, err
	}
	return sha256.Sum256(b), int64(len(b)), nil
}

func have(tool string) bool {
	_, err := exec.LookPath(tool)
	return err == nil
}

func runCmd(stdin []byte, dir string, env []string, name string, args ...string) (stdout, stderr []byte, code int, err error) {
	cmd := exec.Command(name, args...)
	cmd.Dir = dir
	if env != nil {
		cmd.Env = env
	}
	if stdin != nil {
		cmd.Stdin = bytes.NewReader(stdin)
	}
	var o, e bytes.Buffer
	cmd.Stdout, cmd.Stderr = &o, &e
	err = cmd.Run()
	code = 0
	if err != nil {
		if ee, ok := err.(*exec.ExitError); ok {
			code = ee.ExitCode()
			err = nil
		} else {
			code = -1
		}
	}
	return o.Bytes(), e.Bytes(), code, err
}

// applyReplay reads a replay file and narrows the run to the recorded case.
func applyReplay(p string) {
	b, err := os.ReadFile(p)
	if err != nil {
		fmt.Fprintf(os.Stderr, "cannot read replay file: %v\n", err)
		os.Exit(2)
	}
	var r struct {
		Seed   int64  `json:"seed"`
		Tier   string `json:"tier"`
		Detail struct {
			Case *int `json:"case"`
		} `json:"detail"`
	}
	if err := json.Unmarshal(b, &r); err != nil {
		fmt.Fprintf(os.Stderr, "cannot parse replay file: %v\n", err)
		os.Exit(2)
	}
	os.Setenv("VERIF_SEED", strconv.FormatInt(r.Seed, 10))
	if *flagTier == "" {
		*flagTier = r.Tier
	}
	if r.Detail.Case != nil {
		*flagOnly = *r.Detail.Case
	}
}

// nfpmBin returns the path of the nfpm binary built by bin/check.sh.
func nfpmBin(run *ev.Run) string {
	p := *flagNfpm
	if p == "" {
		p = os.Getenv("VERIF_NFPM")
	}
	if p == "" {
		run.Inconclusive("no nfpm binary given (--nfpm / VERIF_NFPM); run through bin/check.sh")
		return ""
	}
	if _, err := os.Stat(p); err != nil {
		run.Inconclusive("nfpm binary missing: " + err.Error())
		return ""
	}
	return p
}

func ncases(quick, thorough int, tier string) int {
	if *flagCases > 0 {
		return *flagCases
	}
	if tier == "thorough" {
		return thorough
	}
	return quick
}

func oct(v int64) string { return "0" + strconv.FormatInt(v, 8) }

func init() {
	// the checks decide what the environment contains
	os.Unsetenv("SOURCE_DATE_EPOCH")
	deprecation.Noticer = io.Discard
}

// cliRebuildSmaller models a rebuild to the same target after the payload
// shrank: the command line tool first writes a package with a large payload to
// <target>, then one with a small payload to the same path (by explicit file
// target, and by conventional name inside a target directory). fn gets, per
// format, the bytes found at the target after the second build and the bytes
// of the same second build written to a fresh path.
func cliRebuildSmaller(run *ev.Run, bin, prop string, fn func(f, how string, atTarget, fresh []byte)) {
	dir := newWorkDir(strings.ToLower(prop) + "-clirebuild")
	defer removeWorkDir(dir)
	big, small := filepath.Join(dir, "big.bin"), filepath.Join(dir, "small.txt")
	blob := make([]byte, 600<<10)
	x := uint32(12345)
	for i := range blob { // incompressible enough for every compressor
		x = x*1664525 + 1013904223
		blob[i] = byte(x >> 24)
	}
	_ = os.WriteFile(big, blob, 0o644)
	_ = os.WriteFile(small, []byte("small payload\n"), 0o644)
	mk := func(src string) string {
		s := &gen.Spec{Name: "rebuilt", Arch: "amd64", Version: "1.0.0", Maintainer: "R <r@example.com>", Description: "d", MTime: 1500000000}
		s.RPM.BuildHost = "verif-host"
		s.Contents = []*gen.Content{{Src: src, Dst: "/opt/rebuilt/payload"}}
		return s.YAML()
	}
	cfgBig, cfgSmall := filepath.Join(dir, "big.yaml"), filepath.Join(dir, "small.yaml")
	_ = os.WriteFile(cfgBig, []byte(mk(big)), 0o644)
	_ = os.WriteFile(cfgSmall, []byte(mk(small)), 0o644)
	ext := map[string]string{"deb": ".deb", "rpm": ".rpm", "apk": ".apk", "ipk": ".ipk", "archlinux": ".pkg.tar.zst"}
	for _, f := range formats {
		for _, how := range []string{"file-target", "directory-target"} {
			run.Case("cli-rebuild-with-smaller-payload|"+f+"|"+how, true)
			outDir := filepath.Join(dir, f+"-"+how)
			freshDir := filepath.Join(dir, f+"-"+how+"-fresh")
			_ = os.MkdirAll(outDir, 0o755)
			_ = os.MkdirAll(freshDir, 0o755)
			target, freshTarget := filepath.Join(outDir, "out"+ext[f]), filepath.Join(freshDir, "out"+ext[f])
			if how == "directory-target" {
				target, freshTarget = outDir, freshDir
			}
			fail := false
			for _, step := range [][2]string{{cfgBig, target}, {cfgSmall, target}, {cfgSmall, freshTarget}} {
				so, se, code, err := runCmd(nil, dir, nil, bin, "package", "-f", step[0], "-p", f, "-t", step[1])
				if err != nil || code != 0 {
					run.Violate(prop+"/"+f+"/cli-build-failed", map[string]any{"how": how, "output": ev.Short(string(so)+string(se), 300)})
					fail = true
					break
				}
			}
			if fail {
				continue
			}
			read := func(d string) []byte {
				if how == "file-target" {
					b, _ := os.ReadFile(filepath.Join(d, "out"+ext[f]))
					return b
				}
				es, _ := os.ReadDir(d)
				if len(es) != 1 {
					return nil
				}
				b, _ := os.ReadFile(filepath.Join(d, es[0].Name()))
				return b
			}
			fn(f, how, read(outDir), read(freshDir))
		}
	}
}

// cliGuessedPackager drives the nfpm binary twice per format over one configuration
// whose per-format overrides carry scripts, contents (a config|noreplace file among
// them) and relations: once with the packager named (-p) and once with the packager
// left to be guessed from the target's extension. Both runs write the same target
// path one after the other, so whatever differs between the two packages comes from
// how the packager was selected.
func cliGuessedPackager(run *ev.Run, bin, prop string, fn func(f string, named, guessed []byte)) {
	dir := newWorkDir(strings.ToLower(prop) + "-cliguess")
	defer removeWorkDir(dir)
	w := func(name, body string, mode os.FileMode) string {
		p := filepath.Join(dir, name)
		_ = os.WriteFile(p, []byte(body), mode)
		return p
	}
	plain := w("plain.txt", "plain payload\n", 0o644)
	var y strings.Builder
	y.WriteString("name: guessed\narch: amd64\nversion: 1.2.3\nmaintainer: \"G <g@example.com>\"\ndescription: d\nmtime: 2017-07-14T02:40:00Z\n")
	y.WriteString("rpm:\n  buildhost: verif-host\n")
	y.WriteString("contents:\n  - src: " + plain + "\n    dst: /opt/guessed/plain.txt\n")
	y.WriteString("overrides:\n")
	for _, f := range formats {
		conf := w("conf-"+f+".conf", "setting = "+f+"\n", 0o640)
		extra := w("only-"+f+".txt", "only for "+f+"\n", 0o644)
		post := w("postinstall-"+f+".sh", "#!/bin/sh\necho post "+f+"\n", 0o755)
		pre := w("preremove-"+f+".sh", "#!/bin/sh\necho prerm "+f+"\n", 0o755)
		y.WriteString("  " + f + ":\n")
		y.WriteString("    depends:\n      - dep-of-" + f + "\n")
		y.WriteString("    scripts:\n      postinstall: " + post + "\n      preremove: " + pre + "\n")
		y.WriteString("    contents:\n")
		y.WriteString("      - src: " + plain + "\n        dst: /opt/guessed/plain.txt\n")
		y.WriteString("      - src: " + conf + "\n        dst: /etc/guessed/" + f + ".conf\n        type: config|noreplace\n        file_info:\n          mode: 0640\n")
		y.WriteString("      - src: " + extra + "\n        dst: /opt/guessed/only-" + f + ".txt\n")
	}
	cfg := w("nfpm.yaml", y.String(), 0o644)
	for _, f := range formats {
		run.Case("cli-packager-guessed-from-target-extension|"+f, true)
		target := filepath.Join(dir, "out."+f)
		var outs [2][]byte
		ok := true
		for k, args := range [][]string{{"package", "-f", cfg, "-p", f, "-t", target}, {"package", "-f", cfg, "-t", target}} {
			_ = os.Remove(target)
			so, se, code, err := runCmd(nil, dir, nil, bin, args...)
			if err != nil || code != 0 {
				run.Violate(prop+"/cli/"+f+"/build-failed/"+[]string{"packager-named", "packager-guessed-from-target-extension"}[k], map[string]any{"exit": code, "output": ev.Short(string(so)+string(se), 300)})
				ok = false
				break
			}
			outs[k], _ = os.ReadFile(target)
		}
		if ok {
			fn(f, outs[0], outs[1])
		}
	}
}
