package main

import (
	"bytes"
	"fmt"
	"os"
	"path/filepath"
	"reflect"
	"sort"
	"strings"
	"sync/atomic"
	"time"

	"github.com/goreleaser/nfpm/v2"

	"verifharness/internal/dec"
	"verifharness/internal/ev"
	"verifharness/internal/gen"
	"verifharness/internal/rng"
)

func init() { register("C11", "exploration", c11) }

// an operation of a C11 sequence: "validate", "name:<f>" or "package:<f>"
func c11Symbols() []string {
	syms := []string{"validate"}
	for _, f := range formats {
		syms = append(syms, "name:"+f)
	}
	for _, f := range formats {
		syms = append(syms, "package:"+f)
	}
	return syms
}

func permutations(xs []string) [][]string {
	if len(xs) <= 1 {
		return [][]string{append([]string{}, xs...)}
	}
	var out [][]string
	for i := range xs {
		rest := append(append([]string{}, xs[:i]...), xs[i+1:]...)
		for _, p := range permutations(rest) {
			out = append(out, append([]string{xs[i]}, p...))
		}
	}
	return out
}

// aliasingConfig generates a configuration that maximises sharing between the
// parsed configuration and the per-format settings.
func aliasingConfig(seed uint64, i int, root string) (*gen.Case, error) {
	o := gen.DefaultOpts()
	o.NEntries = [2]int{4, 8}
	o.Overrides = true
	o.Changelog = i%2 == 0
	c, err := gen.New(seed, i, root, o)
	if err != nil {
		return nil, err
	}
	r := rng.New(seed).Fork(uint64(110000 + i))
	s := c.Spec
	s.Arch = rng.Pick(r, []string{"arm7", "386", "arm64", "all", "amd64"}) // values every format translates differently
	// file_info on directory, symlink and ghost entries; a symlink whose source exists on the build host
	host := c.Tree.Add(&gen.Node{Rel: "src/hostfile.bin", Kind: "file", Perm: 0o640, MTime: 1111111111, Size: 4321, Seed: 5})
	_ = c.Tree.Materialize(root)
	s.Contents = append(s.Contents,
		&gen.Content{Type: "dir", Dst: "/var/lib/" + s.Name + "/alias-dir", FI: &gen.FI{Owner: "daemon"}},
		&gen.Content{Type: "symlink", Src: filepath.Join(root, host.Rel), Dst: "/usr/lib/" + s.Name + "/alias-link", FI: &gen.FI{Group: "adm"}},
		&gen.Content{Type: "ghost", Dst: "/var/log/" + s.Name + ".log", FI: &gen.FI{Owner: "syslog"}},
		// everything but the mode is declared: only the mode default is left to fill in
		&gen.Content{Type: "dir", Dst: "/var/lib/" + s.Name + "/alias-dir2", FI: &gen.FI{Owner: "daemon", Group: "daemon", MTime: 1222222222}},
		&gen.Content{Type: "symlink", Src: "/nonexistent-verif/alias", Dst: "/usr/lib/" + s.Name + "/alias-link2", FI: &gen.FI{Owner: "root", Group: "adm", MTime: 1222222223}},
		&gen.Content{Type: "ghost", Dst: "/var/log/" + s.Name + "-2.log", FI: &gen.FI{Owner: "syslog", Group: "adm", MTime: 1222222224}},
		&gen.Content{Type: "config", Src: filepath.Join(root, host.Rel), Dst: "/etc/" + s.Name + "/alias.conf", FI: &gen.FI{Owner: "root", Group: "adm"}},
		// nothing left to default: owner, group, mode and mtime are all declared
		&gen.Content{Type: "dir", Dst: "/var/lib/" + s.Name + "/alias-dir3", FI: &gen.FI{Owner: "daemon", Group: "daemon", Mode: 0o750, MTime: 1222222225}},
		// a symlink whose file_info leaves nothing to default (owner, group, mode and
		// a time before 1970), pointing at something that exists on the build host
		&gen.Content{Type: "symlink", Src: filepath.Join(root, host.Rel), Dst: "/usr/lib/" + s.Name + "/alias-link3", FI: &gen.FI{Owner: "root", Group: "adm", Mode: 0o777, MTime: -86400}},
		&gen.Content{Type: "symlink", Src: "/nonexistent-verif/y", Dst: "/usr/lib/" + s.Name + "/alias-link4", FI: &gen.FI{Owner: "root", Group: "adm", MTime: 4400000000}},
		// a tag no packager answers to: the entry is in no package
		&gen.Content{Src: filepath.Join(root, host.Rel), Dst: "/opt/" + s.Name + "/tagged-arch", Packager: "arch"},
		// destinations in the directories a usr-merged distribution symlinks
		&gen.Content{Src: filepath.Join(root, host.Rel), Dst: "/bin/" + s.Name + "-tool"},
		&gen.Content{Src: filepath.Join(root, host.Rel), Dst: "/sbin/" + s.Name + "-admin"},
		&gen.Content{Src: filepath.Join(root, host.Rel), Dst: "/lib64/" + s.Name + "/lib.so"},
		&gen.Content{Type: "symlink", Src: "/nonexistent-verif/x", Dst: "/lib/" + s.Name + "-link"},
	)
	if s.Changelog != "" {
		// entries listed oldest first and out of date order, one of them without
		// a date: whoever sorts or completes them must not do so in a list another
		// packager renders later
		body := ""
		for k, d := range []string{"2019-01-01T00:00:00Z", "2021-06-01T00:00:00Z", "", "2020-03-01T00:00:00Z", "2022-09-01T00:00:00Z"} {
			dl := ""
			if d != "" {
				dl = "  date: " + d + "\n"
			}
			body += fmt.Sprintf("- semver: \"0.%d.0\"\n%s  packager: \"P%d <p%d@example.com>\"\n  changes:\n    - note: \"entry %d\"\n", k+1, dl, k, k, k)
		}
		// an entry addressed to rpm at the path where deb puts its own changelog
		s.Contents = append(s.Contents, &gen.Content{Src: filepath.Join(root, host.Rel), Dst: "/usr/share/doc/" + s.Name + "/changelog.Debian.gz", Packager: "rpm"})
		if st, err := os.Stat(s.Changelog); err == nil {
			_ = os.WriteFile(s.Changelog, []byte(body), 0o644)
			_ = os.Chtimes(s.Changelog, st.ModTime(), st.ModTime())
		}
	}
	// per-format umasks: a mode frozen by one format would show up in another
	for k, f := range formats {
		ov := s.Overrides[f]
		if ov == nil {
			if k%2 == i%2 {
				continue // formats without an override block are part of the mix (which ones varies with the configuration)
			}
			ov = &gen.Over{}
		}
		ov.Umask = []int64{0o077, 0o027, 0o022, 0o007, 0o037}[k]
		s.SetOverride(f, ov)
	}
	s.Contents = append(s.Contents,
		&gen.Content{Type: "config|noreplace", Src: filepath.Join(root, host.Rel), Dst: "/etc/" + s.Name + "/noreplace.conf"},
		&gen.Content{Type: "config|missingok", Src: filepath.Join(root, host.Rel), Dst: "/etc/" + s.Name + "/missingok.conf"},
	)
	if i%2 == 1 {
		// no override block for ipk at all in these configurations (its settings
		// then come straight from the base)
		delete(s.Overrides, "ipk")
		var keep []string
		for _, f := range s.OverrideOrder {
			if f != "ipk" {
				keep = append(keep, f)
			}
		}
		s.OverrideOrder = keep
	}
	s.Depends = []string{"zeta", "zeta", "alpha", "mid >= 1.0", "paren (>= 1.2)", "dbl  (>= 1.0)", "tab\t(>= 2)", "alpha2", "alpha"} // unsorted, with duplicates that are not last, both relation spellings, runs of white space
	s.Provides = []string{"prov-b", "prov-b", "prov-a", "prov-c"}
	s.Conflicts = []string{"c2", "c2", "c1", "c3"}
	s.Recommends = []string{"r9", "r1"}
	s.Suggests = []string{"s9", "s1"}
	s.Replaces = []string{"old-z", "old-z", s.Name, "old-a", "old-b"} // the package's own name is an ordinary item
	s.RPM.Prefixes = []string{"/opt", "/opt", "/usr/local", "/srv"}   // adjacent duplicates are shipped as given
	for k := 0; k < 4; k++ {
		s.Deb.Fields.Set(fmt.Sprintf("X-Alias-%d", k), "v")
		s.IPK.Fields.Set(fmt.Sprintf("X-Alias-%d", k), "v")
	}
	s.IPK.Fields.Set("Maintainer", "disallowed field, stripped by ipk")
	s.Deb.Sig.KeyID = ""
	if i%3 != 2 {
		s.Prerelease, s.VersionMetadata = "beta-1", "git.abc"
	}
	if i%2 == 0 {
		s.Epoch = "2"
	}
	return c, nil
}

type c11Env struct {
	// mutate is applied to every freshly parsed configuration: settings a
	// library caller can hand to nfpm but the YAML parser would have normalised
	// (blank items inside relation lists)
	mutate   func(cfg *nfpm.Config)
	yaml     string
	baseline map[string][]byte
	names    map[string]string
	snap     map[string]*nfpm.Info
}

func (e *c11Env) parse() (nfpm.Config, error) {
	cfg, err := parseYAML(e.yaml, nil)
	if err == nil && e.mutate != nil {
		e.mutate(&cfg)
	}
	return cfg, err
}

func (e *c11Env) build(f string) buildResult {
	cfg, err := e.parse()
	if err != nil {
		return buildResult{Err: err}
	}
	info, err := infoFor(&cfg, f)
	if err != nil {
		return buildResult{Err: err}
	}
	return packageInfo(f, info)
}

func c11Baseline(run *ev.Run, y string, mutate func(cfg *nfpm.Config)) *c11Env {
	e := &c11Env{yaml: y, mutate: mutate, baseline: map[string][]byte{}, names: map[string]string{}, snap: map[string]*nfpm.Info{}}
	for _, f := range formats {
		res := e.build(f)
		if res.Err != nil || res.Panic != "" {
			run.Violate("C11/"+f+"/build-error", map[string]any{"error": fmt.Sprint(res.Err, ev.Short(res.Panic, 300))})
			return nil
		}
		e.baseline[f] = res.Bytes
		// determinism is a precondition of the byte comparison
		if r2 := e.build(f); !bytes.Equal(r2.Bytes, res.Bytes) {
			run.Inconclusive("baseline build of " + f + " is not deterministic; C11 cannot compare bytes")
			return nil
		}
		cfg, _ := e.parse()
		info, err := cfg.Get(f)
		if err != nil {
			run.Inconclusive(err.Error())
			return nil
		}
		e.snap[f] = info
		cfg2, _ := e.parse()
		i2, _ := infoFor(&cfg2, f)
		p, _ := nfpm.Get(f)
		e.names[f] = p.ConventionalFileName(i2)
	}
	return e
}

// runSequence executes one operation sequence on one parsed configuration.
// reuseNamed: a packaging that follows a file-name request for the same format
// uses the very settings object the name was asked for (what the command line
// tool and goreleaser do); otherwise every operation obtains fresh settings.
func runSequence(run *ev.Run, e *c11Env, ci int, seq []string, ops, compared *int64, reuseNamed bool) {
	named := map[string]*nfpm.Info{}
	cfg, err := e.parse()
	if err != nil {
		run.Inconclusive(err.Error())
		return
	}
	detail := func() map[string]any {
		return map[string]any{"config": ci, "sequence": strings.Join(seq, " "), "package_reuses_named_settings": reuseNamed}
	}
	for k, op := range seq {
		atomic.AddInt64(ops, 1)
		switch {
		case op == "validate":
			if err := cfg.Validate(); err != nil {
				d := detail()
				d["error"] = err.Error()
				run.Violate("C11/validate-fails-in-sequence", d)
				return
			}
		case strings.HasPrefix(op, "name:"):
			f := strings.TrimPrefix(op, "name:")
			info, err := infoFor(&cfg, f)
			if err != nil {
				run.Inconclusive(err.Error())
				return
			}
			p, _ := nfpm.Get(f)
			if reuseNamed {
				named[f] = info
			}
			if got := p.ConventionalFileName(info); got != e.names[f] {
				d := detail()
				d["step"], d["got"], d["fresh"] = k, got, e.names[f]
				run.Violate("C11/"+f+"/file-name-differs-in-sequence", d)
			}
		default:
			f := strings.TrimPrefix(op, "package:")
			info, err := infoFor(&cfg, f)
			if err != nil {
				run.Inconclusive(err.Error())
				return
			}
			if ni := named[f]; ni != nil {
				info = ni
				delete(named, f)
			}
			res := packageInfo(f, info)
			atomic.AddInt64(compared, 1)
			if res.Err != nil || res.Panic != "" {
				d := detail()
				d["step"], d["error"] = k, fmt.Sprint(res.Err, ev.Short(res.Panic, 200))
				run.Violate("C11/"+f+"/package-fails-in-sequence/after-"+prevKind(seq, k), d)
				return
			}
			if !bytes.Equal(res.Bytes, e.baseline[f]) {
				d := detail()
				d["step"] = k
				d["len"], d["fresh_len"] = len(res.Bytes), len(e.baseline[f])
				run.Violate("C11/"+f+"/bytes-differ-from-fresh-parse/after-"+prevKind(seq, k), d)
			}
		}
	}
	// the effective settings the configuration yields afterwards are unchanged
	for _, f := range formats {
		info, err := cfg.Get(f)
		if err != nil {
			run.Inconclusive(err.Error())
			return
		}
		if diff := firstDiff(reflect.ValueOf(e.snap[f]), reflect.ValueOf(info), "Info"); diff != "" {
			d := detail()
			d["format"], d["difference"] = f, diff
			run.Violate("C11/"+f+"/settings-changed-by-sequence/"+diffField(diff), d)
		}
	}
}

func prevKind(seq []string, k int) string {
	if k == 0 {
		return "nothing"
	}
	return strings.ReplaceAll(seq[k-1], ":", "-")
}

func diffField(d string) string {
	// "Info.Overridables.Contents[3].FileInfo.Mode: ..." -> a stable, index-free key
	f := strings.SplitN(d, ":", 2)[0]
	var b strings.Builder
	skip := false
	for _, c := range f {
		switch {
		case c == '[':
			skip = true
		case c == ']':
			skip = false
			b.WriteString("[]")
		case !skip:
			b.WriteRune(c)
		}
	}
	return b.String()
}

// firstDiff is a reflective deep comparison that ignores function values and
// reports the path of the first difference.
func firstDiff(a, b reflect.Value, path string) string {
	if a.IsValid() != b.IsValid() {
		return path + ": one side invalid"
	}
	if !a.IsValid() {
		return ""
	}
	if a.Type() != b.Type() {
		return path + ": type differs"
	}
	switch a.Kind() {
	case reflect.Func:
		return ""
	case reflect.Ptr, reflect.Interface:
		if a.IsNil() != b.IsNil() {
			return fmt.Sprintf("%s: nil=%v vs nil=%v", path, a.IsNil(), b.IsNil())
		}
		if a.IsNil() {
			return ""
		}
		return firstDiff(a.Elem(), b.Elem(), path)
	case reflect.Struct:
		if ta, ok := a.Interface().(time.Time); ok {
			if tb := b.Interface().(time.Time); !ta.Equal(tb) {
				return fmt.Sprintf("%s: %v vs %v", path, ta, tb)
			}
			return ""
		}
		for i := 0; i < a.NumField(); i++ {
			if a.Type().Field(i).PkgPath != "" {
				continue // unexported
			}
			if d := firstDiff(a.Field(i), b.Field(i), path+"."+a.Type().Field(i).Name); d != "" {
				return d
			}
		}
		return ""
	case reflect.Slice, reflect.Array:
		if a.Kind() == reflect.Slice && (a.Len() == 0) != (b.Len() == 0) || a.Len() != b.Len() {
			return fmt.Sprintf("%s: length %d vs %d", path, a.Len(), b.Len())
		}
		for i := 0; i < a.Len(); i++ {
			if d := firstDiff(a.Index(i), b.Index(i), fmt.Sprintf("%s[%d]", path, i)); d != "" {
				return d
			}
		}
		return ""
	case reflect.Map:
		if a.Len() != b.Len() {
			return fmt.Sprintf("%s: map size %d vs %d", path, a.Len(), b.Len())
		}
		for _, k := range a.MapKeys() {
			bv := b.MapIndex(k)
			if !bv.IsValid() {
				return fmt.Sprintf("%s[%v]: missing", path, k)
			}
			if d := firstDiff(a.MapIndex(k), bv, fmt.Sprintf("%s[%v]", path, k)); d != "" {
				return d
			}
		}
		return ""
	default:
		if a.CanInterface() && b.CanInterface() && !reflect.DeepEqual(a.Interface(), b.Interface()) {
			return fmt.Sprintf("%s: %v vs %v", path, a.Interface(), b.Interface())
		}
		return ""
	}
}

func c11(run *ev.Run, tier string) {
	ncfg := ncases(3, 25, tier)
	maxLen := 2
	nrandom := 0
	if tier == "thorough" {
		maxLen, nrandom = 3, 2000
	}
	run.Rule = fmt.Sprintf("per generated aliasing-rich configuration (file_info on dir/symlink/ghost, symlink source existing on the build host, per-format umask overrides, override content lists with per-packager entries, unsorted relation lists, custom field maps incl. a disallowed ipk field, changelog, arch values every format translates): ALL operation sequences of length <= %d over {validate, name(f), package(f)} (11 symbols), all 120 orders of the five packagings, and %d random length-5 sequences, each on a freshly parsed configuration. Every package produced inside a sequence must be byte-identical to the one built from a fresh parse, and Config.Get(f) for every f after the sequence must deep-equal (function values excluded) the one of a fresh parse. Directed scenarios: a configuration that collides for exactly one format (validate / name / package of it first, then the others), platform other than linux with the name asked once or twice before packaging, settings one format refuses packaged after a file-name request. non-trivial = sequence with >=1 packaging preceded by another operation; distinct = (config, sequence)", maxLen, nrandom)
	run.Rule += "; validate-or-build, change the set of files behind a glob / directory source, build again (file system and a fresh process as references); the nfpm binary over a larger older package"
	run.SetExhaustive(true)
	syms := c11Symbols()
	var seqs [][]string
	var rec func(prefix []string)
	rec = func(prefix []string) {
		if len(prefix) > 0 {
			seqs = append(seqs, append([]string{}, prefix...))
		}
		if len(prefix) == maxLen {
			return
		}
		for _, s := range syms {
			rec(append(prefix, s))
		}
	}
	rec(nil)
	var pk []string
	for _, f := range formats {
		pk = append(pk, "package:"+f)
	}
	seqs = append(seqs, permutations(pk)...)
	nfixed := len(seqs)
	var ops, compared, nseq int64
	for ci := 0; ci < ncfg; ci++ {
		root := newWorkDir("c11")
		c, err := aliasingConfig(uint64(run.Seed), ci, root)
		if err != nil {
			run.Inconclusive(err.Error())
			removeWorkDir(root)
			continue
		}
		y := c.Spec.YAML()
		if ci == 0 {
			run.Sample(map[string]any{"config": ci, "yaml": ev.Short(y, 2500)})
		}
		var mutate func(cfg *nfpm.Config)
		if ci%3 == 1 {
			mutate = func(cfg *nfpm.Config) {
				cfg.Provides = []string{"prov-b", "  ", "prov-a", "", "prov-c"}
				cfg.Deb.Predepends = []string{"pd1", " ", "pd2"}
			}
		}
		e := c11Baseline(run, y, mutate)
		if e == nil {
			removeWorkDir(root)
			continue
		}
		all := seqs[:nfixed:nfixed]
		r := rng.New(uint64(run.Seed)).Fork(uint64(5000 + ci))
		for k := 0; k < nrandom; k++ {
			var s []string
			for j := 0; j < 5; j++ {
				s = append(s, rng.Pick(r, syms))
			}
			all = append(all, s)
		}
		parallel(len(all), 8, func(si int) {
			seq := all[si]
			nontriv := false
			for k, op := range seq {
				if k > 0 && strings.HasPrefix(op, "package:") {
					nontriv = true
				}
			}
			run.Case(fmt.Sprintf("%d|%s", ci, strings.Join(seq, " ")), nontriv)
			atomic.AddInt64(&nseq, 1)
			runSequence(run, e, ci, seq, &ops, &compared, false)
			hasName := false
			for _, op := range seq {
				if strings.HasPrefix(op, "name:") {
					hasName = true
				}
			}
			if hasName {
				runSequence(run, e, ci, seq, &ops, &compared, true)
			}
		})
		if ci == 0 {
			run.Sample(map[string]any{"sequences": []string{strings.Join(all[13], " "), strings.Join(all[100], " "), strings.Join(all[nfixed-1], " ")}})
		}
		removeWorkDir(root)
	}
	c11OneFormatFails(run, &ops, &compared)
	c11OtherPlatform(run, &ops, &compared)
	c11NameThenPackageOfInvalidSettings(run, &ops)
	c11MatchSetHistory(run, &ops, &compared)
	run.Set("sequences_executed", nseq)
	run.Set("operations_executed", ops)
	run.Set("packages_compared_with_fresh_parse", compared)
	run.Set("sequence_space", map[string]any{"symbols": len(syms), "max_length": maxLen, "exhaustive_sequences": nfixed - 120, "packaging_orders": 120, "random_length_5": nrandom})
	run.Assume("builds are deterministic for a fixed mtime/build host (checked for every baseline; C07 covers it in depth)")
}

// c11OneFormatFails: a configuration that is fine for four formats and collides
// for one (an entry tagged for that packager occupies a path a glob entry also
// produces). Validating, naming or packaging the failing format reports the
// collision - and leaves no trace: every other format is byte-identical to its
// fresh-parse build afterwards and the configuration yields the same settings.
func c11OneFormatFails(run *ev.Run, ops, compared *int64) {
	dir := newWorkDir("c11f")
	defer removeWorkDir(dir)
	confd := filepath.Join(dir, "conf.d")
	_ = os.MkdirAll(confd, 0o755)
	mt := time.Unix(1300000000, 0)
	for _, n := range []string{"a.conf", "b.conf", "c.conf"} {
		_ = os.WriteFile(filepath.Join(confd, n), []byte(n+"\n"), 0o644)
		_ = os.Chtimes(filepath.Join(confd, n), mt, mt)
	}
	single := filepath.Join(dir, "single.conf")
	_ = os.WriteFile(single, []byte("single\n"), 0o644)
	for _, bad := range formats {
		for _, globDst := range []string{"/etc/foo/", "/etc/foo"} {
			s := &gen.Spec{Name: "onefails", Arch: "amd64", Version: "1.0.0", Maintainer: "O <o@example.com>", Description: "d", MTime: 1400000000}
			s.RPM.BuildHost = "verif-host"
			s.Contents = []*gen.Content{
				{Src: single, Dst: "/etc/foo/a.conf", Packager: bad},
				{Src: confd + "/*.conf", Dst: globDst, Type: "config"},
				{Src: confd, Dst: "/usr/share/onefails/conf.d"},
			}
			y := s.YAML()
			fresh := map[string][]byte{}
			snap := map[string]*nfpm.Info{}
			ok := true
			for _, f := range formats {
				res := buildYAML(y, f)
				if f == bad {
					if res.Err == nil {
						ok = false // no collision for this shape: nothing to learn
					}
					continue
				}
				if res.Err != nil || res.Panic != "" {
					run.Violate("C11/"+f+"/build-error", map[string]any{"config": "one format fails", "error": fmt.Sprint(res.Err, res.Panic)})
					ok = false
					continue
				}
				fresh[f] = res.Bytes
				if cfg, err := parseYAML(y, nil); err == nil {
					snap[f], _ = cfg.Get(f)
				}
			}
			if !ok {
				continue
			}
			for _, first := range []string{"validate", "name", "package"} {
				cfg, err := parseYAML(y, nil)
				if err != nil {
					run.Inconclusive(err.Error())
					continue
				}
				run.Case(fmt.Sprintf("one-format-fails|%s|%s|%s", bad, globDst, first), true)
				*ops++
				switch first {
				case "validate":
					_ = cfg.Validate()
				case "name":
					if info, err := infoFor(&cfg, bad); err == nil {
						if p, err := nfpm.Get(bad); err == nil {
							_ = p.ConventionalFileName(info)
						}
						_ = packageInfo(bad, info)
					}
				default:
					if info, err := infoFor(&cfg, bad); err == nil {
						_ = packageInfo(bad, info)
					}
				}
				for _, f := range formats {
					if f == bad {
						continue
					}
					info, err := infoFor(&cfg, f)
					if err != nil {
						run.Inconclusive(err.Error())
						continue
					}
					res := packageInfo(f, info)
					*ops++
					*compared++
					d := map[string]any{"failing_format": bad, "first_operation": first + " " + bad, "glob_destination": globDst}
					if res.Err != nil || res.Panic != "" {
						d["error"] = fmt.Sprint(res.Err, ev.Short(res.Panic, 200))
						run.Violate("C11/"+f+"/package-fails-in-sequence/after-a-failed-"+first, d)
						continue
					}
					if !bytes.Equal(res.Bytes, fresh[f]) {
						d["len"], d["fresh_len"] = len(res.Bytes), len(fresh[f])
						run.Violate("C11/"+f+"/bytes-differ-from-fresh-parse/after-a-failed-"+first, d)
					}
				}
				for _, f := range formats {
					if snap[f] == nil {
						continue
					}
					info, err := cfg.Get(f)
					if err != nil {
						continue
					}
					if diff := firstDiff(reflect.ValueOf(snap[f]), reflect.ValueOf(info), "Info"); diff != "" {
						run.Violate("C11/"+f+"/settings-changed-by-sequence/"+diffField(diff), map[string]any{"failing_format": bad, "first_operation": first + " " + bad, "difference": diff})
					}
				}
			}
		}
	}
}

// c11OtherPlatform: `platform` other than linux (deb, rpm and ipk take it; apk
// and archlinux refuse it): asking for the file name - once, twice - before
// packaging the same settings object changes neither the package nor the name.
func c11OtherPlatform(run *ev.Run, ops, compared *int64) {
	dir := newWorkDir("c11p")
	defer removeWorkDir(dir)
	pf := filepath.Join(dir, "p.txt")
	_ = os.WriteFile(pf, []byte("p\n"), 0o644)
	for _, platform := range []string{"darwin", "freebsd"} {
		for _, arch := range []string{"amd64", "arm64", "all"} {
			s := &gen.Spec{Name: "otherplatform", Arch: arch, Platform: platform, Version: "1.0.0", Maintainer: "O <o@example.com>", Description: "d", MTime: 1400000000}
			s.RPM.BuildHost = "verif-host"
			s.Contents = []*gen.Content{{Src: pf, Dst: "/opt/op/p.txt"}}
			y := s.YAML()
			for _, f := range []string{"deb", "rpm", "ipk"} {
				fresh := buildYAML(y, f)
				if fresh.Err != nil || fresh.Panic != "" {
					continue // the format does not take this platform: nothing to compare
				}
				for names := 1; names <= 2; names++ {
					cfg, err := parseYAML(y, nil)
					if err != nil {
						run.Inconclusive(err.Error())
						continue
					}
					info, _ := infoFor(&cfg, f)
					p, _ := nfpm.Get(f)
					var got []string
					for k := 0; k < names; k++ {
						got = append(got, p.ConventionalFileName(info))
						*ops++
					}
					res := packageInfo(f, info)
					*ops++
					*compared++
					run.Case(fmt.Sprintf("other-platform|%s|%s|%s|names=%d", platform, arch, f, names), true)
					d := map[string]any{"platform": platform, "arch": arch, "file_names": got}
					if names == 2 && got[0] != got[1] {
						run.Violate("C11/"+f+"/file-name-differs-in-sequence", d)
					}
					if res.Err != nil || res.Panic != "" {
						d["error"] = fmt.Sprint(res.Err, res.Panic)
						run.Violate("C11/"+f+"/package-fails-in-sequence/after-name-"+f, d)
						continue
					}
					if !bytes.Equal(res.Bytes, fresh.Bytes) {
						d["len"], d["fresh_len"] = len(res.Bytes), len(fresh.Bytes)
						run.Violate("C11/"+f+"/bytes-differ-from-fresh-parse/after-name-"+f, d)
					}
				}
			}
		}
	}
}

// c11NameThenPackageOfInvalidSettings: settings one format refuses (an invalid
// archlinux package name) are refused by Package whether or not the file name
// was asked for on the same settings object before.
func c11NameThenPackageOfInvalidSettings(run *ev.Run, ops *int64) {
	dir := newWorkDir("c11i")
	defer removeWorkDir(dir)
	pf := filepath.Join(dir, "p.txt")
	_ = os.WriteFile(pf, []byte("p\n"), 0o644)
	for _, name := range []string{"bad name!", "-leading-dash", ".leading-dot", "sl/ash", "ünïcode"} {
		s := &gen.Spec{Name: name, Arch: "amd64", Version: "1.0.0", Maintainer: "O <o@example.com>", Description: "d", MTime: 1400000000}
		s.RPM.BuildHost = "verif-host"
		s.Contents = []*gen.Content{{Src: pf, Dst: "/opt/op/p.txt"}}
		y := s.YAML()
		for _, f := range formats {
			direct := buildYAML(y, f)
			if direct.Panic != "" || direct.Err == nil {
				continue // this format takes the name: covered by the byte comparisons elsewhere
			}
			cfg, err := parseYAML(y, nil)
			if err != nil {
				continue
			}
			info, err := infoFor(&cfg, f)
			if err != nil {
				continue
			}
			p, _ := nfpm.Get(f)
			name1 := p.ConventionalFileName(info)
			res := packageInfo(f, info)
			*ops += 2
			run.Case(fmt.Sprintf("invalid-settings|name-then-package|%q|%s", name, f), true)
			if res.Err == nil && res.Panic == "" {
				run.Violate("C11/"+f+"/refused-settings-accepted-after-file-name-request", map[string]any{"name": name, "file_name": name1, "direct_package_error": direct.Err.Error()})
			}
		}
	}
}

// c11MatchSetHistory: a history of three steps in one process - an operation that
// reads the sources behind a glob and a directory source (validate, or a build),
// then the set of files there changes, then the same parsed configuration is
// packaged. What is shipped is what is on disk at the time of the build: the
// file system is the reference here, and (through the nfpm binary) a fresh
// process that has never seen the earlier state.
func c11MatchSetHistory(run *ev.Run, ops, compared *int64) {
	bin := nfpmBin(run)
	for _, first := range []string{"validate", "package"} {
		dir := newWorkDir("c11m")
		src := filepath.Join(dir, "src")
		_ = os.MkdirAll(src, 0o755)
		for _, n := range []string{"a.txt", "b.txt"} {
			_ = os.WriteFile(filepath.Join(src, n), []byte(n+"\n"), 0o644)
			_ = os.Chtimes(filepath.Join(src, n), time.Unix(1400000000, 0), time.Unix(1400000000, 0))
		}
		s := &gen.Spec{Name: "matchset", Arch: "amd64", Version: "1.0.0", Maintainer: "M <m@example.com>", Description: "d", MTime: 1400000000}
		s.RPM.BuildHost = "verif-host"
		s.Contents = []*gen.Content{{Src: src + "/*.txt", Dst: "/opt/globbed"}, {Src: src, Dst: "/opt/copied"}}
		y := s.YAML()
		cfgp := filepath.Join(dir, "nfpm.yaml")
		_ = os.WriteFile(cfgp, []byte(y), 0o644)
		cfg, err := parseYAML(y, nil)
		if err != nil {
			run.Violate("C11/match-set-history/parse-error", map[string]any{"error": err.Error()})
			removeWorkDir(dir)
			continue
		}
		if first == "validate" {
			_ = cfg.Validate()
			*ops++
		} else {
			for _, f := range formats {
				if info, err := infoFor(&cfg, f); err == nil {
					_ = packageInfo(f, info)
					*ops++
				}
			}
		}
		_ = os.WriteFile(filepath.Join(src, "c.txt"), []byte("c.txt\n"), 0o644)
		_ = os.Rename(filepath.Join(src, "b.txt"), filepath.Join(src, "b2.txt"))
		for _, f := range formats {
			run.Case("match-set-changes-between-operations|first="+first+"|"+f, true)
			info, err := infoFor(&cfg, f)
			if err != nil {
				run.Violate("C11/"+f+"/match-set-history/settings-error", map[string]any{"first": first, "error": err.Error()})
				continue
			}
			res := packageInfo(f, info)
			*ops++
			if res.Err != nil || res.Panic != "" {
				run.Violate("C11/"+f+"/build-depends-on-earlier-operations/match-set-changed", map[string]any{"first": first, "error": fmt.Sprint(res.Err, ev.Short(res.Panic, 200))})
				continue
			}
			p := dec.Decode(f, res.Bytes, false)
			var wrong []string
			for _, d := range []string{"/opt/globbed/", "/opt/copied/"} {
				for n, want := range map[string]bool{"a.txt": true, "b.txt": false, "b2.txt": true, "c.txt": true} {
					if (p.Find(d+n) != nil) != want {
						wrong = append(wrong, fmt.Sprintf("%s%s shipped=%v on-disk=%v", d, n, !want, want))
					}
				}
			}
			*compared++
			if len(p.Errs) > 0 || len(wrong) > 0 {
				sort.Strings(wrong)
				run.Violate("C11/"+f+"/build-depends-on-earlier-operations/match-set-changed", map[string]any{"first": first, "differences": wrong, "decode_errors": p.Errs})
				continue
			}
			if bin != "" {
				target := filepath.Join(dir, "fresh-process."+f)
				so, se, code, err := runCmd(nil, dir, []string{"PATH=" + os.Getenv("PATH"), "HOME=" + dir}, bin, "package", "-f", cfgp, "-p", f, "-t", target)
				if err != nil || code != 0 {
					run.Violate("C11/"+f+"/match-set-history/cli-build-failed", map[string]any{"output": ev.Short(string(so)+string(se), 300)})
					continue
				}
				fresh, _ := os.ReadFile(target)
				*compared++
				if !bytes.Equal(fresh, res.Bytes) {
					run.Violate("C11/"+f+"/bytes-differ-from-fresh-process/match-set-changed", map[string]any{"first": first, "len": len(res.Bytes), "len_fresh_process": len(fresh)})
				}
			}
		}
		removeWorkDir(dir)
	}
	// the command line tool run again over the package an earlier run left at the target
	if bin != "" {
		cliRebuildSmaller(run, bin, "C11", func(f, how string, atTarget, fresh []byte) {
			*ops += 3
			*compared++
			if !bytes.Equal(atTarget, fresh) {
				run.Violate("C11/"+f+"/bytes-differ-from-fresh-target/target-held-an-older-larger-package", map[string]any{"how": how, "len": len(atTarget), "len_fresh_target": len(fresh)})
			}
		})
	}
}
