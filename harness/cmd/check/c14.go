package main

import (
	"fmt"
	"math/big"
	"os"
	"path/filepath"
	"strconv"
	"strings"
	"sync/atomic"
	"unicode"

	"github.com/goreleaser/nfpm/v2"

	"verifharness/internal/dec"
	"verifharness/internal/ev"
	"verifharness/internal/gen"
	"verifharness/internal/rng"
)

func init() { register("C14", "exploration", c14) }

// ---------------------------------------------------------------- grammar

func semverIdent(r *rng.R, allowHyphen bool) string {
	switch r.Intn(4) {
	case 0: // numeric, no leading zero
		if r.P(1, 4) {
			return "0"
		}
		return strconv.Itoa(r.Range(1, 99999))
	case 1:
		return rng.Pick(r, []string{"alpha", "beta", "rc", "pre", "SNAPSHOT", "x", "dev"})
	case 2:
		return rng.Pick(r, []string{"rc1", "beta2", "a1b2", "7f3a9c1", "0a"})
	default:
		if allowHyphen {
			return rng.Pick(r, []string{"x-y", "rc-1", "-", "a--b", "1-2"})
		}
		return "z9"
	}
}

func semverIdents(r *rng.R) string {
	n := r.Range(1, 3)
	var ids []string
	for i := 0; i < n; i++ {
		ids = append(ids, semverIdent(r, true))
	}
	return strings.Join(ids, ".")
}

type semverCase struct {
	str              string
	major, minor, pt uint64
	pre, meta        string
}

func genSemver(r *rng.R) semverCase {
	c := semverCase{major: uint64(r.Intn(30)), minor: uint64(r.Intn(30)), pt: uint64(r.Intn(30))}
	if r.P(1, 10) {
		c.major = uint64(r.Range(100, 99999))
	}
	if r.P(1, 12) {
		// numbers around the signed 64 bit boundary are numbers too (date-and-time
		// stamped or hashed build counters do not get there, but the grammar does)
		big := rng.Pick(r, []uint64{1<<31 - 1, 1 << 31, 1<<32 + 5, 1<<63 - 1, 1 << 63, 1<<64 - 1})
		switch r.Intn(3) {
		case 0:
			c.major = big
		case 1:
			c.minor = big
		default:
			c.pt = big
		}
	}
	parts := r.Range(1, 3)
	s := strconv.FormatUint(c.major, 10)
	if parts >= 2 {
		s += "." + strconv.FormatUint(c.minor, 10)
	} else {
		c.minor = 0
	}
	if parts >= 3 {
		s += "." + strconv.FormatUint(c.pt, 10)
	} else {
		c.pt = 0
	}
	if r.P(1, 2) {
		c.pre = semverIdents(r)
		if r.P(1, 12) {
			// long identifiers: the whole string passes 255 / 256 bytes
			c.pre += "." + strings.Repeat("a", rng.Pick(r, []int{200, 240, 250, 300}))
		}
		s += "-" + c.pre
	}
	if r.P(1, 2) {
		c.meta = semverIdents(r)
		s += "+" + c.meta
	}
	if r.P(1, 3) {
		s = "v" + s
	}
	c.str = s
	return c
}

// shapes no lenient semver reading accepts
func genNearMiss(r *rng.R) string {
	a, b, c := r.Intn(20), r.Intn(20), r.Intn(20)
	switch r.Intn(8) {
	case 0:
		return fmt.Sprintf("%d.%d.%d.%d", a, b, c, r.Intn(9))
	case 1:
		return fmt.Sprintf("%d..%d", a, c)
	case 2:
		return fmt.Sprintf("%d.%d.%d-", a, b, c)
	case 3:
		return fmt.Sprintf("%d.%d.%d+", a, b, c)
	case 4:
		return fmt.Sprintf("%d.x.%d", a, c)
	case 5:
		return fmt.Sprintf("release-%d.%d", a, b)
	case 6:
		return fmt.Sprintf("%d.%d.%d-a..b", a, b, c)
	default:
		return fmt.Sprintf("%d.%d.%d-rc_1", a, b, c) // '_' is not a semver identifier character
	}
}

// ---------------------------------------------------------------- comparison algorithms

// debOrder: order of a character in the Debian algorithm (~ lowest, end of
// string, letters, then everything else).
func debOrder(c byte, end bool) int {
	switch {
	case end:
		return 0
	case c == '~':
		return -1
	case c >= '0' && c <= '9':
		return 0
	case unicode.IsLetter(rune(c)):
		return int(c)
	}
	return int(c) + 256
}

func debVerrevCmp(a, b string) int {
	i, j := 0, 0
	for i < len(a) || j < len(b) {
		// non-digit prefix
		for (i < len(a) && !(a[i] >= '0' && a[i] <= '9')) || (j < len(b) && !(b[j] >= '0' && b[j] <= '9')) {
			var ac, bc int
			if i < len(a) && !(a[i] >= '0' && a[i] <= '9') {
				ac = debOrder(a[i], false)
			} else {
				ac = debOrder(0, true)
			}
			if j < len(b) && !(b[j] >= '0' && b[j] <= '9') {
				bc = debOrder(b[j], false)
			} else {
				bc = debOrder(0, true)
			}
			if ac != bc {
				if ac < bc {
					return -1
				}
				return 1
			}
			if i < len(a) && !(a[i] >= '0' && a[i] <= '9') {
				i++
			}
			if j < len(b) && !(b[j] >= '0' && b[j] <= '9') {
				j++
			}
		}
		// digits
		si := i
		for i < len(a) && a[i] >= '0' && a[i] <= '9' {
			i++
		}
		sj := j
		for j < len(b) && b[j] >= '0' && b[j] <= '9' {
			j++
		}
		na, nb := new(big.Int), new(big.Int)
		na.SetString("0"+a[si:i], 10)
		nb.SetString("0"+b[sj:j], 10)
		if c := na.Cmp(nb); c != 0 {
			return c
		}
	}
	return 0
}

func debSplit(v string) (epoch *big.Int, upstream, rev string) {
	epoch = new(big.Int)
	if i := strings.Index(v, ":"); i >= 0 {
		epoch.SetString(v[:i], 10)
		v = v[i+1:]
	}
	upstream = v
	if i := strings.LastIndex(v, "-"); i >= 0 {
		upstream, rev = v[:i], v[i+1:]
	}
	return
}

// debCompare implements the Debian policy version comparison.
func debCompare(a, b string) int {
	ea, ua, ra := debSplit(a)
	eb, ub, rb := debSplit(b)
	if c := ea.Cmp(eb); c != 0 {
		return c
	}
	if c := debVerrevCmp(ua, ub); c != 0 {
		return c
	}
	return debVerrevCmp(ra, rb)
}

// rpmvercmp is a port of rpm's algorithm including tilde handling.
func rpmvercmp(a, b string) int {
	if a == b {
		return 0
	}
	isAlnum := func(c byte) bool { return c >= '0' && c <= '9' || c >= 'a' && c <= 'z' || c >= 'A' && c <= 'Z' }
	isDigit := func(c byte) bool { return c >= '0' && c <= '9' }
	i, j := 0, 0
	for i < len(a) || j < len(b) {
		for i < len(a) && !isAlnum(a[i]) && a[i] != '~' && a[i] != '^' {
			i++
		}
		for j < len(b) && !isAlnum(b[j]) && b[j] != '~' && b[j] != '^' {
			j++
		}
		at := i < len(a) && a[i] == '~'
		bt := j < len(b) && b[j] == '~'
		if at || bt {
			if !at {
				return 1
			}
			if !bt {
				return -1
			}
			i++
			j++
			continue
		}
		ac := i < len(a) && a[i] == '^'
		bc := j < len(b) && b[j] == '^'
		if ac || bc {
			if i >= len(a) {
				return -1
			}
			if j >= len(b) {
				return 1
			}
			if !ac {
				return 1
			}
			if !bc {
				return -1
			}
			i++
			j++
			continue
		}
		if i >= len(a) || j >= len(b) {
			break
		}
		si, sj := i, j
		numeric := isDigit(a[i])
		if numeric {
			for i < len(a) && isDigit(a[i]) {
				i++
			}
			for j < len(b) && isDigit(b[j]) {
				j++
			}
		} else {
			for i < len(a) && isAlnum(a[i]) && !isDigit(a[i]) {
				i++
			}
			for j < len(b) && isAlnum(b[j]) && !isDigit(b[j]) {
				j++
			}
		}
		sa, sb := a[si:i], b[sj:j]
		if sb == "" {
			if numeric {
				return 1
			}
			return -1
		}
		if numeric {
			sa, sb = strings.TrimLeft(sa, "0"), strings.TrimLeft(sb, "0")
			if len(sa) != len(sb) {
				if len(sa) > len(sb) {
					return 1
				}
				return -1
			}
		}
		if c := strings.Compare(sa, sb); c != 0 {
			return c
		}
	}
	switch {
	case i >= len(a) && j >= len(b):
		return 0
	case i >= len(a):
		return -1
	}
	return 1
}

type rpmEVR struct {
	epoch    int64
	hasEpoch bool
	ver, rel string
}

func rpmEVRCompare(a, b rpmEVR) int {
	if a.epoch != b.epoch {
		if a.epoch < b.epoch {
			return -1
		}
		return 1
	}
	if c := rpmvercmp(a.ver, b.ver); c != 0 {
		return c
	}
	return rpmvercmp(a.rel, b.rel)
}

// ---------------------------------------------------------------- the check

func c14(run *ev.Run, tier string) {
	nparse := ncases(2000, 50000, tier)
	ntriples := ncases(150, 2000, tier)
	run.Rule = "part 1: version strings generated from the semver grammar ([v]MAJOR[.MINOR[.PATCH]][-PRE][+META], identifiers incl. hyphens, no leading zeros) x explicit prerelease / metadata fields x both schemas, plus near-misses no lenient reading accepts (4 numeric parts, empty identifiers, non-numeric core, '_' in an identifier): nfpm.WithDefaults output must equal the components the string was assembled from (explicit fields win; fewer than three parts are zero-filled), verbatim under schema 'none' or when not parseable. part 2: (release, prerelease of it, next patch, higher-epoch-lower-version) tuples are BUILT as deb, ipk and rpm; the version strings decoded from the packages are ordered by a harness implementation of the Debian algorithm (cross-checked with dpkg --compare-versions when installed) and a harness port of rpmvercmp + EVR. Also: the version supplied through the environment mapping (with process-only variables next to it), the unset version, numbers up to 2^64-1 and strings beyond 255 bytes, archlinux pkgver composition for every epoch spelling, apk's post-release suffixes, an ipk custom field named Version. non-trivial = string with a prerelease or metadata part (part 1) / tuple with prerelease and a release or metadata suffix (part 2); distinct = the string / tuple"
	run.Rule += "; version components referring to unset variables through the nfpm binary; name / package / name on one settings object"
	var parsed, ordered, dpkgRuns int64
	haveDpkg := have("dpkg")
	// ---- part 1
	for i := 0; i < nparse; i++ {
		r := rng.New(uint64(run.Seed)).Fork(uint64(140000 + i))
		if i%5 == 4 {
			s := genNearMiss(r)
			info := &nfpm.Info{Version: s, Name: "x"}
			nfpm.WithDefaults(info)
			parsed++
			run.Case("nearmiss|"+s, true)
			if info.Version != s || info.Prerelease != "" || info.VersionMetadata != "" {
				run.Violate("C14/near-miss-not-verbatim", map[string]any{"version": s, "got_version": info.Version, "got_prerelease": info.Prerelease, "got_metadata": info.VersionMetadata})
			}
			continue
		}
		c := genSemver(r)
		expl, exm := "", ""
		if r.P(1, 3) {
			// explicit components are data: they need not be semver identifiers themselves
			expl = rng.Pick(r, []string{"explicit1", "rc.9", "x-y", "2024.01.15", "007", "nightly_3", "rc 1"})
		}
		if r.P(1, 3) {
			exm = rng.Pick(r, []string{"explmeta", "git.123", "b-7", "build_7", "2024.01.15", "00"})
		}
		schema := rng.Pick(r, []string{"", "", "semver", "none"})
		info := &nfpm.Info{Name: "x", Version: c.str, Prerelease: expl, VersionMetadata: exm, VersionSchema: schema}
		nfpm.WithDefaults(info)
		parsed++
		run.Case(fmt.Sprintf("semver|%s|%s|%s|%s", c.str, expl, exm, schema), c.pre != "" || c.meta != "")
		if i < 3 {
			run.Sample(map[string]any{"version": c.str, "explicit_prerelease": expl, "explicit_metadata": exm, "schema": schema, "result": []string{info.Version, info.Prerelease, info.VersionMetadata}})
		}
		wv, wp, wm := fmt.Sprintf("%d.%d.%d", c.major, c.minor, c.pt), c.pre, c.meta
		if expl != "" {
			wp = expl
		}
		if exm != "" {
			wm = exm
		}
		kind := "semver-split"
		if schema == "none" {
			wv, wp, wm = c.str, expl, exm
			kind = "schema-none-not-verbatim"
		}
		if info.Version != wv || info.Prerelease != wp || info.VersionMetadata != wm {
			sub := ""
			switch {
			case info.Version != wv:
				sub = "version"
			case info.Prerelease != wp:
				sub = "prerelease"
			default:
				sub = "metadata"
			}
			run.Violate("C14/"+kind+"/"+sub, map[string]any{"input": c.str, "explicit_prerelease": expl, "explicit_metadata": exm, "schema": schema,
				"got": []string{info.Version, info.Prerelease, info.VersionMetadata}, "want": []string{wv, wp, wm}})
		}
	}
	// a version left unset gets the default version string, which is then treated
	// like a configured one: split under the default schema (explicit components
	// win), verbatim under schema none
	for _, c := range []struct{ schema, pre, meta, wv, wp, wm string }{
		{"", "", "", "0.0.0", "rc0", ""}, {"semver", "", "", "0.0.0", "rc0", ""},
		{"", "beta2", "", "0.0.0", "beta2", ""}, {"", "", "git.1", "0.0.0", "rc0", "git.1"}, {"", "x-y", "m", "0.0.0", "x-y", "m"},
		{"none", "", "", "v0.0.0-rc0", "", ""}, {"none", "beta2", "", "v0.0.0-rc0", "beta2", ""},
	} {
		info := &nfpm.Info{Name: "x", VersionSchema: c.schema, Prerelease: c.pre, VersionMetadata: c.meta}
		nfpm.WithDefaults(info)
		parsed++
		run.Case(fmt.Sprintf("unset-version|%s|%s|%s", c.schema, c.pre, c.meta), true)
		if info.Version != c.wv || info.Prerelease != c.wp || info.VersionMetadata != c.wm {
			run.Violate("C14/default-version-not-treated-like-a-configured-one", map[string]any{"schema": c.schema, "explicit_prerelease": c.pre, "explicit_metadata": c.meta,
				"got": []string{info.Version, info.Prerelease, info.VersionMetadata}, "want": []string{c.wv, c.wp, c.wm}})
		}
	}
	// the same split applies when the version reaches the configuration through
	// the environment (version: ${VERSION}), the usual way in CI
	var viaEnv int64
	_ = os.Setenv("VERIF_ONLY_IN_PROCESS_REL", "77")
	_ = os.Setenv("VERIF_ONLY_IN_PROCESS_PRE", "leaked.from.process")
	_ = os.Setenv("VERIF_VERSION", "99.99.99-process")
	defer func() {
		for _, k := range []string{"VERIF_ONLY_IN_PROCESS_REL", "VERIF_ONLY_IN_PROCESS_PRE", "VERIF_VERSION"} {
			_ = os.Unsetenv(k)
		}
	}()
	for i := 0; i < nparse/4+8; i++ {
		r := rng.New(uint64(run.Seed)).Fork(uint64(145000 + i))
		c := genSemver(r)
		schema := rng.Pick(r, []string{"", "semver", "none"})
		// (release and an explicit prerelease reference variables the mapping does
		// not know while the process environment does: they stay empty)
		doc := "name: x\narch: amd64\nversion: ${VERIF_VERSION}\nrelease: ${VERIF_ONLY_IN_PROCESS_REL}\nprerelease: ${VERIF_ONLY_IN_PROCESS_PRE}\n"
		if schema != "" {
			doc += "version_schema: " + schema + "\n"
		}
		cfg, err := parseYAML(doc, func(k string) string {
			if k == "VERIF_VERSION" {
				return c.str
			}
			return ""
		})
		run.Case(fmt.Sprintf("semver-via-env|%s|%s", c.str, schema), c.pre != "" || c.meta != "")
		if err != nil {
			run.Violate("C14/version-from-environment/parse-error", map[string]any{"input": c.str, "error": err.Error()})
			continue
		}
		viaEnv++
		wv, wp, wm := fmt.Sprintf("%d.%d.%d", c.major, c.minor, c.pt), c.pre, c.meta
		if schema == "none" {
			wv, wp, wm = c.str, "", ""
		}
		for _, f := range []string{"", "deb", "rpm"} {
			info := &cfg.Info
			if f != "" {
				if info, err = infoFor(&cfg, f); err != nil {
					run.Inconclusive(err.Error())
					continue
				}
			}
			if info.Release == "77" || strings.Contains(info.Prerelease, "leaked") {
				run.Violate("C14/version-from-environment/process-environment-used-instead-of-mapping", map[string]any{"release": info.Release, "prerelease": info.Prerelease, "settings_for": f})
				break
			}
			if info.Version != wv || info.Prerelease != wp || info.VersionMetadata != wm {
				run.Violate("C14/version-from-environment/not-split-like-a-literal", map[string]any{"input": c.str, "schema": schema, "settings_for": f,
					"got": []string{info.Version, info.Prerelease, info.VersionMetadata}, "want": []string{wv, wp, wm}})
				break
			}
		}
	}
	run.Set("version_strings_parsed", parsed)
	run.Set("versions_supplied_through_the_environment", viaEnv)

	// ---- part 2
	dir := newWorkDir("c14")
	defer removeWorkDir(dir)
	payload := filepath.Join(dir, "p.txt")
	_ = os.WriteFile(payload, []byte("p\n"), 0o644)
	type vspec struct{ epoch, version, pre, meta, rel string }
	build := func(v vspec, f string) (string, rpmEVR, error) {
		s := &gen.Spec{Name: "ordpkg", Arch: "amd64", Version: v.version, Prerelease: v.pre, VersionMetadata: v.meta, Release: v.rel, Epoch: v.epoch,
			Maintainer: "V <v@example.com>", Description: "d", MTime: 1500000000}
		s.RPM.BuildHost = "verif-host"
		s.Contents = []*gen.Content{{Src: payload, Dst: "/opt/ordpkg/p.txt"}}
		// like `nfpm package --target <dir>`: the conventional file name is asked
		// for first, then the very same settings are packaged
		cfg, err := parseYAML(s.YAML(), nil)
		if err != nil {
			return "", rpmEVR{}, err
		}
		info, err := infoFor(&cfg, f)
		if err != nil {
			return "", rpmEVR{}, err
		}
		nameBefore := ""
		pk, pkErr := nfpm.Get(f)
		if pkErr == nil {
			nameBefore = pk.ConventionalFileName(info)
		}
		compsBefore := [5]string{info.Epoch, info.Version, info.Prerelease, info.VersionMetadata, info.Release}
		res := packageInfo(f, info)
		if res.Err != nil || res.Panic != "" {
			return "", rpmEVR{}, fmt.Errorf("%v%s", res.Err, res.Panic)
		}
		// packaging leaves the version components of the settings as they were: the
		// file name asked for afterwards is the one asked for before
		if pkErr == nil {
			compsAfter := [5]string{info.Epoch, info.Version, info.Prerelease, info.VersionMetadata, info.Release}
			if nameAfter := pk.ConventionalFileName(info); nameAfter != nameBefore || compsAfter != compsBefore {
				run.Violate("C14/"+f+"/version-components-changed-by-packaging", map[string]any{"file_name_before": nameBefore, "file_name_after": nameAfter, "components_before": compsBefore, "components_after": compsAfter})
			}
		}
		p := dec.Decode(f, res.Bytes, false)
		if len(p.Errs) > 0 {
			return "", rpmEVR{}, fmt.Errorf("undecodable: %v", p.Errs)
		}
		// no component may be lost or duplicated on the way into the package
		parts := verParts{Epoch: v.epoch, V: v.version, Pre: v.pre, Meta: v.meta, Rel: v.rel}
		if f == "rpm" {
			got, _ := p.Rpm.Hdr.Str(dec.RpmTagVersion)
			if want, _ := rpmVersion(parts); got != want {
				run.Violate("C14/"+f+"/version-component-lost-or-duplicated", map[string]any{"shipped": got, "want": want})
			}
		} else {
			got, _ := p.MetaGet("Version")
			if want := debVersion(parts); got != want {
				run.Violate("C14/"+f+"/version-component-lost-or-duplicated", map[string]any{"shipped": got, "want": want})
			}
		}
		if f == "rpm" {
			h := p.Rpm.Hdr
			e := rpmEVR{}
			if ep := h.IntList(dec.RpmTagEpoch); len(ep) == 1 {
				e.epoch, e.hasEpoch = ep[0], true
			}
			e.ver, _ = h.Str(dec.RpmTagVersion)
			e.rel, _ = h.Str(dec.RpmTagRelease)
			return fmt.Sprintf("%d:%s-%s", e.epoch, e.ver, e.rel), e, nil
		}
		v2, _ := p.MetaGet("Version")
		return v2, rpmEVR{}, nil
	}
	cmp := func(f, a string, ea rpmEVR, b string, eb rpmEVR) int {
		if f == "rpm" {
			return rpmEVRCompare(ea, eb)
		}
		c := debCompare(a, b)
		if haveDpkg {
			atomic.AddInt64(&dpkgRuns, 1)
			op := map[int]string{-1: "lt", 0: "eq", 1: "gt"}[c]
			_, _, code, err := runCmd(nil, dir, nil, "dpkg", "--compare-versions", a, op, b)
			if err == nil && code != 0 {
				run.Violate("C14/harness-debian-algorithm-disagrees-with-dpkg", map[string]any{"a": a, "b": b, "harness": op})
			}
		}
		return c
	}
	parallel(ntriples, 8, func(i int) {
		r := rng.New(uint64(run.Seed)).Fork(uint64(150000 + i))
		ma, mi, pa := r.Intn(12), r.Intn(12), r.Intn(12)
		if r.P(1, 4) {
			pa = 9 // 9 -> 10 crosses a digit-length boundary
		}
		if r.P(1, 6) {
			mi, pa = 99, 99
		}
		pre := rng.Pick(r, []string{"rc1", "beta.2", "alpha", "0", "rc-1", "SNAPSHOT", "z", "pre.10", "0.3.7", "0.rc1"}) // (the last two: Fedora-style 0.N.tag identifiers)
		if r.P(1, 5) {
			// components that repeat the tail of the version (1.2.3-3, 1.2.0-0+0)
			pre = strconv.Itoa(pa)
		}
		meta, rel, epoch := "", "", ""
		if r.P(1, 2) {
			meta = rng.Pick(r, []string{"git", "build.5", "0", strconv.Itoa(pa), pre})
		}
		if r.P(1, 2) {
			rel = rng.Pick(r, []string{"1", "2", "10"})
		}
		if r.P(1, 3) {
			epoch = rng.Pick(r, []string{"0", "1", "9"})
		}
		v := fmt.Sprintf("%d.%d.%d", ma, mi, pa)
		next := fmt.Sprintf("%d.%d.%d", ma, mi, pa+1)
		rel0 := vspec{epoch, v, "", meta, rel}
		preB := vspec{epoch, v, pre, meta, rel}
		nextB := vspec{epoch, next, "", meta, rel}
		// a higher epoch on a lower version
		hiEpoch := "1"
		if epoch != "" {
			n, _ := strconv.Atoi(epoch)
			hiEpoch = strconv.Itoa(n + 1 + r.Intn(3))
		}
		if r.P(1, 6) {
			hiEpoch = rng.Pick(r, []string{"10", "4294967294", "4294967296", "4294967298"}) // around the 32 bit boundary
		}
		if r.P(1, 6) {
			// epochs are decimal numbers, also when written with a leading zero
			epoch, hiEpoch = rng.Pick(r, []string{"9", "7", "09"}), rng.Pick(r, []string{"010", "011", "0012"})
			rel0.epoch, preB.epoch, nextB.epoch = epoch, epoch, epoch
		}
		hi := vspec{hiEpoch, "0.0.1", pre, "", ""}
		run.Case(fmt.Sprintf("tuple|%s|%s|%s|%s|%s|hi=%s", v, pre, meta, rel, epoch, hiEpoch), meta != "" || rel != "")
		if i < 2 {
			run.Sample(map[string]any{"release": rel0, "prerelease": preB, "next_patch": nextB, "higher_epoch": hi})
		}
		for _, f := range []string{"deb", "ipk", "rpm"} {
			s0, e0, err0 := build(rel0, f)
			s1, e1, err1 := build(preB, f)
			s2, e2, err2 := build(nextB, f)
			if err0 != nil || err1 != nil || err2 != nil {
				run.Violate("C14/"+f+"/build-error", map[string]any{"tuple": i, "errors": fmt.Sprint(err0, err1, err2)})
				continue
			}
			atomic.AddInt64(&ordered, 3)
			if c := cmp(f, s1, e1, s0, e0); c >= 0 {
				run.Violate("C14/"+f+"/prerelease-does-not-sort-before-release", map[string]any{"prerelease": s1, "release": s0, "cmp": c})
			}
			if c := cmp(f, s0, e0, s2, e2); c >= 0 {
				run.Violate("C14/"+f+"/numeric-order-broken", map[string]any{"lower": s0, "higher": s2, "cmp": c})
			}
			if c := cmp(f, s1, e1, s2, e2); c >= 0 {
				run.Violate("C14/"+f+"/numeric-order-broken", map[string]any{"lower": s1, "higher": s2, "cmp": c})
			}
			hif := hi
			if n, _ := strconv.ParseInt(hi.epoch, 10, 64); f != "rpm" && n > 2147483647 {
				hif.epoch = "2147483647" // dpkg's epoch is a C int; larger values are not versions it can order
			}
			s3, e3, err3 := build(hif, f)
			if err3 != nil {
				// an epoch the format cannot represent is rejected loudly: nothing to order
				continue
			}
			if c := cmp(f, s2, e2, s3, e3); c >= 0 {
				kind := "higher-epoch-does-not-sort-after-lower"
				if f == "rpm" && hiEpoch == "4294967295" {
					kind += "/epoch-4294967295"
				}
				run.Violate("C14/"+f+"/"+kind, map[string]any{"lower_epoch_version": s2, "higher_epoch_version": s3, "configured_epoch": hiEpoch, "cmp": c})
			}
		}
	})
	// archlinux: with an epoch configured (any value, "0" included) the pkgver
	// carries epoch, version and prerelease; without one the prerelease is the
	// known C02/C15 finding and nothing is claimed here
	var archChecked int64
	for _, ep := range []string{"0", "1", "00", "12", "010", "08", "4294967296", "202401011200"} { // zero padded = decimal; values beyond 32 bits are numbers too
		for _, pre := range []string{"rc1", "beta.2", "rc-1"} {
			for _, rel := range []string{"", "3"} {
				run.Case(fmt.Sprintf("archlinux-components|epoch=%s|%s|rel=%s", ep, pre, rel), true)
				s := &gen.Spec{Name: "ordpkg", Arch: "amd64", Version: "1.2.3", Prerelease: pre, Release: rel, Epoch: ep,
					Maintainer: "V <v@example.com>", Description: "d", MTime: 1500000000}
				s.Contents = []*gen.Content{{Src: payload, Dst: "/opt/ordpkg/p.txt"}}
				res := buildYAML(s.YAML(), "archlinux")
				if res.Err != nil || res.Panic != "" {
					run.Violate("C14/archlinux/build-error", map[string]any{"epoch": ep, "error": fmt.Sprint(res.Err, res.Panic)})
					continue
				}
				p := dec.Decode("archlinux", res.Bytes, false)
				got, _ := p.MetaGet("pkgver")
				n, _ := strconv.ParseInt(ep, 10, 64)
				r := rel
				if r == "" {
					r = "1"
				}
				want := fmt.Sprintf("%d:1.2.3%s-%s", n, strings.ReplaceAll(pre, "-", "_"), r)
				archChecked++
				if got != want {
					run.Violate("C14/archlinux/version-component-lost-or-duplicated", map[string]any{"epoch": ep, "prerelease": pre, "release": rel, "pkgver": got, "want": want})
				}
			}
		}
	}
	run.Set("archlinux_pkgver_compositions_checked", archChecked)
	// apk: build metadata is carried as a post-release suffix; the five suffixes
	// apk itself knows (p, cvs, svn, git, hg) are kept as written, anything else
	// gets a "p" in front - no component is lost or gains another meaning
	for _, meta := range []string{"hg4f2a91c", "git.abc", "svn12", "cvs1", "p5", "build5", "0", "20240102"} {
		for _, viaVersion := range []bool{false, true} {
			s := &gen.Spec{Name: "ordpkg", Arch: "amd64", Version: "1.2.3", VersionMetadata: meta, Maintainer: "V <v@example.com>", Description: "d", MTime: 1500000000}
			if viaVersion {
				s.Version, s.VersionMetadata = "1.2.3+"+meta, ""
			}
			s.Contents = []*gen.Content{{Src: payload, Dst: "/opt/ordpkg/p.txt"}}
			run.Case(fmt.Sprintf("apk-metadata-suffix|%s|in-version=%v", meta, viaVersion), true)
			res := buildYAML(s.YAML(), "apk")
			if res.Err != nil || res.Panic != "" {
				run.Violate("C14/apk/build-error", map[string]any{"metadata": meta, "error": fmt.Sprint(res.Err, res.Panic)})
				continue
			}
			p := dec.Decode("apk", res.Bytes, false)
			got, _ := p.MetaGet("pkgver")
			want := "1.2.3-p" + meta
			for _, known := range []string{"p", "cvs", "svn", "git", "hg"} {
				if strings.HasPrefix(meta, known) {
					want = "1.2.3-" + meta
				}
			}
			if got != want {
				run.Violate("C14/apk/version-component-lost-or-duplicated/metadata-suffix", map[string]any{"metadata": meta, "pkgver": got, "want": want})
			}
		}
	}
	// a custom ipk field named like the version field does not add a second,
	// conflicting version to the control file
	for _, key := range []string{"Version", "version", "VERSION"} {
		s := &gen.Spec{Name: "ordpkg", Arch: "amd64", Version: "1.2.3", Prerelease: "rc1", Maintainer: "V <v@example.com>", Description: "d", MTime: 1500000000}
		s.Contents = []*gen.Content{{Src: payload, Dst: "/opt/ordpkg/p.txt"}}
		s.IPK.Fields.Set(key, "9.9.9")
		run.Case("ipk-custom-field-named-version|"+key, true)
		res := buildYAML(s.YAML(), "ipk")
		if res.Err != nil || res.Panic != "" {
			continue // refusing the field is loud
		}
		p := dec.Decode("ipk", res.Bytes, false)
		n := 0
		for _, fl := range p.Meta {
			if strings.EqualFold(fl.Name, "Version") {
				n++
			}
		}
		got, _ := p.MetaGet("Version")
		if n != 1 || got != "1.2.3~rc1" {
			run.Violate("C14/ipk/version-component-lost-or-duplicated/custom-field-named-version", map[string]any{"custom_field": key, "version_lines": n, "first_version": got, "want": "1.2.3~rc1"})
		}
	}
	// the command line tool: a component that refers to a variable the environment
	// does not have is an unset component, so it is taken from the version string
	if bin := nfpmBin(run); bin != "" {
		y := "name: unsetpre\narch: amd64\nversion: v1.2.3-rc1+git5\nprerelease: ${VERIF_C14_NOT_SET_PRE}\nrelease: ${VERIF_C14_RELEASE}\nmaintainer: \"V <v@example.com>\"\ndescription: d\nmtime: 2017-07-14T02:40:00Z\nrpm:\n  buildhost: verif-host\ncontents:\n  - src: " + payload + "\n    dst: /opt/unsetpre/p.txt\n"
		cfgp := filepath.Join(dir, "unset-components.yaml")
		_ = os.WriteFile(cfgp, []byte(y), 0o644)
		env := []string{"PATH=" + os.Getenv("PATH"), "HOME=" + dir, "VERIF_C14_RELEASE=4"}
		for _, f := range []string{"deb", "ipk", "rpm", "apk", "archlinux"} {
			run.Case("cli-version-component-refers-to-unset-variable|"+f, true)
			outDir := filepath.Join(dir, "unset-"+f)
			_ = os.MkdirAll(outDir, 0o755)
			so, se, code, err := runCmd(nil, dir, env, bin, "package", "-f", cfgp, "-p", f, "-t", outDir)
			es, _ := os.ReadDir(outDir)
			if err != nil || code != 0 || len(es) != 1 {
				run.Violate("C14/cli/"+f+"/build-failed/component-refers-to-unset-variable", map[string]any{"exit": code, "files": len(es), "output": ev.Short(string(so)+string(se), 300)})
				continue
			}
			raw, _ := os.ReadFile(filepath.Join(outDir, es[0].Name()))
			p := dec.Decode(f, raw, false)
			if len(p.Errs) > 0 {
				run.Violate("C14/cli/"+f+"/undecodable", map[string]any{"errors": p.Errs})
				continue
			}
			var shipped string
			switch f {
			case "rpm":
				v, _ := p.Rpm.Hdr.Str(dec.RpmTagVersion)
				r, _ := p.Rpm.Hdr.Str(dec.RpmTagRelease)
				shipped = v + "-" + r
			case "apk", "archlinux":
				shipped, _ = p.MetaGet("pkgver")
			default:
				shipped, _ = p.MetaGet("Version")
			}
			if strings.Contains(shipped, "VERIF_C14") || strings.Contains(es[0].Name(), "VERIF_C14") || strings.Contains(shipped, "$") || !strings.Contains(es[0].Name(), "rc1") || (f != "archlinux" && !strings.Contains(shipped, "rc1")) || !strings.HasPrefix(shipped, "1.2.3") {
				run.Violate("C14/cli/"+f+"/component-referring-to-unset-variable-not-taken-from-the-version", map[string]any{"shipped_version": shipped, "file_name": es[0].Name(), "configured": "version v1.2.3-rc1+git5, prerelease ${unset}, release ${set to 4}"})
			}
		}
	}
	run.Set("version_pairs_ordered", ordered)
	run.Set("dpkg_compare_runs", dpkgRuns)
	run.Set("external_oracles", map[string]bool{"dpkg --compare-versions": haveDpkg})
	run.Assume("strings with leading zeros in numeric parts are not generated (a lenient reading could accept or reject them)")
	run.Assume("rpm epoch 4294967295 is not generated: it equals the 'no epoch' sentinel of the rpm writer library and no property input needs an epoch of exactly 2^32-1")
}
