package main

import (
	"bytes"
	"crypto"
	"crypto/md5"
	"crypto/rand"
	"crypto/rsa"
	"crypto/sha1"
	"crypto/x509"
	"encoding/pem"
	"errors"
	"fmt"
	"io"
	"os"
	"path/filepath"
	"strings"
	"sync"
	"sync/atomic"

	"github.com/ProtonMail/go-crypto/openpgp"
	"github.com/ProtonMail/go-crypto/openpgp/armor"
	"github.com/ProtonMail/go-crypto/openpgp/clearsign"
	"github.com/ProtonMail/go-crypto/openpgp/packet"
	"github.com/goreleaser/nfpm/v2"

	"verifharness/internal/dec"
	"verifharness/internal/ev"
	"verifharness/internal/gen"
)

func init() { register("C10", "exploration", c10) }

type pgpKeyCase struct {
	name, file, pass, keyID string
}

var pgpKeys = []pgpKeyCase{
	{"armored-unprotected", "privkey_unprotected.asc", "", ""},
	{"binary-unprotected", "privkey_unprotected.gpg", "", ""},
	{"armored-protected", "privkey.asc", "hunter2", ""},
	{"binary-protected", "privkey.gpg", "hunter2", ""},
	{"subkey-only", "privkey_unprotected_subkey_only.asc", "", ""},
	{"armored-unprotected-keyid", "privkey_unprotected.asc", "", "bc8acdd415bd80b3"},
	{"binary-protected-keyid", "privkey.gpg", "hunter2", "bc8acdd415bd80b3"},
	{"subkey-only-keyid", "privkey_unprotected_subkey_only.asc", "", "9890904dfb2ec88a"},
}

type rsaKeyCase struct{ name, file, pub, pass string }

var rsaKeys = []rsaKeyCase{
	{"pkcs1-unprotected", "rsa_unprotected.priv", "rsa_unprotected.pub", ""},
	{"pkcs1-protected", "rsa.priv", "rsa.pub", "hunter2"},
	{"pkcs8-unprotected", "rsa_pkcs8.priv", "rsa_pkcs8.pub", ""},
}

func loadKeyring(run *ev.Run) openpgp.EntityList {
	b, err := os.ReadFile(testKey("pubkey.asc"))
	if err != nil {
		run.Inconclusive("cannot read pubkey.asc: " + err.Error())
		return nil
	}
	kr, err := openpgp.ReadArmoredKeyRing(bytes.NewReader(b))
	if err != nil {
		run.Inconclusive("cannot parse pubkey.asc: " + err.Error())
		return nil
	}
	return kr
}

func loadRSAPub(p string) (*rsa.PublicKey, error) {
	b, err := os.ReadFile(p)
	if err != nil {
		return nil, err
	}
	blk, _ := pem.Decode(b)
	if blk == nil {
		return nil, errors.New("no PEM block")
	}
	k, err := x509.ParsePKIXPublicKey(blk.Bytes)
	if err != nil {
		return nil, err
	}
	pk, ok := k.(*rsa.PublicKey)
	if !ok {
		return nil, errors.New("not an RSA key")
	}
	return pk, nil
}

// sigJob is one signed build.
type sigJob struct {
	format   string // deb, rpm, apk
	method   string // debsign, dpkg-sig, "" for rpm/apk
	sigType  string
	key      string // name of the key case, or "callback"
	idx      int
	callback bool
}

// verifier bytes per format, recomputed from the STORED members.
func debMessage(p *dec.Package) []byte {
	var m []byte
	for _, mem := range p.Ar.Members {
		if mem.Name == "debian-binary" || mem.Name == "control.tar.gz" || strings.HasPrefix(mem.Name, "data.tar") {
			m = append(m, mem.Data...)
		}
	}
	return m
}

func c10(run *ev.Run, tier string) {
	n := ncases(80, 800, tier)
	run.Rule = "cases = generated payloads/metadata x {deb debsign origin/maint/archive/default, deb dpkg-sig, rpm, apk} x {PGP key armored/binary/protected/subkey-only/with key id; RSA pkcs1/pkcs8/protected; signing callback} x all deb/rpm compressions. The signature is extracted from the built package and verified by the harness (go-crypto CheckDetachedSignature / clearsign, crypto/rsa.VerifyPKCS1v15; gpgv and openssl when installed) over the bytes the format's verifier uses, recomputed from the STORED members; callbacks record the bytes they receive, which must be exactly those bytes; dpkg-sig manifest lines must match stored members. Failure injection: failing callbacks, wrong passphrase, invalid debsign type -> error must satisfy errors.As(*nfpm.ErrSigningFailure) and errors.Is(signer's error). Further scenarios: generated RSA-2048/3072/4096 keys against gpg, keys locked with odd passphrases (PGP and apk RSA), rotated key files, key files holding further public keys, a passphrase configured for an unprotected key, SOURCE_DATE_EPOCH set while signing, key ids that expand to nothing, callback and key file configured together, an apk key name next to a maintainer without mail address. non-trivial = signature verified over a payload with >=1 regular file; distinct = (format, method, type, key kind, compression)"
	run.Rule += "; through the nfpm binary: a failing signing run over the package an earlier run left at the target"
	kr := loadKeyring(run)
	if kr == nil {
		return
	}
	var verified, cbBytes, failures, gpgRuns, opensslRuns, gpgFlakes int64
	haveGpgv := have("gpg")
	gpgHome := ""
	if haveGpgv {
		gpgHome = newWorkDir("c10-gnupg")
		_ = os.Chmod(gpgHome, 0o700)
		_, se, code, err := runCmd(nil, gpgHome, []string{"GNUPGHOME=" + gpgHome, "PATH=" + os.Getenv("PATH")}, "gpg", "--batch", "--quiet", "--import", testKey("pubkey.asc"))
		if err != nil || code != 0 {
			run.Set("gpg_note", "gpg present but key import failed: "+ev.Short(string(se), 200))
			haveGpgv = false
		}
	}
	var gpgMu sync.Mutex
	gpgVerify := func(sig, msg []byte) (bool, string) {
		gpgMu.Lock()
		defer gpgMu.Unlock()
		d := newWorkDir("c10-gv")
		defer removeWorkDir(d)
		_ = os.WriteFile(filepath.Join(d, "sig"), sig, 0o600)
		args := []string{"--batch", "--quiet", "--verify", filepath.Join(d, "sig")}
		if msg != nil {
			_ = os.WriteFile(filepath.Join(d, "msg"), msg, 0o600)
			args = append(args, filepath.Join(d, "msg"))
		}
		var se []byte
		// a rejection counts only when it is reproducible on the same bytes (three
		// attempts; recoveries are counted in the evidence as gpg_flakes). The
		// sporadic rejections first put down to machine load were F23: 1 in 256
		// RSA-2048 signatures has a length divisible by three.
		for attempt := 0; attempt < 3; attempt++ {
			var code int
			var err error
			_, se, code, err = runCmd(nil, d, []string{"GNUPGHOME=" + gpgHome, "PATH=" + os.Getenv("PATH")}, "gpg", args...)
			atomic.AddInt64(&gpgRuns, 1)
			if err == nil && code == 0 {
				if attempt > 0 {
					atomic.AddInt64(&gpgFlakes, 1)
				}
				return true, ""
			}
		}
		return false, string(se)
	}

	methods := []struct{ f, method, typ string }{
		{"deb", "", ""}, {"deb", "debsign", "origin"}, {"deb", "debsign", "maint"}, {"deb", "debsign", "archive"},
		{"deb", "dpkg-sig", ""}, {"deb", "dpkg-sig", "builder"}, {"rpm", "", ""}, {"apk", "", ""},
	}
	parallel(n, 8, func(i int) {
		if *flagOnly >= 0 && i != *flagOnly {
			return
		}
		root := newWorkDir("c10")
		defer removeWorkDir(root)
		o := gen.DefaultOpts()
		o.NEntries = [2]int{1, 5}
		o.Big = i % 2
		c, err := gen.New(uint64(run.Seed), i, root, o)
		if err != nil {
			run.Inconclusive(err.Error())
			return
		}
		s := c.Spec
		m := methods[i%len(methods)]
		s.Deb.Compression = []string{"", "gzip", "xz", "zstd", "none"}[(i/len(methods))%5]
		s.RPM.Compression = []string{"", "gzip:1", "xz", "lzma", "zstd"}[(i/len(methods))%5]
		useCallback := i%5 == 4
		env := map[string]string{}
		keyName := ""
		var rsaPub *rsa.PublicKey
		var pk pgpKeyCase
		var rk rsaKeyCase
		if m.f == "apk" {
			rk = rsaKeys[(i/len(methods))%len(rsaKeys)]
			keyName = rk.name
			p, err := loadRSAPub(testKey(rk.pub))
			if err != nil {
				run.Inconclusive("cannot load " + rk.pub + ": " + err.Error())
				return
			}
			rsaPub = p
			if !useCallback {
				s.APK.Sig.KeyFile = testKey(rk.file)
				if rk.pass != "" {
					if i%2 == 0 {
						env["NFPM_APK_PASSPHRASE"] = rk.pass
					} else {
						env["NFPM_PASSPHRASE"] = rk.pass
					}
				}
			}
			if i%3 == 0 {
				// names that already look like a file name, short of the full suffix
				s.APK.Sig.KeyName = []string{"verif-key-" + rk.name, "ci-signing.pub", "key.rsa", "verif-key.pub." + rk.name}[(i/3)%4]
				if (i/3)%2 == 1 {
					// the key name is configured: the maintainer's mail address is not needed
					s.Maintainer = "ACME Build Team"
				}
			}
		} else {
			pk = pgpKeys[(i/len(methods))%len(pgpKeys)]
			keyName = pk.name
			sg := gen.Sig{Method: m.method, Type: m.typ}
			if !useCallback {
				sg.KeyFile = testKey(pk.file)
				sg.KeyID = pk.keyID
				if pk.pass != "" {
					fv := "NFPM_" + strings.ToUpper(m.f) + "_PASSPHRASE"
					if i%2 == 0 {
						env[fv] = pk.pass
					} else {
						env["NFPM_PASSPHRASE"] = pk.pass
						env[fv] = "" // specific variable unset: general one is the fallback
					}
				}
			}
			if m.f == "deb" {
				if m.method == "dpkg-sig" {
					sg.Signer = "Verif Signer <signer@example.com>"
				}
				s.Deb.Sig = sg
			} else {
				sg.Method, sg.Type = "", ""
				s.RPM.Sig = sg
			}
		}
		if useCallback {
			keyName = "callback"
		}
		apkMail := "verif@example.com"
		if m.f == "apk" && i%2 == 1 && s.APK.Sig.KeyName == "" {
			apkMail = "Release.Team@ACME-Software.example"
			s.Maintainer = "ACME Release Team <" + apkMail + ">"
		}
		y := s.YAML()
		hasFile := false
		for _, e := range s.Contents {
			for _, x := range e.Exp {
				if x.Kind == "file" && (e.Packager == "" || e.Packager == m.f) {
					hasFile = true
				}
			}
		}
		run.Case(fmt.Sprintf("%s|%s|%s|%s|%s%s", m.f, m.method, m.typ, keyName, s.Deb.Compression, s.RPM.Compression), hasFile)
		if i < 3 {
			run.Sample(map[string]any{"case": i, "format": m.f, "method": m.method, "type": m.typ, "key": keyName, "yaml": ev.Short(y, 900)})
		}
		cfg, err := parseYAML(y, func(k string) string { return env[k] })
		if err != nil {
			run.Inconclusive("config does not parse: " + err.Error())
			return
		}
		info, err := infoFor(&cfg, m.f)
		if err != nil {
			run.Inconclusive(err.Error())
			return
		}
		// callbacks: record what they are given, sign it with a real key
		var received [][]byte
		if useCallback {
			ent, perr := unprotectedEntity()
			if perr != nil {
				run.Inconclusive("cannot load unprotected key: " + perr.Error())
				return
			}
			switch {
			case m.f == "deb" && m.method == "dpkg-sig":
				info.Deb.Signature.SignFn = func(r io.Reader) ([]byte, error) {
					b, _ := io.ReadAll(r)
					received = append(received, b)
					var out bytes.Buffer
					w, err := clearsign.Encode(&out, ent.PrivateKey, &packet.Config{DefaultHash: crypto.SHA256})
					if err != nil {
						return nil, err
					}
					_, _ = w.Write(b)
					_ = w.Close()
					// the harness signer owns its armor: go-crypto leaves the CRC line
					// out, which gpg 2.2 cannot parse for some signature lengths (F23)
					return rearmorWithCRC(out.Bytes()), nil
				}
			case m.f == "deb":
				info.Deb.Signature.SignFn = func(r io.Reader) ([]byte, error) {
					b, _ := io.ReadAll(r)
					received = append(received, b)
					var out bytes.Buffer
					err := openpgp.ArmoredDetachSign(&out, ent, bytes.NewReader(b), &packet.Config{DefaultHash: crypto.SHA256})
					return out.Bytes(), err
				}
			case m.f == "rpm":
				info.RPM.Signature.SignFn = func(r io.Reader) ([]byte, error) {
					b, _ := io.ReadAll(r)
					received = append(received, b)
					var out bytes.Buffer
					err := openpgp.DetachSign(&out, ent, bytes.NewReader(b), &packet.Config{DefaultHash: crypto.SHA256})
					return out.Bytes(), err
				}
			case m.f == "apk":
				priv, perr := loadRSAPriv(testKey("rsa_unprotected.priv"))
				if perr != nil {
					run.Inconclusive(perr.Error())
					return
				}
				rsaPub = &priv.PublicKey
				info.APK.Signature.SignFn = func(r io.Reader) ([]byte, error) {
					b, _ := io.ReadAll(r)
					received = append(received, b)
					return rsa.SignPKCS1v15(nil, priv, crypto.SHA1, b)
				}
			}
		}
		res := packageInfo(m.f, info)
		if res.Err != nil || res.Panic != "" {
			run.Violate("C10/"+m.f+"/signed-build-error/"+keyName, map[string]any{"case": i, "method": m.method, "type": m.typ, "error": fmt.Sprint(res.Err, ev.Short(res.Panic, 300))})
			return
		}
		p := dec.Decode(m.f, res.Bytes, false)
		if len(p.Errs) > 0 {
			run.Violate("C10/"+m.f+"/undecodable", map[string]any{"case": i, "errors": p.Errs})
			return
		}
		viol := func(kind string, d map[string]any) {
			d["case"], d["method"], d["type"], d["key"] = i, m.method, m.typ, keyName
			run.Violate("C10/"+m.f+"/"+kind, d)
		}
		switch {
		case m.f == "deb" && m.method != "dpkg-sig":
			wantMember := "_gpgorigin"
			if m.typ != "" {
				wantMember = "_gpg" + m.typ
			}
			last := p.Ar.Members[len(p.Ar.Members)-1]
			if p.SigMember == nil || p.SigMember.Name != wantMember || last.Name != wantMember {
				viol("debsign-member", map[string]any{"want": wantMember, "last_member": last.Name})
				return
			}
			msg := debMessage(p)
			if _, err := openpgp.CheckArmoredDetachedSignature(kr, bytes.NewReader(msg), bytes.NewReader(p.SigMember.Data), nil); err != nil {
				viol("debsign-does-not-verify", map[string]any{"error": err.Error()})
			} else {
				atomic.AddInt64(&verified, 1)
			}
			if pk.keyID != "" && !useCallback {
				if id := issuerOf(p.SigMember.Data, true); id != pk.keyID {
					viol("debsign-wrong-signing-key", map[string]any{"issuer": id, "want": pk.keyID})
				}
			}
			if useCallback {
				atomic.AddInt64(&cbBytes, 1)
				if len(received) != 1 || !bytes.Equal(received[0], msg) {
					viol("debsign-callback-bytes", map[string]any{"calls": len(received), "want_len": len(msg)})
				}
			}
			if haveGpgv && (i%4 == 0 || tier == "thorough") {
				if ok, out := gpgVerify(p.SigMember.Data, msg); !ok {
					viol("debsign-gpg-rejects", map[string]any{"gpg": ev.Short(out, 300)})
				}
			}
		case m.f == "deb":
			wantMember := "_gpgbuilder"
			if m.typ != "" {
				wantMember = "_gpg" + m.typ
			}
			if p.SigMember == nil || p.SigMember.Name != wantMember {
				viol("dpkg-sig-member", map[string]any{"want": wantMember})
				return
			}
			blk, _ := clearsign.Decode(p.SigMember.Data)
			if blk == nil {
				viol("dpkg-sig-not-clearsigned", map[string]any{"data": ev.Short(string(p.SigMember.Data), 200)})
				return
			}
			if _, err := blk.VerifySignature(kr, nil); err != nil {
				viol("dpkg-sig-does-not-verify", map[string]any{"error": err.Error()})
			} else {
				atomic.AddInt64(&verified, 1)
			}
			// manifest lines: "\t<md5> <sha1> <size> <name>"
			stored := map[string][]byte{}
			for _, mem := range p.Ar.Members {
				if !strings.HasPrefix(mem.Name, "_gpg") {
					stored[mem.Name] = mem.Data
				}
			}
			seen := map[string]bool{}
			inFiles := false
			for _, l := range strings.Split(string(blk.Plaintext), "\n") {
				l = strings.TrimRight(l, "\r")
				if strings.HasPrefix(l, "Files:") {
					inFiles = true
					continue
				}
				if !inFiles || strings.TrimSpace(l) == "" {
					continue
				}
				fs := strings.Fields(l)
				if len(fs) != 4 {
					viol("dpkg-sig-manifest-line-malformed", map[string]any{"line": l})
					continue
				}
				data, ok := stored[fs[3]]
				if !ok {
					viol("dpkg-sig-manifest-names-missing-member", map[string]any{"line": l, "members": keys(stored)})
					continue
				}
				seen[fs[3]] = true
				if fs[0] != fmt.Sprintf("%x", md5.Sum(data)) || fs[1] != fmt.Sprintf("%x", sha1.Sum(data)) || fs[2] != fmt.Sprint(len(data)) {
					viol("dpkg-sig-manifest-digest", map[string]any{"line": l})
				}
			}
			for nme := range stored {
				if !seen[nme] {
					viol("dpkg-sig-manifest-omits-member", map[string]any{"member": nme})
				}
			}
			if useCallback {
				atomic.AddInt64(&cbBytes, 1)
				// the callback is handed the manifest; it must name every stored
				// member with its digests (the callback's own clear-signing may
				// normalise white space, so lines are compared, not the stream)
				okCB := len(received) == 1
				for nme, data := range stored {
					line := fmt.Sprintf("%x %x %d %s", md5.Sum(data), sha1.Sum(data), len(data), nme)
					if okCB && !bytes.Contains(received[0], []byte(line)) {
						okCB = false
					}
				}
				if !okCB {
					viol("dpkg-sig-callback-bytes", map[string]any{"calls": len(received)})
				}
			}
			if haveGpgv && (i%4 == 0 || tier == "thorough") {
				if ok, out := gpgVerify(p.SigMember.Data, nil); !ok {
					viol("dpkg-sig-gpg-rejects", map[string]any{"gpg": ev.Short(out, 300), "signature_member": string(p.SigMember.Data)})
				}
			}
		case m.f == "rpm":
			sig := p.Rpm.Sig
			hdrSig, body := sig.Tags[dec.RpmSigRSA], sig.Tags[dec.RpmSigPGP]
			if hdrSig == nil || body == nil {
				viol("rpm-signature-tags-missing", map[string]any{"have_268": hdrSig != nil, "have_1002": body != nil})
				return
			}
			hmsg := p.Rpm.Hdr.Blob
			bmsg := append(append([]byte{}, hmsg...), p.Rpm.PayloadRaw...)
			if _, err := openpgp.CheckDetachedSignature(kr, bytes.NewReader(hmsg), bytes.NewReader(hdrSig.Bin), nil); err != nil {
				viol("rpm-header-signature-does-not-verify", map[string]any{"error": err.Error()})
			} else {
				atomic.AddInt64(&verified, 1)
			}
			if _, err := openpgp.CheckDetachedSignature(kr, bytes.NewReader(bmsg), bytes.NewReader(body.Bin), nil); err != nil {
				viol("rpm-header+payload-signature-does-not-verify", map[string]any{"error": err.Error()})
			} else {
				atomic.AddInt64(&verified, 1)
			}
			if pk.keyID != "" && !useCallback {
				if id := issuerOf(hdrSig.Bin, false); id != pk.keyID {
					viol("rpm-wrong-signing-key", map[string]any{"issuer": id, "want": pk.keyID})
				}
			}
			if useCallback {
				atomic.AddInt64(&cbBytes, 2)
				if len(received) != 2 || !bytes.Equal(received[0], hmsg) || !bytes.Equal(received[1], bmsg) {
					viol("rpm-callback-bytes", map[string]any{"calls": len(received)})
				}
			}
			if haveGpgv && (i%4 == 0 || tier == "thorough") {
				if ok, out := gpgVerify(hdrSig.Bin, hmsg); !ok {
					viol("rpm-gpg-rejects-header-signature", map[string]any{"gpg": ev.Short(out, 300)})
				}
			}
		case m.f == "apk":
			if p.SigTar == nil || len(p.SigTar.Entries) != 1 {
				viol("apk-signature-segment-missing", map[string]any{"gzip_members": len(p.GzMembers)})
				return
			}
			se := p.SigTar.Entries[0]
			wantName := ".SIGN.RSA."
			switch {
			case s.APK.Sig.KeyName != "":
				wantName += s.APK.Sig.KeyName + ".rsa.pub"
			default:
				wantName += apkMail + ".rsa.pub" // maintainer mail address, as written
			}
			if se.Name != wantName {
				viol("apk-signature-name", map[string]any{"got": se.Name, "want": wantName})
			}
			digest := sha1.Sum(p.CtrlRaw)
			if err := rsa.VerifyPKCS1v15(rsaPub, crypto.SHA1, digest[:], se.Data); err != nil {
				viol("apk-signature-does-not-verify", map[string]any{"error": err.Error()})
			} else {
				atomic.AddInt64(&verified, 1)
			}
			if useCallback {
				atomic.AddInt64(&cbBytes, 1)
				if len(received) != 1 || !bytes.Equal(received[0], digest[:]) {
					viol("apk-callback-bytes", map[string]any{"calls": len(received)})
				}
			}
			if have("openssl") && !useCallback {
				d := newWorkDir("c10-ossl")
				_ = os.WriteFile(filepath.Join(d, "ctrl"), p.CtrlRaw, 0o600)
				_ = os.WriteFile(filepath.Join(d, "sig"), se.Data, 0o600)
				_, _, code, err := runCmd(nil, d, nil, "openssl", "dgst", "-sha1", "-verify", testKey(rk.pub), "-signature", filepath.Join(d, "sig"), filepath.Join(d, "ctrl"))
				atomic.AddInt64(&opensslRuns, 1)
				if err == nil && code != 0 {
					viol("apk-openssl-rejects", map[string]any{})
				}
				removeWorkDir(d)
			}
		}
	})

	// ---------------- failure injection
	dir := newWorkDir("c10f")
	defer removeWorkDir(dir)
	payload := filepath.Join(dir, "p.txt")
	_ = os.WriteFile(payload, []byte("p\n"), 0o644)
	base := func() *gen.Spec {
		s := &gen.Spec{Name: "sigfail", Arch: "amd64", Version: "1.0.0", Maintainer: "S <s@example.com>", Description: "d", MTime: 1500000000}
		s.RPM.BuildHost = "verif-host"
		s.Contents = []*gen.Content{{Src: payload, Dst: "/opt/sigfail/p.txt"}}
		return s
	}
	signerErr := errors.New("verif: remote signer unavailable")
	expectSigningFailure := func(label string, err error, panicked string, wantInner error) {
		atomic.AddInt64(&failures, 1)
		run.Case("failure|"+label, true)
		var sf *nfpm.ErrSigningFailure
		switch {
		case panicked != "":
			run.Violate("C10/failure/panic/"+label, map[string]any{"panic": ev.Short(panicked, 300)})
		case err == nil:
			run.Violate("C10/failure/reported-as-success/"+label, map[string]any{})
		case !errors.As(err, &sf):
			run.Violate("C10/failure/not-identifiable-as-signing-failure/"+label, map[string]any{"error": err.Error(), "type": fmt.Sprintf("%T", err)})
		case wantInner != nil && !errors.Is(err, wantInner):
			run.Violate("C10/failure/signers-error-not-wrapped/"+label, map[string]any{"error": err.Error()})
		}
	}
	for _, fm := range []string{"deb", "deb-dpkg-sig", "rpm", "apk"} {
		format := strings.SplitN(fm, "-", 2)[0]
		s := base()
		if fm == "deb-dpkg-sig" {
			s.Deb.Sig.Method = "dpkg-sig"
		}
		cfg, _ := parseYAML(s.YAML(), nil)
		info, _ := infoFor(&cfg, format)
		fn := func(io.Reader) ([]byte, error) { return nil, signerErr }
		switch format {
		case "deb":
			info.Deb.Signature.SignFn = fn
		case "rpm":
			info.RPM.Signature.SignFn = fn
		case "apk":
			info.APK.Signature.SignFn = fn
		}
		r := packageInfo(format, info)
		expectSigningFailure("callback/"+fm, r.Err, r.Panic, signerErr)
		// wrong passphrase / missing passphrase / unusable key
		for _, bad := range []struct{ what, file, pass string }{
			{"wrong-passphrase", map[string]string{"deb": "privkey.asc", "rpm": "privkey.asc", "apk": "rsa.priv"}[format], "not-the-passphrase"},
			{"missing-passphrase", map[string]string{"deb": "privkey.gpg", "rpm": "privkey.gpg", "apk": "rsa.priv"}[format], ""},
			{"multiple-keys", map[string]string{"deb": "multiple_privkeys.asc", "rpm": "multiple_privkeys.asc", "apk": "wrong_key_format.priv"}[format], "hunter2"},
		} {
			s := base()
			if fm == "deb-dpkg-sig" {
				s.Deb.Sig.Method = "dpkg-sig"
			}
			switch format {
			case "deb":
				s.Deb.Sig.KeyFile = testKey(bad.file)
			case "rpm":
				s.RPM.Sig.KeyFile = testKey(bad.file)
			case "apk":
				s.APK.Sig.KeyFile = testKey(bad.file)
			}
			cfg, _ := parseYAML(s.YAML(), func(k string) string {
				if k == "NFPM_PASSPHRASE" {
					return bad.pass
				}
				return ""
			})
			info, _ := infoFor(&cfg, format)
			r := packageInfo(format, info)
			expectSigningFailure(bad.what+"/"+fm, r.Err, r.Panic, nil)
		}
	}
	// signer errors whose chain contains io.EOF / io.ErrUnexpectedEOF / context
	// errors (a remote signer whose connection was closed) are failures like any other
	for _, inner := range []error{io.EOF, io.ErrUnexpectedEOF, os.ErrDeadlineExceeded, fmt.Errorf("post https://kms: %w", io.EOF)} {
		for _, fm := range []string{"deb", "deb-dpkg-sig", "rpm", "apk"} {
			format := strings.SplitN(fm, "-", 2)[0]
			s := base()
			if fm == "deb-dpkg-sig" {
				s.Deb.Sig.Method = "dpkg-sig"
			}
			cfg, _ := parseYAML(s.YAML(), nil)
			info, _ := infoFor(&cfg, format)
			e := inner
			fn := func(io.Reader) ([]byte, error) { return nil, e }
			switch format {
			case "deb":
				info.Deb.Signature.SignFn = fn
			case "rpm":
				info.RPM.Signature.SignFn = fn
			case "apk":
				info.APK.Signature.SignFn = fn
			}
			r := packageInfo(format, info)
			expectSigningFailure(fmt.Sprintf("callback-returns-%T-%s/%s", inner, ev.KeyPart(inner.Error()), fm), r.Err, r.Panic, inner)
		}
	}
	// invalid debsign type, with key file and with callback
	for _, typ := range []string{"builder", "nonsense", "Origin"} {
		for _, cb := range []bool{false, true} {
			s := base()
			s.Deb.Sig.Type = typ
			if !cb {
				s.Deb.Sig.KeyFile = testKey("privkey_unprotected.asc")
			}
			cfg, _ := parseYAML(s.YAML(), nil)
			info, _ := infoFor(&cfg, "deb")
			called := false
			if cb {
				info.Deb.Signature.SignFn = func(io.Reader) ([]byte, error) { called = true; return []byte("x"), nil }
			}
			r := packageInfo("deb", info)
			expectSigningFailure(fmt.Sprintf("invalid-debsign-type/%s/callback=%v", typ, cb), r.Err, r.Panic, nil)
			_ = called
		}
	}
	// invalid key id
	for _, format := range []string{"deb", "rpm"} {
		s := base()
		s.Deb.Sig.KeyFile, s.Deb.Sig.KeyID = testKey("privkey_unprotected.asc"), "not-hex"
		s.RPM.Sig.KeyFile, s.RPM.Sig.KeyID = testKey("privkey_unprotected.asc"), "not-hex"
		cfg, _ := parseYAML(s.YAML(), nil)
		info, _ := infoFor(&cfg, format)
		r := packageInfo(format, info)
		expectSigningFailure("key-id-not-hex/"+format, r.Err, r.Panic, nil)
	}
	// a well-formed key id that no key in the key file has: the failure happens
	// in the signing step itself
	for _, fm := range []string{"deb", "deb-dpkg-sig", "rpm"} {
		format := strings.SplitN(fm, "-", 2)[0]
		s := base()
		if fm == "deb-dpkg-sig" {
			s.Deb.Sig.Method = "dpkg-sig"
		}
		s.Deb.Sig.KeyFile, s.Deb.Sig.KeyID = testKey("privkey_unprotected.asc"), "1234567890abcdef"
		s.RPM.Sig.KeyFile, s.RPM.Sig.KeyID = testKey("privkey_unprotected.asc"), "1234567890abcdef"
		cfg, _ := parseYAML(s.YAML(), nil)
		info, _ := infoFor(&cfg, format)
		r := packageInfo(format, info)
		expectSigningFailure("key-id-unknown/"+fm, r.Err, r.Panic, nil)
	}
	// a signer whose own error already is (wraps) an ErrSigningFailure with more
	// context around it: the returned error must still wrap the signer's error
	{
		outer := &wrappedSignerError{inner: &nfpm.ErrSigningFailure{Err: errors.New("kms backend said no")}}
		for _, fm := range []string{"deb", "deb-dpkg-sig", "rpm", "apk"} {
			format := strings.SplitN(fm, "-", 2)[0]
			s := base()
			if fm == "deb-dpkg-sig" {
				s.Deb.Sig.Method = "dpkg-sig"
			}
			cfg, _ := parseYAML(s.YAML(), nil)
			info, _ := infoFor(&cfg, format)
			fn := func(io.Reader) ([]byte, error) { return nil, outer }
			switch format {
			case "deb":
				info.Deb.Signature.SignFn = fn
			case "rpm":
				info.RPM.Signature.SignFn = fn
			case "apk":
				info.APK.Signature.SignFn = fn
			}
			r := packageInfo(format, info)
			expectSigningFailure("callback-error-wrapping-a-signing-failure/"+fm, r.Err, r.Panic, outer)
		}
	}
	// history: after all the failed signings above, signing must still work in
	// this process (nothing stale may be left behind by a failed attempt)
	for rep := 0; rep < 6; rep++ {
		for _, f := range []string{"deb", "rpm", "apk"} {
			s := base()
			s.Description = fmt.Sprintf("good build %d", rep)
			s.Deb.Sig.KeyFile = testKey("privkey_unprotected.asc")
			s.RPM.Sig.KeyFile = testKey("privkey_unprotected.asc")
			s.APK.Sig.KeyFile = testKey("rsa_unprotected.priv")
			// first a failing apk/deb/rpm build whose control data differs, then the good one
			bad := base()
			bad.Description = "a different control segment " + strings.Repeat("x", 700)
			bad.Deb.Sig.KeyFile, bad.RPM.Sig.KeyFile, bad.APK.Sig.KeyFile = testKey("privkey.asc"), testKey("privkey.asc"), testKey("rsa.priv") // protected, no passphrase
			_ = buildYAML(bad.YAML(), f)
			res := buildYAML(s.YAML(), f)
			run.Case(fmt.Sprintf("sign-after-failed-signing|%s|%d", f, rep), true)
			if res.Err != nil || res.Panic != "" {
				run.Violate("C10/"+f+"/signed-build-error/after-failed-signing", map[string]any{"error": fmt.Sprint(res.Err, res.Panic)})
				continue
			}
			p := dec.Decode(f, res.Bytes, false)
			if len(p.Errs) > 0 {
				run.Violate("C10/"+f+"/undecodable/after-failed-signing", map[string]any{"errors": p.Errs})
				continue
			}
			// a build of the same settings in a process state without the failed
			// attempt is the reference for everything but the signature itself
			var verr error
			switch f {
			case "deb":
				_, verr = openpgp.CheckArmoredDetachedSignature(kr, bytes.NewReader(debMessage(p)), bytes.NewReader(p.SigMember.Data), nil)
			case "rpm":
				_, verr = openpgp.CheckDetachedSignature(kr, bytes.NewReader(p.Rpm.Hdr.Blob), bytes.NewReader(p.Rpm.Sig.Tags[dec.RpmSigRSA].Bin), nil)
			case "apk":
				pub, _ := loadRSAPub(testKey("rsa_unprotected.pub"))
				d := sha1.Sum(p.CtrlRaw)
				if p.SigTar == nil || len(p.SigTar.Entries) != 1 {
					verr = errors.New("no signature segment")
				} else {
					verr = rsa.VerifyPKCS1v15(pub, crypto.SHA1, d[:], p.SigTar.Entries[0].Data)
				}
			}
			if verr != nil {
				run.Violate("C10/"+f+"/signature-does-not-verify/after-failed-signing", map[string]any{"error": verr.Error()})
			} else {
				atomic.AddInt64(&verified, 1)
			}
		}
	}
	// apk: no key name and a maintainer that yields none - the signature cannot be named,
	// which is a signing failure like any other
	for _, maint := range []string{"", "not an address", "Name Only"} {
		s := base()
		s.Maintainer = maint
		s.APK.Sig.KeyFile = testKey("rsa_unprotected.priv")
		cfg, err := parseYAML(s.YAML(), nil)
		if err != nil {
			continue
		}
		info, err := infoFor(&cfg, "apk")
		if err != nil {
			continue
		}
		r := packageInfo("apk", info)
		expectSigningFailure("apk-signature-cannot-be-named/maintainer="+ev.KeyPart(maint), r.Err, r.Panic, nil)
	}
	c10OddPassphrases(run, base, &verified)
	// history: the key file is replaced by another key between two builds in
	// the same process; the second package must be signed by the new key
	c10KeyRotation(run, base, &verified)
	if haveGpgv {
		c10KeySizes(run, base, &verified, gpgHome, gpgVerify)
	}
	c10SourceDateEpoch(run, base, kr, &verified, haveGpgv, gpgVerify)
	c10EmptyKeyID(run, base, kr, &verified)
	c10Keyrings(run, base, &verified)
	c10CallbackAndKeyFile(run, base, kr, &verified)
	c10UnneededPassphrase(run, base, kr, &verified)
	// the command line tool: a run whose signing fails reports the failure and leaves
	// no package at the target, also when an earlier run had left one there
	if bin := nfpmBin(run); bin != "" {
		cdir := newWorkDir("c10-cli")
		for _, fm := range []string{"deb", "deb-dpkg-sig", "rpm", "apk"} {
			format := strings.SplitN(fm, "-", 2)[0]
			s := base()
			if fm == "deb-dpkg-sig" {
				s.Deb.Sig.Method = "dpkg-sig"
			}
			switch format {
			case "deb":
				s.Deb.Sig.KeyFile = testKey("privkey.asc")
			case "rpm":
				s.RPM.Sig.KeyFile = testKey("privkey.asc")
			case "apk":
				s.APK.Sig.KeyFile = testKey("rsa.priv")
			}
			cfgp := filepath.Join(cdir, fm+".yaml")
			_ = os.WriteFile(cfgp, []byte(s.YAML()), 0o644)
			target := filepath.Join(cdir, "signed-"+fm+"."+format)
			env := func(pass string) []string {
				return []string{"PATH=" + os.Getenv("PATH"), "HOME=" + cdir, "NFPM_PASSPHRASE=" + pass}
			}
			run.Case("cli|failed-signing-over-an-earlier-package|"+fm, true)
			so, se, code, err := runCmd(nil, cdir, env("hunter2"), bin, "package", "-f", cfgp, "-p", format, "-t", target)
			if err != nil || code != 0 {
				run.Violate("C10/cli/"+fm+"/signed-build-failed", map[string]any{"exit": code, "output": ev.Short(string(so)+string(se), 300)})
				continue
			}
			so, se, code, err = runCmd(nil, cdir, env("not-the-passphrase"), bin, "package", "-f", cfgp, "-p", format, "-t", target)
			atomic.AddInt64(&failures, 1)
			if err == nil && code == 0 {
				run.Violate("C10/cli/"+fm+"/failed-signing-reported-as-success", map[string]any{"output": ev.Short(string(so)+string(se), 300)})
				continue
			}
			if raw, err := os.ReadFile(target); err == nil {
				if p := dec.Decode(format, raw, false); len(raw) > 0 && len(p.Errs) == 0 {
					run.Violate("C10/cli/"+fm+"/package-without-valid-signature-left-at-the-target/after-failed-signing-over-an-earlier-package", map[string]any{"exit": code, "bytes_at_target": len(raw), "signature_member_present": p.SigMember != nil || p.SigTar != nil})
				}
			}
		}
		removeWorkDir(cdir)
	}
	run.Set("signatures_verified", verified)
	run.Set("callback_byte_streams_compared", cbBytes)
	run.Set("failure_injections", failures)
	run.Set("gpg_verify_runs", gpgRuns)
	run.Set("gpg_rejections_not_reproducible_on_retry", gpgFlakes)
	run.Set("openssl_verify_runs", opensslRuns)
	run.Set("external_verifiers", map[string]bool{"gpg": haveGpgv, "openssl": have("openssl")})
	run.Assume("signing keys are the PGP/RSA test keys shipped in /repo/internal/sign/testdata (one public key for all PGP variants)")
}

func keys(m map[string][]byte) []string {
	var out []string
	for k := range m {
		out = append(out, k)
	}
	return out
}

func canonLF(b []byte) []byte { return bytes.ReplaceAll(b, []byte("\r\n"), []byte("\n")) }

var (
	entOnce sync.Once
	entVal  *openpgp.Entity
	entErr  error
)

func unprotectedEntity() (*openpgp.Entity, error) {
	entOnce.Do(func() {
		b, err := os.ReadFile(testKey("privkey_unprotected.asc"))
		if err != nil {
			entErr = err
			return
		}
		el, err := openpgp.ReadArmoredKeyRing(bytes.NewReader(b))
		if err != nil || len(el) == 0 {
			entErr = fmt.Errorf("cannot parse key: %v", err)
			return
		}
		entVal = el[0]
	})
	return entVal, entErr
}

func loadRSAPriv(p string) (*rsa.PrivateKey, error) {
	b, err := os.ReadFile(p)
	if err != nil {
		return nil, err
	}
	blk, _ := pem.Decode(b)
	if blk == nil {
		return nil, errors.New("no PEM block")
	}
	return x509.ParsePKCS1PrivateKey(blk.Bytes)
}

// issuerOf returns the hex issuer key id of an OpenPGP signature.
func issuerOf(sig []byte, armored bool) string {
	var r io.Reader = bytes.NewReader(sig)
	if armored {
		blk, err := armorDecode(sig)
		if err != nil {
			return "undecodable"
		}
		r = blk
	}
	pkt, err := packet.Read(r)
	if err != nil {
		return "undecodable"
	}
	s, ok := pkt.(*packet.Signature)
	if !ok || s.IssuerKeyId == nil {
		return "no-issuer"
	}
	return fmt.Sprintf("%x", *s.IssuerKeyId)
}

func armorDecode(b []byte) (io.Reader, error) {
	blk, err := armor.Decode(bytes.NewReader(b))
	if err != nil {
		return nil, err
	}
	return blk.Body, nil
}

type wrappedSignerError struct{ inner error }

func (w *wrappedSignerError) Error() string { return "remote signer: " + w.inner.Error() }
func (w *wrappedSignerError) Unwrap() error { return w.inner }

func writeArmoredPrivateKey(path string, e *openpgp.Entity) error {
	var b bytes.Buffer
	w, err := armor.Encode(&b, openpgp.PrivateKeyType, nil)
	if err != nil {
		return err
	}
	if err := e.SerializePrivateWithoutSigning(w, nil); err != nil {
		return err
	}
	if err := w.Close(); err != nil {
		return err
	}
	return os.WriteFile(path, b.Bytes(), 0o600)
}

func c10KeyRotation(run *ev.Run, base func() *gen.Spec, verified *int64) {
	dir := newWorkDir("c10rot")
	defer removeWorkDir(dir)
	cfg := &packet.Config{RSABits: 2048, DefaultHash: crypto.SHA256}
	k1, err1 := openpgp.NewEntity("Key One", "", "one@example.com", cfg)
	k2, err2 := openpgp.NewEntity("Key Two", "", "two@example.com", cfg)
	if err1 != nil || err2 != nil {
		run.Inconclusive(fmt.Sprint("cannot generate PGP keys: ", err1, err2))
		return
	}
	keyPath := filepath.Join(dir, "signing-key.asc")
	for _, f := range []string{"deb", "deb-dpkg-sig", "rpm"} {
		format := strings.SplitN(f, "-", 2)[0]
		for round, k := range []*openpgp.Entity{k1, k2, k1} {
			if err := writeArmoredPrivateKey(keyPath, k); err != nil {
				run.Inconclusive(err.Error())
				return
			}
			s := base()
			s.Deb.Sig.KeyFile, s.RPM.Sig.KeyFile = keyPath, keyPath
			if f == "deb-dpkg-sig" {
				s.Deb.Sig.Method = "dpkg-sig"
			}
			res := buildYAML(s.YAML(), format)
			run.Case(fmt.Sprintf("key-rotation|%s|%d", f, round), round > 0)
			if res.Err != nil || res.Panic != "" {
				run.Violate("C10/"+format+"/signed-build-error/rotated-key", map[string]any{"round": round, "method": f, "error": fmt.Sprint(res.Err, res.Panic)})
				continue
			}
			p := dec.Decode(format, res.Bytes, false)
			ring := openpgp.EntityList{k}
			var verr error
			switch f {
			case "deb":
				_, verr = openpgp.CheckArmoredDetachedSignature(ring, bytes.NewReader(debMessage(p)), bytes.NewReader(p.SigMember.Data), nil)
			case "deb-dpkg-sig":
				if blk, _ := clearsign.Decode(p.SigMember.Data); blk == nil {
					verr = errors.New("not clear-signed")
				} else {
					_, verr = blk.VerifySignature(ring, nil)
				}
			case "rpm":
				_, verr = openpgp.CheckDetachedSignature(ring, bytes.NewReader(p.Rpm.Hdr.Blob), bytes.NewReader(p.Rpm.Sig.Tags[dec.RpmSigRSA].Bin), nil)
			}
			if verr != nil {
				run.Violate("C10/"+format+"/signature-not-by-the-key-in-the-key-file/after-key-rotation", map[string]any{"round": round, "method": f, "error": verr.Error()})
			} else {
				atomic.AddInt64(verified, 1)
			}
		}
	}
}

// c10OddPassphrases: a passphrase is data - leading/trailing blanks, tabs and
// '$' belong to it. Keys are generated and locked with such passphrases, the
// passphrase reaches nfpm through the environment mapping.
func c10OddPassphrases(run *ev.Run, base func() *gen.Spec, verified *int64) {
	dir := newWorkDir("c10pass")
	defer removeWorkDir(dir)
	for pi, pass := range []string{" leading", "trailing ", "\ttab\t", "in ner", "pa$$word", "  "} {
		ent, err := openpgp.NewEntity("Locked", "", "locked@example.com", &packet.Config{RSABits: 2048, DefaultHash: crypto.SHA256})
		if err != nil {
			run.Inconclusive("cannot generate a PGP key: " + err.Error())
			return
		}
		if err := ent.EncryptPrivateKeys([]byte(pass), nil); err != nil {
			run.Inconclusive("cannot lock the generated key: " + err.Error())
			return
		}
		keyPath := filepath.Join(dir, fmt.Sprintf("locked-%d.asc", pi))
		if err := writeArmoredPrivateKey(keyPath, ent); err != nil {
			run.Inconclusive(err.Error())
			return
		}
		// the apk signer takes an RSA key in an encrypted PEM block: same passphrase
		rsaKey, rerr := rsa.GenerateKey(rand.Reader, 2048)
		if rerr != nil {
			run.Inconclusive(rerr.Error())
			return
		}
		//nolint:staticcheck // the legacy PEM encryption is what apk key files use
		blk, rerr := x509.EncryptPEMBlock(rand.Reader, "RSA PRIVATE KEY", x509.MarshalPKCS1PrivateKey(rsaKey), []byte(pass), x509.PEMCipherAES256)
		if rerr != nil {
			run.Inconclusive(rerr.Error())
			return
		}
		rsaPath := filepath.Join(dir, fmt.Sprintf("locked-%d.rsa.priv", pi))
		_ = os.WriteFile(rsaPath, pem.EncodeToMemory(blk), 0o600)
		{
			s := base()
			s.APK.Sig.KeyFile, s.APK.Sig.KeyName = rsaPath, "verif"
			cfg, err := parseYAML(s.YAML(), func(k string) string {
				if k == "NFPM_APK_PASSPHRASE" {
					return pass
				}
				return ""
			})
			if err == nil {
				info, _ := infoFor(&cfg, "apk")
				res := packageInfo("apk", info)
				run.Case(fmt.Sprintf("odd-passphrase|%q|apk", pass), true)
				if res.Err != nil || res.Panic != "" {
					run.Violate("C10/apk/signed-build-error/passphrase-with-special-characters", map[string]any{"passphrase": pass, "error": fmt.Sprint(res.Err, res.Panic)})
				} else {
					p := dec.Decode("apk", res.Bytes, false)
					if len(p.GzMembers) < 2 || p.SigTar == nil || len(p.SigTar.Entries) == 0 {
						run.Violate("C10/apk/signature-does-not-verify/passphrase-with-special-characters", map[string]any{"error": "no signature segment"})
					} else if h := sha1.Sum(p.GzMembers[1].Raw); rsa.VerifyPKCS1v15(&rsaKey.PublicKey, crypto.SHA1, h[:], p.SigTar.Entries[0].Data) != nil {
						run.Violate("C10/apk/signature-does-not-verify/passphrase-with-special-characters", map[string]any{"passphrase": pass})
					} else {
						atomic.AddInt64(verified, 1)
					}
				}
			}
		}
		for _, f := range []string{"deb", "rpm"} {
			s := base()
			s.Deb.Sig.KeyFile, s.RPM.Sig.KeyFile = keyPath, keyPath
			cfg, err := parseYAML(s.YAML(), func(k string) string {
				if k == "NFPM_"+strings.ToUpper(f)+"_PASSPHRASE" {
					return pass
				}
				return ""
			})
			if err != nil {
				run.Inconclusive(err.Error())
				continue
			}
			info, _ := infoFor(&cfg, f)
			res := packageInfo(f, info)
			run.Case(fmt.Sprintf("odd-passphrase|%q|%s", pass, f), true)
			if res.Err != nil || res.Panic != "" {
				run.Violate("C10/"+f+"/signed-build-error/passphrase-with-special-characters", map[string]any{"passphrase": pass, "error": fmt.Sprint(res.Err, res.Panic)})
				continue
			}
			p := dec.Decode(f, res.Bytes, false)
			ring := openpgp.EntityList{ent}
			var verr error
			if f == "deb" {
				_, verr = openpgp.CheckArmoredDetachedSignature(ring, bytes.NewReader(debMessage(p)), bytes.NewReader(p.SigMember.Data), nil)
			} else {
				_, verr = openpgp.CheckDetachedSignature(ring, bytes.NewReader(p.Rpm.Hdr.Blob), bytes.NewReader(p.Rpm.Sig.Tags[dec.RpmSigRSA].Bin), nil)
			}
			if verr != nil {
				run.Violate("C10/"+f+"/signature-does-not-verify/passphrase-with-special-characters", map[string]any{"error": verr.Error()})
			} else {
				atomic.AddInt64(verified, 1)
			}
		}
	}
}

// rearmorWithCRC rewrites the trailing signature block of a clear-signed
// message with the optional CRC-24 line.
func rearmorWithCRC(signed []byte) []byte {
	idx := bytes.LastIndex(signed, []byte("-----BEGIN PGP SIGNATURE-----"))
	if idx < 0 {
		return signed
	}
	blk, err := armor.Decode(bytes.NewReader(signed[idx:]))
	if err != nil {
		return signed
	}
	sig, err := io.ReadAll(blk.Body)
	if err != nil {
		return signed
	}
	var out bytes.Buffer
	out.Write(signed[:idx])
	w, err := armor.Encode(&out, blk.Type, nil)
	if err != nil {
		return signed
	}
	_, _ = w.Write(sig)
	_ = w.Close()
	out.WriteByte('\n')
	return out.Bytes()
}

// c10KeySizes: the signature packet length depends on the key size, and with
// it the shape of the armor (base64 padding). Every size must give members gpg
// accepts: RSA-3072 signatures have a length divisible by three (F23).
func c10KeySizes(run *ev.Run, base func() *gen.Spec, verified *int64, gpgHome string, gpgVerify func(sig, msg []byte) (bool, string)) {
	dir := newWorkDir("c10size")
	defer removeWorkDir(dir)
	for _, bits := range []int{2048, 3072, 4096} {
		ent, err := openpgp.NewEntity("Sized", "", fmt.Sprintf("rsa%d@example.com", bits), &packet.Config{RSABits: bits, DefaultHash: crypto.SHA256})
		if err != nil {
			run.Inconclusive("cannot generate a PGP key: " + err.Error())
			return
		}
		keyPath := filepath.Join(dir, fmt.Sprintf("rsa%d.asc", bits))
		if err := writeArmoredPrivateKey(keyPath, ent); err != nil {
			run.Inconclusive(err.Error())
			return
		}
		var pub bytes.Buffer
		if w, err := armor.Encode(&pub, openpgp.PublicKeyType, nil); err == nil {
			_ = ent.Serialize(w)
			_ = w.Close()
		}
		_ = os.WriteFile(keyPath+".pub", pub.Bytes(), 0o600)
		if _, se, code, err := runCmd(nil, dir, []string{"GNUPGHOME=" + gpgHome, "PATH=" + os.Getenv("PATH")}, "gpg", "--batch", "--quiet", "--import", keyPath+".pub"); err != nil || code != 0 {
			run.Set("gpg_keysize_note", "gpg could not import a generated key: "+ev.Short(string(se), 200))
			return
		}
		for _, method := range []string{"debsign", "dpkg-sig"} {
			for rep := 0; rep < 2; rep++ {
				s := base()
				s.Deb.Sig.KeyFile = keyPath
				s.Deb.Sig.Method = method
				s.Release = fmt.Sprint(rep + 1)
				res := buildYAML(s.YAML(), "deb")
				run.Case(fmt.Sprintf("key-size|%d|%s", bits, method), true)
				if res.Err != nil || res.Panic != "" {
					run.Violate("C10/deb/signed-build-error/generated-key", map[string]any{"bits": bits, "method": method, "error": fmt.Sprint(res.Err, res.Panic)})
					continue
				}
				p := dec.Decode("deb", res.Bytes, false)
				if p.SigMember == nil {
					run.Violate("C10/deb/signature-member-missing", map[string]any{"bits": bits, "method": method})
					continue
				}
				var ok bool
				var out string
				if method == "debsign" {
					ok, out = gpgVerify(p.SigMember.Data, debMessage(p))
				} else {
					ok, out = gpgVerify(p.SigMember.Data, nil)
				}
				if !ok {
					key := "C10/deb/debsign-gpg-rejects"
					if method == "dpkg-sig" {
						key = "C10/deb/dpkg-sig-gpg-rejects"
					}
					run.Violate(key, map[string]any{"rsa_bits": bits, "method": method, "gpg": ev.Short(out, 300), "signature_member": string(p.SigMember.Data)})
				} else {
					atomic.AddInt64(verified, 1)
				}
			}
		}
	}
}

// c10SourceDateEpoch: reproducible-build setups export SOURCE_DATE_EPOCH, often
// a date long before the signing key was made (the last commit of an old
// branch) or far ahead. Signing with a key that is valid today still works and
// the signature verifies.
func c10SourceDateEpoch(run *ev.Run, base func() *gen.Spec, kr openpgp.EntityList, verified *int64, haveGpg bool, gpgVerify func(sig, msg []byte) (bool, string)) {
	prev, had := os.LookupEnv("SOURCE_DATE_EPOCH")
	defer func() {
		if had {
			_ = os.Setenv("SOURCE_DATE_EPOCH", prev)
		} else {
			_ = os.Unsetenv("SOURCE_DATE_EPOCH")
		}
	}()
	for _, sde := range []string{"1000000000", "0", "4000000000"} {
		_ = os.Setenv("SOURCE_DATE_EPOCH", sde)
		for _, m := range []string{"deb", "deb-dpkg-sig", "rpm"} {
			format := strings.SplitN(m, "-", 2)[0]
			s := base()
			s.MTime = 0
			s.Deb.Sig.KeyFile, s.RPM.Sig.KeyFile = testKey("privkey_unprotected.asc"), testKey("privkey_unprotected.asc")
			if m == "deb-dpkg-sig" {
				s.Deb.Sig.Method = "dpkg-sig"
			}
			res := buildYAML(s.YAML(), format)
			run.Case("source-date-epoch|"+sde+"|"+m, true)
			if res.Err != nil || res.Panic != "" {
				run.Violate("C10/"+format+"/signed-build-error/source-date-epoch-set", map[string]any{"SOURCE_DATE_EPOCH": sde, "method": m, "error": fmt.Sprint(res.Err, ev.Short(res.Panic, 200))})
				continue
			}
			p := dec.Decode(format, res.Bytes, false)
			var verr error
			gpgOK, gpgOut := true, ""
			switch m {
			case "deb":
				_, verr = openpgp.CheckArmoredDetachedSignature(kr, bytes.NewReader(debMessage(p)), bytes.NewReader(p.SigMember.Data), nil)
				if haveGpg {
					gpgOK, gpgOut = gpgVerify(p.SigMember.Data, debMessage(p))
				}
			case "deb-dpkg-sig":
				if blk, _ := clearsign.Decode(p.SigMember.Data); blk == nil {
					verr = errors.New("not clear-signed")
				} else {
					_, verr = blk.VerifySignature(kr, nil)
				}
				if haveGpg {
					gpgOK, gpgOut = gpgVerify(p.SigMember.Data, nil)
				}
			case "rpm":
				_, verr = openpgp.CheckDetachedSignature(kr, bytes.NewReader(p.Rpm.Hdr.Blob), bytes.NewReader(p.Rpm.Sig.Tags[dec.RpmSigRSA].Bin), nil)
				if haveGpg {
					gpgOK, gpgOut = gpgVerify(p.Rpm.Sig.Tags[dec.RpmSigRSA].Bin, p.Rpm.Hdr.Blob)
				}
			}
			switch {
			case verr != nil:
				run.Violate("C10/"+format+"/signature-does-not-verify/source-date-epoch-set", map[string]any{"SOURCE_DATE_EPOCH": sde, "method": m, "error": verr.Error()})
			case !gpgOK:
				run.Violate("C10/"+format+"/gpg-rejects/source-date-epoch-set", map[string]any{"SOURCE_DATE_EPOCH": sde, "method": m, "gpg": ev.Short(gpgOut, 300)})
			default:
				atomic.AddInt64(verified, 1)
			}
		}
	}
}

// c10EmptyKeyID: a key_id that is present but empty - typically `key_id:
// ${SIGNING_KEY_ID}` in a pipeline that does not set the variable - selects
// nothing: the key file's own signing key signs.
func c10EmptyKeyID(run *ev.Run, base func() *gen.Spec, kr openpgp.EntityList, verified *int64) {
	for _, kid := range []string{"${VERIF_UNSET_KEY_ID}", "${VERIF_BLANK_KEY_ID}"} {
		for _, m := range []string{"deb", "deb-dpkg-sig", "rpm"} {
			format := strings.SplitN(m, "-", 2)[0]
			s := base()
			s.Deb.Sig.KeyFile, s.RPM.Sig.KeyFile = testKey("privkey_unprotected.asc"), testKey("privkey_unprotected.asc")
			s.Deb.Sig.KeyID, s.RPM.Sig.KeyID = kid, kid
			if m == "deb-dpkg-sig" {
				s.Deb.Sig.Method = "dpkg-sig"
			}
			cfg, err := parseYAML(s.YAML(), func(string) string { return "" })
			run.Case("empty-key-id|"+kid+"|"+m, true)
			if err != nil {
				run.Violate("C10/"+format+"/signed-build-error/key-id-expands-to-nothing", map[string]any{"key_id": kid, "method": m, "error": err.Error()})
				continue
			}
			info, _ := infoFor(&cfg, format)
			res := packageInfo(format, info)
			if res.Err != nil || res.Panic != "" {
				run.Violate("C10/"+format+"/signed-build-error/key-id-expands-to-nothing", map[string]any{"key_id": kid, "method": m, "error": fmt.Sprint(res.Err, ev.Short(res.Panic, 200))})
				continue
			}
			p := dec.Decode(format, res.Bytes, false)
			var verr error
			switch m {
			case "deb":
				_, verr = openpgp.CheckArmoredDetachedSignature(kr, bytes.NewReader(debMessage(p)), bytes.NewReader(p.SigMember.Data), nil)
			case "deb-dpkg-sig":
				if blk, _ := clearsign.Decode(p.SigMember.Data); blk == nil {
					verr = errors.New("not clear-signed")
				} else {
					_, verr = blk.VerifySignature(kr, nil)
				}
			case "rpm":
				_, verr = openpgp.CheckDetachedSignature(kr, bytes.NewReader(p.Rpm.Hdr.Blob), bytes.NewReader(p.Rpm.Sig.Tags[dec.RpmSigRSA].Bin), nil)
			}
			if verr != nil {
				run.Violate("C10/"+format+"/signature-does-not-verify/key-id-expands-to-nothing", map[string]any{"key_id": kid, "method": m, "error": verr.Error()})
			} else {
				atomic.AddInt64(verified, 1)
			}
		}
	}
}

// c10Keyrings: a key file may hold more than the signing key - other people's
// public keys exported into the same file, before or after it, armored or
// binary. The one secret key signs.
func c10Keyrings(run *ev.Run, base func() *gen.Spec, verified *int64) {
	dir := newWorkDir("c10ring")
	defer removeWorkDir(dir)
	cfg := &packet.Config{RSABits: 2048, DefaultHash: crypto.SHA256}
	signer, err1 := openpgp.NewEntity("Signer", "", "signer@example.com", cfg)
	other, err2 := openpgp.NewEntity("Other", "", "other@example.com", cfg)
	if err1 != nil || err2 != nil {
		run.Inconclusive(fmt.Sprint("cannot generate PGP keys: ", err1, err2))
		return
	}
	write := func(name string, armored bool, order []string) string {
		var raw bytes.Buffer
		for _, o := range order {
			if o == "secret" {
				_ = signer.SerializePrivateWithoutSigning(&raw, nil)
			} else {
				_ = other.Serialize(&raw)
			}
		}
		p := filepath.Join(dir, name)
		if !armored {
			_ = os.WriteFile(p, raw.Bytes(), 0o600)
			return p
		}
		var out bytes.Buffer
		w, _ := armor.Encode(&out, openpgp.PrivateKeyType, nil)
		_, _ = w.Write(raw.Bytes())
		_ = w.Close()
		_ = os.WriteFile(p, out.Bytes(), 0o600)
		return p
	}
	for _, armored := range []bool{false, true} {
		for _, order := range [][]string{{"secret", "public"}, {"public", "secret"}, {"public", "secret", "public"}} {
			keyPath := write(fmt.Sprintf("ring-%v-%s.key", armored, strings.Join(order, "-")), armored, order)
			for _, m := range []string{"deb", "deb-dpkg-sig", "rpm"} {
				format := strings.SplitN(m, "-", 2)[0]
				s := base()
				s.Deb.Sig.KeyFile, s.RPM.Sig.KeyFile = keyPath, keyPath
				if m == "deb-dpkg-sig" {
					s.Deb.Sig.Method = "dpkg-sig"
				}
				res := buildYAML(s.YAML(), format)
				run.Case(fmt.Sprintf("keyring|armored=%v|%s|%s", armored, strings.Join(order, "+"), m), true)
				if res.Err != nil || res.Panic != "" {
					run.Violate("C10/"+format+"/signed-build-error/key-file-with-further-public-keys", map[string]any{"armored": armored, "order": order, "method": m, "error": fmt.Sprint(res.Err, ev.Short(res.Panic, 200))})
					continue
				}
				p := dec.Decode(format, res.Bytes, false)
				ring := openpgp.EntityList{signer}
				var verr error
				switch m {
				case "deb":
					_, verr = openpgp.CheckArmoredDetachedSignature(ring, bytes.NewReader(debMessage(p)), bytes.NewReader(p.SigMember.Data), nil)
				case "deb-dpkg-sig":
					if blk, _ := clearsign.Decode(p.SigMember.Data); blk == nil {
						verr = errors.New("not clear-signed")
					} else {
						_, verr = blk.VerifySignature(ring, nil)
					}
				case "rpm":
					_, verr = openpgp.CheckDetachedSignature(ring, bytes.NewReader(p.Rpm.Hdr.Blob), bytes.NewReader(p.Rpm.Sig.Tags[dec.RpmSigRSA].Bin), nil)
				}
				if verr != nil {
					run.Violate("C10/"+format+"/signature-not-by-the-secret-key-of-the-key-file", map[string]any{"armored": armored, "order": order, "method": m, "error": verr.Error()})
				} else {
					atomic.AddInt64(verified, 1)
				}
			}
		}
	}
}

// c10UnneededPassphrase: a passphrase that is configured although the key is
// not protected (one NFPM_PASSPHRASE for all formats of a configuration, only
// some of whose keys are locked) does not get in the way.
func c10UnneededPassphrase(run *ev.Run, base func() *gen.Spec, kr openpgp.EntityList, verified *int64) {
	rsaPub, err := loadRSAPub(testKey("rsa_unprotected.pub"))
	if err != nil {
		run.Inconclusive(err.Error())
		return
	}
	for _, envName := range []string{"NFPM_PASSPHRASE", "SPECIFIC"} {
		for _, f := range []string{"deb", "rpm", "apk"} {
			s := base()
			s.Deb.Sig.KeyFile, s.RPM.Sig.KeyFile = testKey("privkey_unprotected.asc"), testKey("privkey_unprotected.asc")
			s.APK.Sig.KeyFile, s.APK.Sig.KeyName = testKey("rsa_unprotected.priv"), "verif"
			name := envName
			if name == "SPECIFIC" {
				name = "NFPM_" + strings.ToUpper(f) + "_PASSPHRASE"
			}
			cfg, err := parseYAML(s.YAML(), func(k string) string {
				if k == name {
					return "not-needed-for-this-key"
				}
				return ""
			})
			run.Case("unneeded-passphrase|"+name+"|"+f, true)
			if err != nil {
				run.Inconclusive(err.Error())
				continue
			}
			info, _ := infoFor(&cfg, f)
			res := packageInfo(f, info)
			if res.Err != nil || res.Panic != "" {
				run.Violate("C10/"+f+"/signed-build-error/passphrase-given-for-an-unprotected-key", map[string]any{"variable": name, "error": fmt.Sprint(res.Err, ev.Short(res.Panic, 200))})
				continue
			}
			p := dec.Decode(f, res.Bytes, false)
			var verr error
			switch f {
			case "deb":
				_, verr = openpgp.CheckArmoredDetachedSignature(kr, bytes.NewReader(debMessage(p)), bytes.NewReader(p.SigMember.Data), nil)
			case "rpm":
				_, verr = openpgp.CheckDetachedSignature(kr, bytes.NewReader(p.Rpm.Hdr.Blob), bytes.NewReader(p.Rpm.Sig.Tags[dec.RpmSigRSA].Bin), nil)
			case "apk":
				if len(p.GzMembers) < 2 || p.SigTar == nil || len(p.SigTar.Entries) == 0 {
					verr = errors.New("no signature segment")
				} else {
					h := sha1.Sum(p.GzMembers[1].Raw)
					verr = rsa.VerifyPKCS1v15(rsaPub, crypto.SHA1, h[:], p.SigTar.Entries[0].Data)
				}
			}
			if verr != nil {
				run.Violate("C10/"+f+"/signature-does-not-verify/passphrase-given-for-an-unprotected-key", map[string]any{"variable": name, "error": verr.Error()})
			} else {
				atomic.AddInt64(verified, 1)
			}
		}
	}
}

// c10CallbackAndKeyFile: settings that carry both a key file (from the YAML
// document) and a signing callback (set by the library caller): the callback
// signs, as the SignFn documentation says, in every format.
func c10CallbackAndKeyFile(run *ev.Run, base func() *gen.Spec, kr openpgp.EntityList, verified *int64) {
	dir := newWorkDir("c10both")
	defer removeWorkDir(dir)
	fileKey, err := openpgp.NewEntity("Key File", "", "keyfile@example.com", &packet.Config{RSABits: 2048, DefaultHash: crypto.SHA256})
	if err != nil {
		run.Inconclusive(err.Error())
		return
	}
	keyPath := filepath.Join(dir, "file-key.asc")
	if err := writeArmoredPrivateKey(keyPath, fileKey); err != nil {
		run.Inconclusive(err.Error())
		return
	}
	cbEnt, err := unprotectedEntity()
	if err != nil {
		run.Inconclusive(err.Error())
		return
	}
	rsaPriv, err1 := loadRSAPriv(testKey("rsa_unprotected.priv"))
	rsaPub, err2 := loadRSAPub(testKey("rsa_unprotected.pub"))
	if err1 != nil || err2 != nil {
		run.Inconclusive(fmt.Sprint(err1, err2))
		return
	}
	for _, m := range []string{"deb", "deb-dpkg-sig", "rpm", "apk"} {
		format := strings.SplitN(m, "-", 2)[0]
		s := base()
		s.Deb.Sig.KeyFile, s.RPM.Sig.KeyFile = keyPath, keyPath
		s.APK.Sig.KeyFile, s.APK.Sig.KeyName = testKey("rsa.priv"), "verif" // protected, no passphrase given: unusable on its own
		if m == "deb-dpkg-sig" {
			s.Deb.Sig.Method = "dpkg-sig"
		}
		cfg, err := parseYAML(s.YAML(), nil)
		if err != nil {
			run.Inconclusive(err.Error())
			continue
		}
		info, _ := infoFor(&cfg, format)
		calls := 0
		switch m {
		case "deb":
			info.Deb.Signature.SignFn = func(r io.Reader) ([]byte, error) {
				calls++
				b, _ := io.ReadAll(r)
				var out bytes.Buffer
				err := openpgp.ArmoredDetachSign(&out, cbEnt, bytes.NewReader(b), &packet.Config{DefaultHash: crypto.SHA256})
				return out.Bytes(), err
			}
		case "deb-dpkg-sig":
			info.Deb.Signature.SignFn = func(r io.Reader) ([]byte, error) {
				calls++
				b, _ := io.ReadAll(r)
				var out bytes.Buffer
				w, err := clearsign.Encode(&out, cbEnt.PrivateKey, &packet.Config{DefaultHash: crypto.SHA256})
				if err != nil {
					return nil, err
				}
				_, _ = w.Write(b)
				_ = w.Close()
				return rearmorWithCRC(out.Bytes()), nil
			}
		case "rpm":
			info.RPM.Signature.SignFn = func(r io.Reader) ([]byte, error) {
				calls++
				b, _ := io.ReadAll(r)
				var out bytes.Buffer
				err := openpgp.DetachSign(&out, cbEnt, bytes.NewReader(b), &packet.Config{DefaultHash: crypto.SHA256})
				return out.Bytes(), err
			}
		case "apk":
			info.APK.Signature.SignFn = func(r io.Reader) ([]byte, error) {
				calls++
				b, _ := io.ReadAll(r)
				return rsa.SignPKCS1v15(nil, rsaPriv, crypto.SHA1, b)
			}
		}
		res := packageInfo(format, info)
		run.Case("callback-and-key-file|"+m, true)
		if res.Err != nil || res.Panic != "" {
			run.Violate("C10/"+format+"/signed-build-error/callback-and-key-file", map[string]any{"method": m, "callback_calls": calls, "error": fmt.Sprint(res.Err, ev.Short(res.Panic, 200))})
			continue
		}
		p := dec.Decode(format, res.Bytes, false)
		var verr error
		switch m {
		case "deb":
			_, verr = openpgp.CheckArmoredDetachedSignature(kr, bytes.NewReader(debMessage(p)), bytes.NewReader(p.SigMember.Data), nil)
		case "deb-dpkg-sig":
			if blk, _ := clearsign.Decode(p.SigMember.Data); blk == nil {
				verr = errors.New("not clear-signed")
			} else {
				_, verr = blk.VerifySignature(kr, nil)
			}
		case "rpm":
			_, verr = openpgp.CheckDetachedSignature(kr, bytes.NewReader(p.Rpm.Hdr.Blob), bytes.NewReader(p.Rpm.Sig.Tags[dec.RpmSigRSA].Bin), nil)
		case "apk":
			if len(p.GzMembers) < 2 || p.SigTar == nil || len(p.SigTar.Entries) == 0 {
				verr = errors.New("no signature segment")
			} else {
				h := sha1.Sum(p.GzMembers[1].Raw)
				verr = rsa.VerifyPKCS1v15(rsaPub, crypto.SHA1, h[:], p.SigTar.Entries[0].Data)
			}
		}
		if calls == 0 || verr != nil {
			run.Violate("C10/"+format+"/callback-not-used-when-a-key-file-is-configured-too", map[string]any{"method": m, "callback_calls": calls, "verifies_with_callback_key": verr == nil, "error": fmt.Sprint(verr)})
		} else {
			atomic.AddInt64(verified, 1)
		}
	}
}
