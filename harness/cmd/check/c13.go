package main

import (
	"bytes"
	"errors"
	"fmt"
	"io"
	"os"
	"path/filepath"
	"reflect"
	"sort"
	"strings"
	"sync/atomic"
	"time"

	"github.com/goreleaser/nfpm/v2"
	"github.com/goreleaser/nfpm/v2/files"
	"gopkg.in/yaml.v3"

	"verifharness/internal/dec"
	"verifharness/internal/ev"
	"verifharness/internal/rng"
)

func init() { register("C13", "exploration", c13) }

type leaf struct {
	path  string
	index []int // reflect field index chain below Overridables
	typ   reflect.Type
}

// overridableLeaves walks nfpm.Overridables by reflection, so that fields added
// later are picked up without touching the harness.
func overridableLeaves() []leaf {
	var out []leaf
	var walk func(t reflect.Type, path string, idx []int)
	walk = func(t reflect.Type, path string, idx []int) {
		for i := 0; i < t.NumField(); i++ {
			f := t.Field(i)
			if f.PkgPath != "" && !f.Anonymous {
				continue
			}
			tag := f.Tag.Get("yaml")
			name := strings.Split(tag, ",")[0]
			if name == "-" || f.Type.Kind() == reflect.Func {
				continue
			}
			p := path
			if !(f.Anonymous && name == "") {
				if name == "" {
					name = strings.ToLower(f.Name)
				}
				p = strings.TrimPrefix(path+"."+name, ".")
			}
			ni := append(append([]int{}, idx...), i)
			if f.Type.Kind() == reflect.Struct && f.Type.String() != "time.Time" {
				walk(f.Type, p, ni)
				continue
			}
			out = append(out, leaf{p, ni, f.Type})
		}
	}
	walk(reflect.TypeOf(nfpm.Overridables{}), "", nil)
	return out
}

// sampleValue makes a non-zero value of the leaf's type; variant distinguishes
// base / override / other-override values.
func sampleValue(l leaf, variant string, linkTarget string) (reflect.Value, bool) {
	tag := variant + "-" + strings.ReplaceAll(l.path, ".", "-")
	v := reflect.New(l.typ).Elem()
	switch {
	case l.typ == reflect.TypeOf(files.Contents{}):
		v.Set(reflect.ValueOf(files.Contents{{Source: linkTarget, Destination: "/opt/c13/" + tag, Type: "symlink"}}))
	case l.typ.Kind() == reflect.String:
		v.SetString(tag)
		if strings.HasSuffix(l.path, "compression") {
			// must stay a buildable value; variants differ
			v.SetString(map[string]string{"base": "gzip", "ov": "xz", "other": "zstd"}[variant])
		}
		if strings.HasSuffix(l.path, "signature.method") {
			v.SetString(map[string]string{"base": "debsign", "ov": "dpkg-sig", "other": "debsign"}[variant])
		}
		if strings.HasSuffix(l.path, "signature.type") {
			v.SetString(map[string]string{"base": "origin", "ov": "maint", "other": "archive"}[variant])
		}
	case l.typ.Kind() == reflect.Slice && l.typ.Elem().Kind() == reflect.String:
		v.Set(reflect.ValueOf([]string{tag + "-1", tag + "-2"}))
	case l.typ.Kind() == reflect.Bool:
		v.SetBool(true)
	case l.typ.Kind() == reflect.Uint32: // os.FileMode (umask)
		v.SetUint(map[string]uint64{"base": 0o022, "ov": 0o027, "other": 0o077}[variant])
	case l.typ.Kind() == reflect.Int:
		v.SetInt(map[string]int64{"base": 3, "ov": 5, "other": 7}[variant])
	case l.typ.Kind() == reflect.Ptr && l.typ.Elem().Kind() == reflect.String:
		s := map[string]string{"base": "aaaa1111", "ov": "bbbb2222", "other": "cccc3333"}[variant]
		v.Set(reflect.ValueOf(&s))
	case l.typ.Kind() == reflect.Map && l.typ.Key().Kind() == reflect.String && l.typ.Elem().Kind() == reflect.String:
		v.Set(reflect.ValueOf(map[string]string{"X-" + variant: tag, "X-Shared": variant}))
	case l.typ == reflect.TypeOf([]nfpm.IPKAlternative{}):
		v.Set(reflect.ValueOf([]nfpm.IPKAlternative{{Priority: len(variant), Target: "/t/" + tag, LinkName: "/l/" + tag}}))
	default:
		return v, false
	}
	return v, true
}

// refMerge is the reference semantics of an override block: scalars replaced
// iff the override is non-zero, lists wholesale iff non-empty, nested blocks
// field by field, maps key by key (non-empty values), pointers by pointee.
func refMerge(dst, src reflect.Value) {
	switch dst.Kind() {
	case reflect.Struct:
		if dst.Type().String() == "time.Time" {
			if !src.IsZero() {
				dst.Set(src)
			}
			return
		}
		for i := 0; i < dst.NumField(); i++ {
			if dst.Type().Field(i).PkgPath != "" {
				continue
			}
			refMerge(dst.Field(i), src.Field(i))
		}
	case reflect.Slice:
		if src.Len() > 0 {
			n := reflect.MakeSlice(src.Type(), src.Len(), src.Len())
			reflect.Copy(n, src)
			dst.Set(n)
		}
	case reflect.Map:
		if src.Len() == 0 {
			return
		}
		n := reflect.MakeMap(dst.Type())
		if !dst.IsNil() {
			for _, k := range dst.MapKeys() {
				n.SetMapIndex(k, dst.MapIndex(k))
			}
		}
		for _, k := range src.MapKeys() {
			if v := src.MapIndex(k); !v.IsZero() {
				n.SetMapIndex(k, v)
			}
		}
		dst.Set(n)
	case reflect.Ptr:
		if src.IsNil() || src.Elem().IsZero() {
			return
		}
		n := reflect.New(dst.Type().Elem())
		n.Elem().Set(src.Elem())
		dst.Set(n)
	case reflect.Func:
	default:
		if !src.IsZero() {
			dst.Set(src)
		}
	}
}

func filterContents(info *nfpm.Info, f string) {
	var out files.Contents
	for _, c := range info.Contents {
		if c.Packager == "" || c.Packager == f {
			out = append(out, c)
		}
	}
	info.Contents = out
}

// expectedInfo computes the effective settings of f from an untouched parse.
func expectedInfo(y string, f string) (*nfpm.Info, error) {
	ref, err := parseYAML(y, nil)
	if err != nil {
		return nil, err
	}
	exp := ref.Info // parsed copy nobody else references
	if ov := ref.Overrides[f]; ov != nil {
		refMerge(reflect.ValueOf(&exp.Overridables).Elem(), reflect.ValueOf(ov).Elem())
	}
	filterContents(&exp, f)
	return &exp, nil
}

func configYAML(cfg *nfpm.Config) (string, error) {
	b, err := yaml.Marshal(cfg)
	return string(b), err
}

// checkGets parses y and compares Get(f) for every format (in the given
// order) with the reference merge; then checks the base settings are intact.
func checkGets(run *ev.Run, y string, order []string, what map[string]any, leafCmp *int64) {
	cfg, err := parseYAML(y, nil)
	if err != nil {
		run.Violate("C13/generated-config-rejected", map[string]any{"what": what, "error": err.Error(), "yaml": ev.Short(y, 600)})
		return
	}
	for _, f := range order {
		got, err := cfg.Get(f)
		if err != nil {
			run.Violate("C13/get-error", map[string]any{"what": what, "format": f, "error": err.Error()})
			continue
		}
		filterContents(got, f)
		exp, err := expectedInfo(y, f)
		if err != nil {
			run.Inconclusive(err.Error())
			return
		}
		atomic.AddInt64(leafCmp, 1)
		if d := firstDiff(reflect.ValueOf(exp), reflect.ValueOf(got), "Info"); d != "" {
			w := map[string]any{"what": what, "format": f, "get_order": strings.Join(order, ","), "difference": d}
			run.Violate("C13/effective-settings-differ/"+diffField(d), w)
		}
	}
	ref, _ := parseYAML(y, nil)
	if d := firstDiff(reflect.ValueOf(&ref.Info), reflect.ValueOf(&cfg.Info), "Info"); d != "" {
		run.Violate("C13/base-settings-changed-by-get/"+diffField(d), map[string]any{"what": what, "get_order": strings.Join(order, ","), "difference": d})
	}
	if d := firstDiff(reflect.ValueOf(ref.Overrides), reflect.ValueOf(cfg.Overrides), "Overrides"); d != "" {
		run.Violate("C13/override-blocks-changed-by-get/"+diffField(d), map[string]any{"what": what, "difference": d})
	}
}

func c13(run *ev.Run, tier string) {
	nrand := ncases(100, 2000, tier)
	run.Rule = "part 1 (exhaustive): every leaf of nfpm.Overridables (found by reflection over the yaml tags) x every format f x {set only in f's override block, set only in another format's block, set in both with different values} x {base value set, base value empty}: a configuration is marshalled from nfpm's own types, parsed, and Config.Get(g) for ALL five formats g is compared leaf-by-leaf with a reflective reference merge of an untouched parse; base settings and override blocks must be unchanged afterwards. part 2: random combinations of leaves in several override blocks, every Get order for a sample, and packages built to confirm overridden relations and per-packager content entries in the decoded output. part 3: Validate must reject override keys without a registered packager. part 2c-2g: all formats built from one parsed configuration in sampled / all orders vs fresh-parse builds; override lists whose items expand to nothing; empty key_id in an override; Get called three times for one format whose override block has its own tagged contents; a signing callback set on the base settings; nil override blocks; CLI: conventional file name with {format}.arch set in an override, other spellings of the packager name. non-trivial = configuration in which at least one override block changes at least one leaf; distinct = (leaf, format, placement, base) / random combination"
	run.Rule += "; the nfpm binary with the packager named and guessed over one configuration"
	run.Rule += "; part 2a: packages built from base settings the caller fills in itself (no Config.Get) with entries addressed to every format, rpm-only types addressed elsewhere and a deb-changelog-typed entry addressed to rpm"
	run.SetExhaustive(true)
	leaves := overridableLeaves()
	var names []string
	for _, l := range leaves {
		names = append(names, l.path)
	}
	run.Set("overridable_leaves", names)
	dir := newWorkDir("c13")
	defer removeWorkDir(dir)
	payload := filepath.Join(dir, "p.txt")
	_ = os.WriteFile(payload, []byte("p\n"), 0o644)
	var leafCmp int64
	unsupported := []string{}
	baseCfg := func(withBase bool) *nfpm.Config {
		c := &nfpm.Config{Info: nfpm.Info{Name: "ovr", Arch: "amd64", Version: "1.0.0", Maintainer: "O <o@example.com>", Description: "d"}}
		if withBase {
			for _, l := range leaves {
				if v, ok := sampleValue(l, "base", "/nonexistent-verif/base"); ok {
					reflect.ValueOf(&c.Info.Overridables).Elem().FieldByIndex(l.index).Set(v)
				}
			}
		}
		return c
	}
	set := func(o *nfpm.Overridables, l leaf, variant string) bool {
		v, ok := sampleValue(l, variant, "/nonexistent-verif/"+variant)
		if ok {
			reflect.ValueOf(o).Elem().FieldByIndex(l.index).Set(v)
		}
		return ok
	}
	type job struct {
		l         leaf
		f         string
		placement string
		withBase  bool
	}
	var jobs []job
	for _, l := range leaves {
		if _, ok := sampleValue(l, "ov", ""); !ok {
			unsupported = append(unsupported, l.path+" ("+l.typ.String()+")")
			continue
		}
		for _, f := range formats {
			for _, pl := range []string{"own", "other", "both"} {
				for _, wb := range []bool{true, false} {
					jobs = append(jobs, job{l, f, pl, wb})
				}
			}
		}
	}
	if len(unsupported) > 0 {
		run.Inconclusive("overridable leaves of a type the harness cannot populate: " + strings.Join(unsupported, ", "))
	}
	parallel(len(jobs), 8, func(ji int) {
		j := jobs[ji]
		c := baseCfg(j.withBase)
		c.Overrides = map[string]*nfpm.Overridables{}
		other := formats[(indexOf(formats, j.f)+1+len(formats))%len(formats)]
		if j.placement == "own" || j.placement == "both" {
			o := &nfpm.Overridables{}
			set(o, j.l, "ov")
			c.Overrides[j.f] = o
		}
		if j.placement == "other" || j.placement == "both" {
			o := &nfpm.Overridables{}
			set(o, j.l, "other")
			c.Overrides[other] = o
		}
		y, err := configYAML(c)
		if err != nil {
			run.Inconclusive("cannot marshal config: " + err.Error())
			return
		}
		run.Case(fmt.Sprintf("leaf|%s|%s|%s|base=%v", j.l.path, j.f, j.placement, j.withBase), true)
		if ji%401 == 0 {
			run.Sample(map[string]any{"leaf": j.l.path, "format": j.f, "placement": j.placement, "base_set": j.withBase, "yaml": ev.Short(y, 700)})
		}
		checkGets(run, y, formats, map[string]any{"leaf": j.l.path, "format": j.f, "placement": j.placement, "base_set": j.withBase}, &leafCmp)
	})

	// part 2: random combinations
	orders := permutations(formats)
	var built int64
	parallel(nrand, 8, func(i int) {
		r := rng.New(uint64(run.Seed)).Fork(uint64(130000 + i))
		c := baseCfg(r.Bool())
		c.Overrides = map[string]*nfpm.Overridables{}
		c.Info.Contents = files.Contents{
			{Source: payload, Destination: "/opt/ovr/all.txt"},
			{Source: payload, Destination: "/opt/ovr/only-deb.txt", Packager: "deb"},
			{Source: payload, Destination: "/opt/ovr/only-rpm.txt", Packager: "rpm"},
			{Source: payload, Destination: "/opt/ovr/only-apk.txt", Packager: "apk"},
			{Source: payload, Destination: "/opt/ovr/only-ipk.txt", Packager: "ipk"},
			{Source: payload, Destination: "/opt/ovr/only-arch.txt", Packager: "archlinux"},
			// rpm-only types addressed to another packager belong to no package at all
			{Destination: "/var/log/ovr-ghost-for-deb.log", Type: "ghost", Packager: "deb"},
			{Source: payload, Destination: "/usr/share/doc/ovr/readme-for-apk", Type: "readme", Packager: "apk"},
		}
		nblocks := r.Range(1, 4)
		changed := 0
		for b := 0; b < nblocks; b++ {
			f := rng.Pick(r, formats)
			o := c.Overrides[f]
			if o == nil {
				o = &nfpm.Overridables{}
				c.Overrides[f] = o
			}
			for k := r.Range(1, 6); k > 0; k-- {
				l := leaves[r.Intn(len(leaves))]
				if l.path == "contents" {
					continue // keep the per-packager entries of the base list in play
				}
				if set(o, l, rng.Pick(r, []string{"ov", "other"})) {
					changed++
				}
			}
		}
		// packaging needs buildable values
		for _, info := range append([]*nfpm.Overridables{&c.Info.Overridables}, mapVals(c.Overrides)...) {
			info.Deb.Signature = nfpm.DebSignature{}
			info.RPM.Signature = nfpm.RPMSignature{}
			info.APK.Signature = nfpm.APKSignature{}
			info.Scripts = nfpm.Scripts{}
			info.RPM.Scripts, info.Deb.Scripts, info.APK.Scripts, info.ArchLinux.Scripts = nfpm.RPMScripts{}, nfpm.DebScripts{}, nfpm.APKScripts{}, nfpm.ArchLinuxScripts{}
			if info.RPM.Compression == "base-rpm-compression" {
				info.RPM.Compression = ""
			}
		}
		c.Info.RPM.BuildHost = "verif-host"
		y, err := configYAML(c)
		if err != nil {
			run.Inconclusive(err.Error())
			return
		}
		var ks []string
		for k := range c.Overrides {
			ks = append(ks, k)
		}
		sort.Strings(ks)
		run.Case(fmt.Sprintf("random|%d|%v|%d", i, ks, changed), changed > 0)
		order := orders[i%len(orders)]
		checkGets(run, y, order, map[string]any{"random_case": i}, &leafCmp)
		if i%4 != 0 {
			return
		}
		// packages: per-packager entries stay in their format; overridden depends reach the metadata
		for _, f := range formats {
			res := buildYAML(y, f)
			if res.Err != nil || res.Panic != "" {
				run.Violate("C13/"+f+"/build-error", map[string]any{"random_case": i, "error": fmt.Sprint(res.Err, ev.Short(res.Panic, 200)), "yaml": ev.Short(y, 500)})
				continue
			}
			atomic.AddInt64(&built, 1)
			p := dec.Decode(f, res.Bytes, false)
			if len(p.Errs) > 0 {
				run.Violate("C13/"+f+"/undecodable", map[string]any{"random_case": i, "errors": p.Errs})
				continue
			}
			if o := c.Overrides[f]; o != nil && len(o.Contents) > 0 {
				continue // the list was replaced wholesale
			}
			for _, g := range formats {
				name := "/opt/ovr/only-" + map[string]string{"deb": "deb", "rpm": "rpm", "apk": "apk", "ipk": "ipk", "archlinux": "arch"}[g] + ".txt"
				if present := p.Find(name) != nil; present != (g == f) {
					run.Violate("C13/"+f+"/per-packager-entry-in-wrong-package", map[string]any{"random_case": i, "entry": name, "present": present})
				}
			}
			for _, nowhere := range []string{"/var/log/ovr-ghost-for-deb.log", "/usr/share/doc/ovr/readme-for-apk"} {
				if p.Find(nowhere) != nil {
					run.Violate("C13/"+f+"/per-packager-entry-in-wrong-package", map[string]any{"random_case": i, "entry": nowhere, "present": true})
				}
			}
			if p.Find("/opt/ovr/all.txt") == nil {
				run.Violate("C13/"+f+"/common-entry-missing", map[string]any{"random_case": i})
			}
			exp, _ := expectedInfo(y, f)
			var gotDeps []string
			switch f {
			case "deb", "ipk":
				v, _ := p.MetaGet("Depends")
				gotDeps = splitList(v)
			case "rpm":
				for _, n := range p.Rpm.Hdr.StrList(dec.RpmTagRequireName) {
					if !strings.HasPrefix(n, "rpmlib(") {
						gotDeps = append(gotDeps, n)
					}
				}
			default:
				gotDeps = dec.GetAll(p.Meta, "depend")
			}
			if strings.Join(gotDeps, "|") != strings.Join(exp.Depends, "|") {
				run.Violate("C13/"+f+"/package-depends-differ-from-effective-settings", map[string]any{"random_case": i, "got": gotDeps, "want": exp.Depends})
			}
		}
	})
	run.Set("get_results_compared", leafCmp)
	run.Set("packages_built_for_confirmation", built)

	// part 2a: a library caller that fills in the settings itself (no Config.Get, which
	// also drops entries addressed elsewhere) relies on the packagers alone to keep
	// addressed entries in their format - also entries of a format-specific type
	for _, f := range formats {
		y := "name: ovrdirect\narch: amd64\nversion: 1.0.0\nmaintainer: \"M <m@example.com>\"\ndescription: d\nmtime: 2017-07-14T02:40:00Z\ncontents:\n" +
			"- src: " + payload + "\n  dst: /opt/ovr/all.txt\n"
		for _, g := range formats {
			y += "- src: " + payload + "\n  dst: /opt/ovr/direct-only-" + g + ".txt\n  packager: " + g + "\n"
		}
		y += "- dst: /var/log/ovr-direct-ghost-for-deb.log\n  type: ghost\n  packager: deb\n" +
			"- src: " + payload + "\n  dst: /usr/share/doc/ovr/direct-readme-for-apk\n  type: readme\n  packager: apk\n" +
			"- src: " + payload + "\n  dst: /usr/share/doc/ovr/direct-licence-for-ipk\n  type: licence\n  packager: ipk\n" +
			"- src: " + payload + "\n  dst: /usr/share/doc/ovr/direct-changelog-for-rpm\n  type: \"" + files.TypeDebChangelog + "\"\n  packager: rpm\n"
		run.Case("settings-filled-in-by-the-caller|"+f, true)
		cfg, err := parseYAML(y, nil)
		if err != nil {
			run.Inconclusive("part 2a: " + err.Error())
			break
		}
		info := cfg.Info // the base settings: every entry, whatever its packager
		res := packageInfo(f, nfpm.WithDefaults(&info))
		if res.Err != nil || res.Panic != "" {
			run.Violate("C13/"+f+"/build-error/settings-filled-in-by-the-caller", map[string]any{"error": fmt.Sprint(res.Err, ev.Short(res.Panic, 200))})
			continue
		}
		p := dec.Decode(f, res.Bytes, false)
		if len(p.Errs) > 0 {
			run.Violate("C13/"+f+"/undecodable", map[string]any{"case": "settings-filled-in-by-the-caller", "errors": p.Errs})
			continue
		}
		for _, g := range formats {
			name := "/opt/ovr/direct-only-" + g + ".txt"
			if present := p.Find(name) != nil; present != (g == f) {
				run.Violate("C13/"+f+"/per-packager-entry-in-wrong-package/settings-filled-in-by-the-caller", map[string]any{"entry": name, "present": present})
			}
		}
		for _, nowhere := range []string{"/var/log/ovr-direct-ghost-for-deb.log", "/usr/share/doc/ovr/direct-readme-for-apk", "/usr/share/doc/ovr/direct-licence-for-ipk", "/usr/share/doc/ovr/direct-changelog-for-rpm"} {
			if p.Find(nowhere) != nil {
				run.Violate("C13/"+f+"/per-packager-entry-in-wrong-package/settings-filled-in-by-the-caller", map[string]any{"entry": nowhere, "present": true})
			}
		}
	}

	// part 2c: ONE parsed configuration, packages for all formats built from it in
	// every sampled order: what a format ships must be its own effective settings
	// (= what a fresh parse gives), whatever was built from the configuration
	// before; relations written deb-style, config|noreplace entries and scripts
	// that exist only in an override block are the settings most easily bent on
	// the way
	{
		wd := filepath.Join(dir, "shared")
		_ = os.MkdirAll(wd, 0o755)
		pre, post := filepath.Join(wd, "preupgrade.sh"), filepath.Join(wd, "postupgrade.sh")
		_ = os.WriteFile(pre, []byte("echo verif-pre-upgrade\n"), 0o755)
		_ = os.WriteFile(post, []byte("echo verif-post-upgrade\n"), 0o755)
		c := baseCfg(false)
		c.Info.MTime = time.Unix(1600000000, 0).UTC()
		c.Info.RPM.BuildHost = "verif-host"
		suid := filepath.Join(wd, "suid-tool")
		_ = os.WriteFile(suid, []byte("tool\n"), 0o755)
		_ = os.Chmod(suid, 0o755|os.ModeSetuid)
		chgFile := filepath.Join(wd, "changelog.yaml")
		_ = os.WriteFile(chgFile, []byte("- semver: \"1.0.0\"\n  date: 2020-01-01T00:00:00Z\n  packager: \"P <p@example.com>\"\n  changes:\n    - note: \"n\"\n"), 0o644)
		c.Info.Changelog = chgFile
		c.Info.Depends = []string{"libfoo (>= 1.2)", "plain", "plain", "libbar (<< 3)"} // items given twice stay as given
		c.Info.Provides = []string{"virt (= 1.0)", "virt2", "virt2"}
		c.Info.Replaces = []string{"old (<< 1.0)", "old (<< 1.0)", "older"}
		c.Info.Conflicts = []string{"foe (>= 9)", "foe (>= 9)", "foe2"}
		c.Info.Recommends = []string{"rec (>= 2)"}
		c.Info.Suggests = []string{"sug (>= 3)"}
		c.Info.Contents = files.Contents{
			{Source: payload, Destination: "/opt/ovr/p.txt"},
			{Source: payload, Destination: "/etc/ovr/noreplace.conf", Type: "config|noreplace"},
			{Source: payload, Destination: "/etc/ovr/missingok.conf", Type: "config|missingok"},
			{Source: payload, Destination: "/etc/ovr/rpm-only.conf", Type: "config|noreplace", Packager: "rpm"},
			// a setuid source without a declared mode: the effective umask decides (the
			// archlinux block sets one that also masks the special bits)
			{Source: suid, Destination: "/opt/ovr/suid-tool"},
			// an entry with a modification time of its own
			{Source: payload, Destination: "/opt/ovr/dated.txt", FileInfo: &files.ContentFileInfo{MTime: time.Unix(1234567890, 0).UTC()}},
			// an entry addressed to rpm at the path where deb generates its changelog
			{Source: payload, Destination: "/usr/share/doc/ovr/changelog.Debian.gz", Packager: "rpm"},
			// two different sources sent to the same directory destination
			{Source: pre, Destination: "/opt/ovr/bin/"},
			{Source: post, Destination: "/opt/ovr/bin/"},
		}
		c.Overrides = map[string]*nfpm.Overridables{
			"archlinux": {Umask: 0o7022, ArchLinux: nfpm.ArchLinux{Scripts: nfpm.ArchLinuxScripts{PreUpgrade: pre, PostUpgrade: post}}},
			"apk":       {Depends: []string{"apk-dep>1"}},
			// {format}.arch inside an override block is taken as written, also when
			// it is spelled like a GOARCH name
			"ipk": {IPK: nfpm.IPK{Arch: "amd64"}},
			"rpm": {RPM: nfpm.RPM{Arch: "arm7"}},
			// (deb has no override block here: its settings are the base settings)
		}
		y, _ := configYAML(c)
		fresh := map[string][]byte{}
		ok := true
		for _, f := range formats {
			res := buildYAML(y, f)
			if res.Err != nil || res.Panic != "" {
				run.Violate("C13/"+f+"/build-error", map[string]any{"shared_config": true, "error": fmt.Sprint(res.Err, ev.Short(res.Panic, 200)), "yaml": ev.Short(y, 800)})
				ok = false
				continue
			}
			fresh[f] = res.Bytes
			p := dec.Decode(f, res.Bytes, false)
			if want := map[string]string{"ipk": "amd64", "rpm": "arm7"}[f]; want != "" {
				if got := decodedArch(f, p); got != want {
					run.Violate("C13/"+f+"/format-specific-arch-from-override-not-verbatim", map[string]any{"got": got, "want": want})
				}
			}
			if e := p.Find("/opt/ovr/suid-tool"); e != nil {
				want := int64(0o4755)
				if f == "archlinux" {
					want = 0o755
				}
				if e.Mode&0o7777 != want {
					run.Violate("C13/"+f+"/effective-umask-not-applied", map[string]any{"got": fmt.Sprintf("%o", e.Mode&0o7777), "want": fmt.Sprintf("%o", want), "umask_in_override_block": f == "archlinux"})
				}
			}
			if e := p.Find("/opt/ovr/dated.txt"); e == nil || e.MTime != 1234567890 {
				got := int64(-1)
				if e != nil {
					got = e.MTime
				}
				run.Violate("C13/"+f+"/per-entry-setting-lost-from-effective-contents/file_info.mtime", map[string]any{"got": got, "want": 1234567890, "has_override_block": c.Overrides[f] != nil})
			}
			if f == "deb" && p.Find("/usr/share/doc/ovr/changelog.Debian.gz") == nil {
				run.Violate("C13/deb/generated-changelog-missing", map[string]any{"note": "an entry addressed to rpm names the same path"})
			}
			for _, want := range []string{"/opt/ovr/bin/preupgrade.sh", "/opt/ovr/bin/postupgrade.sh", "/opt/ovr/p.txt"} {
				if p.Find(want) == nil {
					run.Violate("C13/"+f+"/entry-lost-from-effective-contents", map[string]any{"path": want, "has_override_block": c.Overrides[f] != nil})
				}
			}
			switch f {
			case "deb", "ipk":
				if v, _ := p.MetaGet("Depends"); v != "libfoo (>= 1.2), plain, plain, libbar (<< 3)" {
					run.Violate("C13/"+f+"/package-depends-differ-from-effective-settings", map[string]any{"shared_config": true, "got": v})
				}
			case "rpm":
				idx := indexOf(p.Rpm.Hdr.StrList(dec.RpmTagBasenames), "noreplace.conf")
				flags := p.Rpm.Hdr.IntList(dec.RpmTagFileFlags)
				if idx < 0 || idx >= len(flags) || flags[idx]&(1<<4) == 0 || flags[idx]&1 == 0 {
					run.Violate("C13/rpm/config-noreplace-flag-missing", map[string]any{"index": idx, "flags": flags})
				}
			case "archlinux":
				inst := p.Install
				for _, want := range []string{"pre_upgrade", "verif-pre-upgrade", "post_upgrade", "verif-post-upgrade"} {
					if !bytes.Contains(inst, []byte(want)) {
						run.Violate("C13/archlinux/override-only-upgrade-scripts-not-shipped", map[string]any{"missing": want, "install_file": ev.Short(string(inst), 300)})
						break
					}
				}
			}
		}
		if ok {
			var sharedBuilt int64
			nord := 12
			if tier == "thorough" {
				nord = len(orders)
			}
			for oi := 0; oi < nord; oi++ {
				order := orders[(oi*(len(orders)/nord))%len(orders)]
				cfg, err := parseYAML(y, nil)
				if err != nil {
					run.Inconclusive(err.Error())
					break
				}
				run.Case(fmt.Sprintf("shared-config-build-order|%v", order), true)
				for k, f := range order {
					info, err := infoFor(&cfg, f)
					if err != nil {
						run.Violate("C13/"+f+"/get-error", map[string]any{"order": order, "error": err.Error()})
						continue
					}
					res := packageInfo(f, info)
					sharedBuilt++
					if res.Err != nil || res.Panic != "" {
						run.Violate("C13/"+f+"/build-error", map[string]any{"order": order, "error": fmt.Sprint(res.Err, ev.Short(res.Panic, 200))})
						continue
					}
					if !bytes.Equal(res.Bytes, fresh[f]) {
						after := "first"
						if k > 0 {
							after = "after-" + order[k-1]
						}
						run.Violate("C13/"+f+"/effective-settings-depend-on-formats-built-before", map[string]any{"order": order, "position": k, "built_before": order[:k], "after": after, "first_difference_at": firstDiffAt(fresh[f], res.Bytes)})
					}
				}
			}
			run.Set("shared_config_packages_built", sharedBuilt)
		}
	}

	// part 2d: an override list whose items all expand to nothing sets nothing:
	// the format keeps the base list; surviving items replace it
	for _, rel := range []string{"conflicts", "depends", "replaces", "recommends", "provides", "suggests"} {
		for _, ovItems := range [][]string{{"${VERIF_EMPTY}"}, {"${VERIF_EMPTY}", "  ${VERIF_BLANK}  "}, {"${VERIF_EMPTY}", "kept-item"}, {"kept-item", "${VERIF_EMPTY}"}} {
			doc := "name: ovr\narch: amd64\nversion: 1.0.0\nmaintainer: \"O <o@example.com>\"\ndescription: d\n" + rel + ":\n  - base-item\noverrides:\n  deb:\n    " + rel + ":\n"
			for _, it := range ovItems {
				doc += "      - \"" + it + "\"\n"
			}
			doc += "  rpm:\n    umask: 0o027\n"
			cfg, err := parseYAML(doc, func(k string) string {
				if k == "VERIF_BLANK" {
					return "  "
				}
				return ""
			})
			run.Case(fmt.Sprintf("override-list-expands-to-nothing|%s|%v", rel, ovItems), true)
			if err != nil {
				run.Violate("C13/parse-error", map[string]any{"doc": doc, "error": err.Error()})
				continue
			}
			want := map[string][]string{"deb": {"base-item"}, "rpm": {"base-item"}, "apk": {"base-item"}}
			for _, it := range ovItems {
				if it == "kept-item" {
					want["deb"] = []string{"kept-item"}
				}
			}
			for _, f := range []string{"rpm", "deb", "apk", "deb"} {
				info, err := cfg.Get(f)
				if err != nil {
					run.Violate("C13/"+f+"/get-error", map[string]any{"error": err.Error()})
					continue
				}
				got := map[string][]string{"conflicts": info.Conflicts, "depends": info.Depends, "replaces": info.Replaces, "recommends": info.Recommends, "provides": info.Provides, "suggests": info.Suggests}[rel]
				atomic.AddInt64(&leafCmp, 1)
				if strings.Join(got, "|") != strings.Join(want[f], "|") || len(got) != len(want[f]) {
					run.Violate("C13/"+f+"/override-list-that-expands-to-nothing/"+rel, map[string]any{"override_items": ovItems, "got": got, "want": want[f]})
				}
			}
		}
	}

	// part 2e: an override block that spells out an EMPTY value sets nothing, also
	// for the settings held behind a pointer (signature key ids)
	for _, f := range []string{"deb", "rpm", "apk"} {
		for _, empty := range []string{"\"\""} { // (references inside an override's key_id are not expanded: no second spelling)
			doc := "name: ovr\narch: amd64\nversion: 1.0.0\nmaintainer: \"O <o@example.com>\"\ndescription: d\n" +
				f + ":\n  signature:\n    key_file: /nonexistent-verif/key\n    key_id: bc8acdd415bd80b3\n" +
				"overrides:\n  " + f + ":\n    " + f + ":\n      signature:\n        key_id: " + empty + "\n"
			cfg, err := parseYAML(doc, nil)
			run.Case("override-spells-out-empty-key-id|"+f+"|"+empty, true)
			if err != nil {
				run.Violate("C13/parse-error", map[string]any{"doc": doc, "error": err.Error()})
				continue
			}
			info, err := cfg.Get(f)
			if err != nil {
				run.Violate("C13/"+f+"/get-error", map[string]any{"error": err.Error()})
				continue
			}
			var got *string
			switch f {
			case "deb":
				got = info.Deb.Signature.KeyID
			case "rpm":
				got = info.RPM.Signature.KeyID
			default:
				got = info.APK.Signature.KeyID
			}
			atomic.AddInt64(&leafCmp, 1)
			if got == nil || *got != "bc8acdd415bd80b3" {
				v := "<nil>"
				if got != nil {
					v = *got
				}
				run.Violate("C13/"+f+"/empty-override-value-replaces-base/signature.key_id", map[string]any{"override_value": empty, "got": v, "want": "bc8acdd415bd80b3"})
			}
		}
	}

	// part 2f: asking twice for the same format gives the same settings and leaves
	// the override block alone - also when the block has a contents list of its
	// own with entries addressed to other packagers in front
	for _, f := range formats {
		other := formats[(indexOf(formats, f)+1)%len(formats)]
		c := baseCfg(false)
		c.Info.Contents = files.Contents{{Source: payload, Destination: "/opt/ovr/base.txt"}}
		c.Overrides = map[string]*nfpm.Overridables{f: {Contents: files.Contents{
			{Source: payload, Destination: "/opt/ovr/for-other-1.txt", Packager: other},
			{Source: payload, Destination: "/opt/ovr/for-other-2.txt", Packager: other},
			{Source: payload, Destination: "/opt/ovr/for-this.txt", Packager: f},
			{Source: payload, Destination: "/opt/ovr/for-all.txt"},
			{Source: payload, Destination: "/opt/ovr/for-this-too.txt", Packager: f},
		}}}
		y, _ := configYAML(c)
		cfg, err := parseYAML(y, nil)
		run.Case("get-twice|"+f, true)
		if err != nil {
			run.Violate("C13/parse-error", map[string]any{"error": err.Error()})
			continue
		}
		dsts := func(info *nfpm.Info) string {
			var out []string
			for _, e := range info.Contents {
				out = append(out, e.Destination+"@"+e.Packager)
			}
			return strings.Join(out, " ")
		}
		want := "/opt/ovr/for-this.txt@" + f + " /opt/ovr/for-all.txt@ /opt/ovr/for-this-too.txt@" + f
		for k := 0; k < 3; k++ {
			info, err := cfg.Get(f)
			atomic.AddInt64(&leafCmp, 1)
			if err != nil {
				run.Violate("C13/"+f+"/get-error", map[string]any{"call": k + 1, "error": err.Error()})
				break
			}
			if got := dsts(info); got != want {
				run.Violate("C13/"+f+"/effective-contents-differ-between-calls", map[string]any{"call": k + 1, "got": got, "want": want})
				break
			}
		}
		if got := len(cfg.Overrides[f].Contents); got != 5 || cfg.Overrides[f].Contents[0].Destination != "/opt/ovr/for-other-1.txt" || cfg.Overrides[f].Contents[2].Destination != "/opt/ovr/for-this.txt" {
			run.Violate("C13/override-block-changed-by-get/contents", map[string]any{"format": f, "entries": got})
		}
	}
	// part 2g: a signing callback set on the base settings by a library caller is
	// part of every format's effective settings
	{
		c := baseCfg(false)
		c.Info.Contents = files.Contents{{Source: payload, Destination: "/opt/ovr/p.txt"}}
		c.Overrides = map[string]*nfpm.Overridables{"rpm": {Depends: []string{"x"}}, "apk": {Depends: []string{"y"}}}
		y, _ := configYAML(c)
		if cfg, err := parseYAML(y, nil); err == nil {
			called := map[string]int{}
			cfg.Deb.Signature.SignFn = func(io.Reader) ([]byte, error) { called["deb"]++; return nil, errors.New("verif: callback reached") }
			cfg.RPM.Signature.SignFn = func(io.Reader) ([]byte, error) { called["rpm"]++; return nil, errors.New("verif: callback reached") }
			cfg.APK.Signature.SignFn = func(io.Reader) ([]byte, error) { called["apk"]++; return nil, errors.New("verif: callback reached") }
			for _, f := range []string{"deb", "rpm", "apk"} {
				run.Case("base-signing-callback|"+f, true)
				info, err := infoFor(&cfg, f)
				if err != nil {
					continue
				}
				var fn func(io.Reader) ([]byte, error)
				switch f {
				case "deb":
					fn = info.Deb.Signature.SignFn
				case "rpm":
					fn = info.RPM.Signature.SignFn
				default:
					fn = info.APK.Signature.SignFn
				}
				res := packageInfo(f, info)
				if fn == nil || called[f] == 0 || res.Err == nil {
					run.Violate("C13/"+f+"/base-signing-callback-lost", map[string]any{"callback_in_effective_settings": fn != nil, "calls": called[f], "package_error": fmt.Sprint(res.Err), "has_override_block": c.Overrides[f] != nil})
				}
			}
		}
	}

	// part 2b: the command line tool uses the same effective settings, also when
	// the packager is inferred from the target's extension
	if bin := nfpmBin(run); bin != "" {
		wd := filepath.Join(dir, "cli")
		_ = os.MkdirAll(wd, 0o755)
		c := baseCfg(false)
		c.Info.RPM.BuildHost = "verif-host"
		c.Info.Depends = []string{"base-dep"}
		c.Info.Contents = files.Contents{{Source: payload, Destination: "/opt/ovr/p.txt"}}
		c.Overrides = map[string]*nfpm.Overridables{}
		for _, f := range formats {
			c.Overrides[f] = &nfpm.Overridables{Depends: []string{"dep-for-" + f}}
		}
		// the architecture spelled for one format inside its override block
		c.Overrides["deb"].Deb.Arch = "ovrdebarch"
		c.Overrides["rpm"].RPM.Arch = "ovrrpmarch"
		c.Overrides["apk"].APK.Arch = "ovrapkarch"
		c.Overrides["ipk"].IPK.Arch = "ovripkarch"
		y, _ := configYAML(c)
		cfgp := filepath.Join(wd, "nfpm.yaml")
		_ = os.WriteFile(cfgp, []byte(y), 0o644)
		for _, f := range []string{"deb", "rpm", "apk", "ipk"} {
			for _, explicit := range []bool{false, true} {
				tgt := filepath.Join(wd, fmt.Sprintf("out-%v.%s", explicit, f))
				args := []string{"package", "-f", cfgp, "-t", tgt}
				if explicit {
					args = append(args, "-p", f)
				}
				so, se, code, err := runCmd(nil, wd, nil, bin, args...)
				run.Case(fmt.Sprintf("cli-override|%s|explicit-packager=%v", f, explicit), true)
				if err != nil || code != 0 {
					run.Violate("C13/cli/"+f+"/build-failed", map[string]any{"explicit_packager": explicit, "output": ev.Short(string(so)+string(se), 300)})
					continue
				}
				raw, _ := os.ReadFile(tgt)
				p := dec.Decode(f, raw, false)
				if len(p.Errs) > 0 {
					run.Violate("C13/cli/"+f+"/undecodable", map[string]any{"errors": p.Errs})
					continue
				}
				var got []string
				switch f {
				case "deb", "ipk":
					v, _ := p.MetaGet("Depends")
					got = splitList(v)
				case "rpm":
					for _, n := range p.Rpm.Hdr.StrList(dec.RpmTagRequireName) {
						if !strings.HasPrefix(n, "rpmlib(") {
							got = append(got, n)
						}
					}
				default:
					got = dec.GetAll(p.Meta, "depend")
				}
				if strings.Join(got, "|") != "dep-for-"+f {
					kind := "explicit-packager"
					if !explicit {
						kind = "packager-inferred-from-extension"
					}
					run.Violate("C13/cli/"+f+"/override-block-not-applied/"+kind, map[string]any{"got": got, "want": "dep-for-" + f})
				}
			}
		}
		// the file name the tool chooses itself reflects the override block as well
		for _, f := range []string{"deb", "rpm", "apk", "ipk"} {
			d := filepath.Join(wd, "named-"+f)
			_ = os.MkdirAll(d, 0o755)
			_, se, code, err := runCmd(nil, wd, nil, bin, "package", "-f", cfgp, "-p", f, "-t", d)
			run.Case("cli-override|conventional-name|"+f, true)
			es, _ := os.ReadDir(d)
			if err != nil || code != 0 || len(es) != 1 {
				run.Violate("C13/cli/"+f+"/build-failed", map[string]any{"target": "directory", "output": ev.Short(string(se), 300)})
				continue
			}
			raw, _ := os.ReadFile(filepath.Join(d, es[0].Name()))
			p := dec.Decode(f, raw, false)
			if len(p.Errs) > 0 {
				run.Violate("C13/cli/"+f+"/undecodable", map[string]any{"errors": p.Errs})
				continue
			}
			if want := nameFromMetadata(f, p); es[0].Name() != want || !strings.Contains(want, "ovr"+f+"arch") {
				run.Violate("C13/cli/"+f+"/override-block-not-applied/conventional-file-name", map[string]any{"file_name": es[0].Name(), "from_package_metadata": want, "override_arch": "ovr" + f + "arch"})
			}
		}
		// other spellings of a packager name (-p DEB, target out.Rpm): rejecting
		// them is fine; a package that is written must carry the override block
		for _, sp := range []struct{ f, flag, ext string }{{"deb", "DEB", ""}, {"rpm", "Rpm", ""}, {"apk", "APK", ""}, {"deb", "", "DEB"}, {"rpm", "", "Rpm"}, {"ipk", "", "IPK"}} {
			ext := sp.ext
			if ext == "" {
				ext = "pkg"
			}
			tgt := filepath.Join(wd, fmt.Sprintf("spelled-%s%s.%s", sp.flag, sp.ext, ext))
			args := []string{"package", "-f", cfgp, "-t", tgt}
			if sp.flag != "" {
				args = append(args, "-p", sp.flag)
			}
			_, _, code, err := runCmd(nil, wd, nil, bin, args...)
			run.Case(fmt.Sprintf("cli-override|spelling|-p=%q|ext=%q", sp.flag, sp.ext), true)
			raw, rerr := os.ReadFile(tgt)
			if err != nil || code != 0 || rerr != nil {
				continue
			}
			p := dec.Decode(sp.f, raw, false)
			if len(p.Errs) > 0 {
				continue // not a package of that format: nothing claimed
			}
			var got []string
			switch sp.f {
			case "deb", "ipk":
				v, _ := p.MetaGet("Depends")
				got = splitList(v)
			case "rpm":
				for _, n := range p.Rpm.Hdr.StrList(dec.RpmTagRequireName) {
					if !strings.HasPrefix(n, "rpmlib(") {
						got = append(got, n)
					}
				}
			default:
				got = dec.GetAll(p.Meta, "depend")
			}
			if strings.Join(got, "|") != "dep-for-"+sp.f {
				run.Violate("C13/cli/"+sp.f+"/override-block-not-applied/packager-spelled-differently", map[string]any{"packager_flag": sp.flag, "target_extension": sp.ext, "got": got, "want": "dep-for-" + sp.f})
			}
		}
	}

	// part 3: validation of override keys
	for _, key := range []string{"nosuchformat", "DEB", "Rpm", "debian", "apk ", "arch", ""} {
		c := baseCfg(false)
		c.Info.Contents = files.Contents{{Source: payload, Destination: "/opt/ovr/p.txt"}}
		c.Overrides = map[string]*nfpm.Overridables{key: {Depends: []string{"x"}}}
		y, _ := configYAML(c)
		cfg, err := parseYAML(y, nil)
		run.Case("validate|"+key, true)
		if err != nil {
			continue // rejected even earlier: fine
		}
		if err := cfg.Validate(); err == nil {
			run.Violate("C13/validate-accepts-override-for-unregistered-format", map[string]any{"key": key})
		}
	}
	// a configuration assembled in Go may hold an empty (nil) block: the key is
	// validated all the same
	for _, key := range []string{"nosuchformat", "rpmm", "DEB"} {
		c := baseCfg(false)
		c.Info.Contents = files.Contents{{Source: payload, Destination: "/opt/ovr/p.txt"}}
		c.Overrides = map[string]*nfpm.Overridables{key: nil}
		run.Case("validate-nil-block|"+key, true)
		func() {
			defer func() {
				if r := recover(); r != nil {
					run.Violate("C13/validate-panics-on-empty-override-block", map[string]any{"key": key, "panic": fmt.Sprint(r)})
				}
			}()
			if err := c.Validate(); err == nil {
				run.Violate("C13/validate-accepts-override-for-unregistered-format", map[string]any{"key": key, "block": "nil"})
			}
		}()
	}
	for _, key := range formats {
		c := baseCfg(false)
		c.Info.Contents = files.Contents{{Source: payload, Destination: "/opt/ovr/p.txt"}}
		c.Overrides = map[string]*nfpm.Overridables{key: {Depends: []string{"x"}}}
		y, _ := configYAML(c)
		cfg, err := parseYAML(y, nil)
		run.Case("validate-ok|"+key, true)
		if err != nil {
			run.Violate("C13/registered-format-override-rejected-by-parser", map[string]any{"key": key, "error": err.Error()})
			continue
		}
		if err := cfg.Validate(); err != nil {
			run.Violate("C13/validate-rejects-override-for-registered-format", map[string]any{"key": key, "error": err.Error()})
		}
	}
	// the command line tool merges the override block of the packager it guesses from
	// the target's extension exactly as it does for a packager named with -p
	if bin := nfpmBin(run); bin != "" {
		cliGuessedPackager(run, bin, "C13", func(f string, named, guessed []byte) {
			p := dec.Decode(f, guessed, false)
			if len(p.Errs) > 0 || p.Find("/opt/guessed/only-"+f+".txt") == nil || p.Find("/etc/guessed/"+f+".conf") == nil {
				run.Violate("C13/cli/"+f+"/override-not-merged/packager-guessed-from-target-extension", map[string]any{"decode_errors": p.Errs, "override_only_entry_present": p.Find("/opt/guessed/only-"+f+".txt") != nil})
			}
			if !bytes.Equal(named, guessed) {
				run.Violate("C13/cli/"+f+"/package-differs/packager-guessed-from-target-extension", map[string]any{"len_named": len(named), "len_guessed": len(guessed)})
			}
		})
	}
	run.Assume("override map entries with an empty value and `overrides: {f: null}` are not explored (expected result debatable / parser nil-dereference outside every listed property)")
}

func indexOf(xs []string, x string) int {
	for i, v := range xs {
		if v == x {
			return i
		}
	}
	return -1
}

func mapVals(m map[string]*nfpm.Overridables) []*nfpm.Overridables {
	var out []*nfpm.Overridables
	for _, v := range m {
		out = append(out, v)
	}
	return out
}
