package main

import (
	"errors"
	"fmt"
	"os"
	"path"
	"path/filepath"
	"sort"
	"strings"
	"sync"
	"sync/atomic"
	"time"

	"github.com/goreleaser/nfpm/v2"
	"github.com/goreleaser/nfpm/v2/files"

	"verifharness/internal/dec"
	"verifharness/internal/ev"
	"verifharness/internal/gen"
)

func init() { register("C05", "exploration", c05) }

type c05Entry struct {
	dst, typ, tag string
}

type refItem struct {
	kind string // "dir" (explicitly declared / tree dir) or "nondir"
	typ  string
	src  string
	from int // index of the originating entry
}

// c05Reference is the set-based reference planner: it expands the relevant
// entries into (path, kind) items and decides collision symmetrically.
func c05Reference(list []c05Entry, target string, treeSrc, fileSrc string) (items map[string]refItem, collision bool) {
	items = map[string]refItem{}
	type it struct {
		p string
		refItem
	}
	var all []it
	for i, e := range list {
		if e.tag != "" && e.tag != target {
			continue
		}
		if e.typ == "ghost" && target != "rpm" {
			continue
		}
		d := path.Clean("/" + e.dst)
		switch e.typ {
		case "dir":
			all = append(all, it{d, refItem{"dir", "dir", "", i}})
		case "tree":
			all = append(all, it{d, refItem{"dir", "dir", "", i}},
				it{d + "/x", refItem{"nondir", "file", treeSrc + "/x", i}},
				it{d + "/sub", refItem{"dir", "dir", "", i}},
				it{d + "/sub/y", refItem{"nondir", "file", treeSrc + "/sub/y", i}})
		case "symlink":
			all = append(all, it{d, refItem{"nondir", "symlink", "/nonexistent-verif/t", i}})
		case "ghost":
			all = append(all, it{d, refItem{"nondir", "ghost", "", i}})
		default:
			all = append(all, it{d, refItem{"nondir", e.typ, fileSrc, i}})
		}
	}
	for _, x := range all {
		if _, dup := items[x.p]; dup {
			return nil, true
		}
		items[x.p] = x.refItem
	}
	for p := range items {
		for a := path.Dir(p); a != "/" && a != "."; a = path.Dir(a) {
			if anc, ok := items[a]; ok && anc.kind == "nondir" {
				return nil, true
			}
		}
	}
	return items, false
}

// planInvariants checks the normal form of a prepared list.
func planInvariants(res files.Contents) []problem {
	var ps []problem
	add := func(k, d string) { ps = append(ps, problem{k, d}) }
	seen := map[string]int{}
	for i, c := range res {
		d := c.Destination
		isDir := c.Type == files.TypeDir || c.Type == files.TypeImplicitDir
		if !strings.HasPrefix(d, "/") {
			add("relative-destination", d)
		}
		want := path.Clean(d)
		if isDir && want != "/" {
			want += "/"
		}
		if d != want {
			add("unclean-destination", fmt.Sprintf("%q (type %s), normal form %q", d, c.Type, want))
		}
		key := strings.TrimSuffix(d, "/")
		if j, dup := seen[key]; dup {
			add("duplicate-destination", fmt.Sprintf("%q at %d and %d", d, j, i))
		}
		seen[key] = i
	}
	for i, c := range res {
		key := strings.TrimSuffix(c.Destination, "/")
		for a := path.Dir(key); a != "/" && a != "." && a != ""; a = path.Dir(a) {
			j, ok := seen[a]
			switch {
			case !ok:
				add("ancestor-missing", fmt.Sprintf("%q has no entry for %q", c.Destination, a))
			case j > i:
				add("ancestor-after-descendant", fmt.Sprintf("%q (at %d) before its ancestor %q (at %d)", c.Destination, i, a, j))
			case res[j].Type != files.TypeDir && res[j].Type != files.TypeImplicitDir:
				add("entry-beneath-non-directory", fmt.Sprintf("%q lies beneath %q of type %s", c.Destination, a, res[j].Type))
			}
		}
	}
	return ps
}

func planString(res files.Contents) string {
	var b strings.Builder
	for _, c := range res {
		fmt.Fprintf(&b, "%s|%s|%s|%s\n", c.Destination, c.Type, c.Packager, c.Source)
	}
	return b.String()
}

func c05(run *ev.Run, tier string) {
	maxLen := 2
	if tier == "thorough" {
		maxLen = 3
	}
	run.Rule = fmt.Sprintf("part 1 (bounded-exhaustive): every content list of length <= %d over 6 overlapping destinations (two of them in two spellings) x {file, config, dir, symlink, ghost, tree} x packager tag {'', deb, rpm}, prepared for {deb, rpm, apk}: result compared with a set-based reference planner (collision <=> same path twice or entry beneath a non-directory; explicit dir may replace an implied one), collision errors must be ErrContentCollision, the returned list must satisfy the normal-form invariants, and a sample is repeated 25x to expose map-order dependence. part 2 (exhaustive): every destination spelling up to length %d over {a,/,.} for file, dir and symlink entries: normal-form invariants. part 3: generated larger lists (globs, trees, per-packager entries) compared with the reference plan of C01, repeated 25x. non-trivial = list with >=2 entries relevant to the target (part 1) / spelling that is not already normal (part 2); distinct = the list itself", maxLen, map[bool]int{false: 5, true: 6}[tier == "thorough"])
	run.Rule += "; through the nfpm binary: entries addressed to another packager that collide among themselves, for every (addressed, built) pair"
	run.SetExhaustive(true)
	dir := newWorkDir("c05")
	defer removeWorkDir(dir)
	fileSrc := filepath.Join(dir, "f.txt")
	_ = os.WriteFile(fileSrc, []byte("f\n"), 0o644)
	treeSrc := filepath.Join(dir, "t")
	_ = os.MkdirAll(filepath.Join(treeSrc, "sub"), 0o755)
	_ = os.WriteFile(filepath.Join(treeSrc, "x"), []byte("x\n"), 0o644)
	_ = os.WriteFile(filepath.Join(treeSrc, "sub", "y"), []byte("y\n"), 0o644)
	mtime := time.Unix(1500000000, 0).UTC()

	// six distinct destinations, two of them also in a second spelling (the
	// reference works on the lexically clean absolute path)
	dsts := []string{"/a", "/a/b", "/a/x", "/a/sub", "/a/sub/y", "/d", "a/x", "/a/./sub"}
	types := []string{"file", "config", "dir", "symlink", "ghost", "tree"}
	tags := []string{"", "deb", "rpm"}
	targets := []string{"deb", "rpm", "apk"}
	var universe []c05Entry
	for _, d := range dsts {
		for _, t := range types {
			for _, g := range tags {
				universe = append(universe, c05Entry{d, t, g})
			}
		}
	}
	mk := func(e c05Entry) *files.Content {
		c := &files.Content{Destination: e.dst, Type: e.typ, Packager: e.tag}
		switch e.typ {
		case "file", "config":
			c.Source = fileSrc
		case "symlink":
			c.Source = "/nonexistent-verif/t"
		case "tree":
			c.Source = treeSrc
		}
		return c
	}
	U := len(universe)
	total := 1
	for l, p := 1, 1; l <= maxLen; l++ {
		p *= U
		total += p
	}
	t0 := time.Now()
	var plans, collisions, successes, repeated int64
	var sampleMu sync.Mutex
	nsamples := 0
	parallel(total, 16, func(idx int) {
		// decode idx into a list: lengths 0..maxLen in mixed radix
		var list []c05Entry
		rem := idx
		for l, p := 0, 1; l <= maxLen; l++ {
			if rem < p {
				for k := 0; k < l; k++ {
					list = append(list, universe[rem%U])
					rem /= U
				}
				break
			}
			rem -= p
			p *= U
		}
		for _, target := range targets {
			raw := make(files.Contents, len(list))
			for i, e := range list {
				raw[i] = mk(e)
			}
			atomic.AddInt64(&plans, 1)
			want, wantColl := c05Reference(list, target, treeSrc, fileSrc)
			res, err := files.PrepareForPackager(raw, 0o022, target, false, mtime)
			nrel := 0
			for _, e := range list {
				if (e.tag == "" || e.tag == target) && !(e.typ == "ghost" && target != "rpm") {
					nrel++
				}
			}
			if nrel >= 2 {
				run.Bulk(1, 1) // every (list, target) pair is enumerated exactly once
			} else {
				run.Bulk(1, 0)
			}
			detail := func() map[string]any {
				return map[string]any{"list": fmt.Sprint(list), "target": target}
			}
			switch {
			case wantColl && err == nil:
				d := detail()
				d["plan"] = planString(res)
				run.Violate("C05/collision-accepted/"+collisionShape(list, target), d)
			case wantColl && !errors.Is(err, files.ErrContentCollision):
				d := detail()
				d["error"] = err.Error()
				run.Violate("C05/collision-error-not-ErrContentCollision", d)
			case wantColl:
				atomic.AddInt64(&collisions, 1)
			case err != nil:
				d := detail()
				d["error"] = err.Error()
				run.Violate("C05/valid-list-rejected", d)
			default:
				atomic.AddInt64(&successes, 1)
				for _, pr := range planInvariants(res) {
					d := detail()
					d["detail"] = pr.detail
					d["plan"] = planString(res)
					run.Violate("C05/invariant/"+pr.kind, d)
				}
				// exactly the reference entries plus implied parents
				got := map[string]*files.Content{}
				for _, c := range res {
					got[strings.TrimSuffix(c.Destination, "/")] = c
				}
				for p, it := range want {
					c := got[p]
					if c == nil {
						d := detail()
						d["missing"] = p
						run.Violate("C05/entry-missing/"+it.typ, d)
						continue
					}
					isDir := c.Type == files.TypeDir
					if it.kind == "dir" != isDir || it.kind == "nondir" && c.Type != it.typ {
						d := detail()
						d["path"], d["got_type"], d["want"] = p, c.Type, it.typ
						run.Violate("C05/entry-type", d)
					}
					if it.src != "" && c.Source != it.src {
						d := detail()
						d["path"], d["got_source"], d["want_source"] = p, c.Source, it.src
						run.Violate("C05/source-mapping", d)
					}
				}
				for p, c := range got {
					if _, ok := want[p]; ok {
						continue
					}
					// must be an implied parent of a reference entry
					implied := false
					for q := range want {
						if strings.HasPrefix(q, p+"/") {
							implied = true
						}
					}
					if !implied || c.Type != files.TypeImplicitDir {
						d := detail()
						d["path"], d["type"] = p, c.Type
						run.Violate("C05/entry-not-addressed-or-not-implied", d)
					}
				}
			}
			// map-order dependence: repeat a sample 25 times
			if nrel >= 2 && idx%7 == 0 {
				atomic.AddInt64(&repeated, 1)
				first := planString(res)
				for rep := 0; rep < 25; rep++ {
					raw2 := make(files.Contents, len(list))
					for i, e := range list {
						raw2[i] = mk(e)
					}
					r2, e2 := files.PrepareForPackager(raw2, 0o022, target, false, mtime)
					if (e2 == nil) != (err == nil) || e2 == nil && planString(r2) != first {
						d := detail()
						d["first"], d["later"] = first, planString(r2)
						d["first_err"], d["later_err"] = fmt.Sprint(err), fmt.Sprint(e2)
						run.Violate("C05/nondeterministic-outcome", d)
						break
					}
				}
			}
			if len(list) == 2 && nrel == 2 {
				sampleMu.Lock()
				if nsamples < 4 && idx%1013 == 0 {
					nsamples++
					run.Sample(map[string]any{"list": fmt.Sprint(list), "target": target, "reference_collision": wantColl, "error": fmt.Sprint(err), "plan": planString(res)})
				}
				sampleMu.Unlock()
			}
		}
	})
	t1 := time.Since(t0).Seconds()
	run.Set("part1_wall_s", int(t1))
	run.Set("plans_prepared", plans)
	run.Set("reference_collisions_confirmed", collisions)
	run.Set("successful_plans_checked", successes)
	run.Set("plans_repeated_25x", repeated)
	run.Set("universe_entries", U)
	run.Set("max_list_length", maxLen)

	// part 2: destination spellings
	maxSp := 5
	if tier == "thorough" {
		maxSp = 6
	}
	var spellings []string
	var rec func(prefix string)
	rec = func(prefix string) {
		if prefix != "" {
			spellings = append(spellings, prefix)
		}
		if len(prefix) == maxSp {
			return
		}
		for _, c := range []string{"a", "/", "."} {
			rec(prefix + c)
		}
	}
	rec("")
	var spChecked int64
	for _, sp := range spellings {
		for _, typ := range []string{"file", "dir", "symlink"} {
			c := mk(c05Entry{sp, typ, ""})
			res, err := func() (r files.Contents, e error) {
				defer func() {
					if p := recover(); p != nil {
						e = fmt.Errorf("panic: %v", p)
					}
				}()
				return files.PrepareForPackager(files.Contents{c}, 0o022, "deb", false, mtime)
			}()
			spChecked++
			normal := path.Clean("/" + sp)
			if typ == "file" && strings.HasSuffix(sp, "/") {
				// a destination ending in '/' means "into that directory"
				normal = path.Join(normal, filepath.Base(fileSrc))
			}
			run.Case("spelling|"+typ+"|"+sp, sp != normal)
			if err != nil {
				if strings.HasPrefix(err.Error(), "panic") {
					run.Violate("C05/spelling-panic", map[string]any{"dst": sp, "type": typ, "error": err.Error()})
				}
				continue // rejecting a spelling is fine; accepting it in a non-normal form is not
			}
			for _, pr := range planInvariants(res) {
				cls := "other"
				if normal == "/" {
					cls = "destination-is-root"
				}
				run.Violate("C05/spelling/"+pr.kind+"/"+typ+"/"+cls, map[string]any{"dst": sp, "type": typ, "detail": pr.detail, "plan": planString(res)})
			}
			// the entry itself must sit at the lexically clean absolute path
			found := false
			for _, r := range res {
				if strings.TrimSuffix(r.Destination, "/") == strings.TrimSuffix(normal, "/") && r.Type != files.TypeImplicitDir {
					found = true
				}
			}
			if !found && normal != "/" {
				run.Violate("C05/spelling/placement/"+typ, map[string]any{"dst": sp, "want": normal, "plan": planString(res)})
			}
		}
	}
	run.Set("destination_spellings_checked", spChecked)
	run.Set("part2_wall_s", int(time.Since(t0).Seconds()-t1))

	// part 2b: directed corners. Directories that nfpm treats as "owned by the
	// filesystem" (a tree below /usr contains usr/bin) are implied, not declared:
	// a non-directory at such a path still collides, in either order.
	{
		fsTree := filepath.Join(dir, "fstree")
		_ = os.MkdirAll(filepath.Join(fsTree, "bin"), 0o755)
		_ = os.WriteFile(filepath.Join(fsTree, "bin", "tool"), []byte("t\n"), 0o755)
		tree := func() *files.Content { return &files.Content{Source: fsTree, Destination: "/usr", Type: "tree"} }
		for _, other := range []*files.Content{
			{Source: "/nonexistent-verif/t", Destination: "/usr/bin", Type: "symlink"},
			{Source: fileSrc, Destination: "/usr/bin", Type: "file"},
			{Source: fileSrc, Destination: "/usr/bin/tool", Type: "file"},
			{Destination: "/usr/bin", Type: "ghost"},
		} {
			for _, order := range []bool{true, false} {
				o := *other
				list := files.Contents{tree(), &o}
				if !order {
					list = files.Contents{&o, tree()}
				}
				_, err := files.PrepareForPackager(list, 0o022, "rpm", false, mtime)
				run.Case(fmt.Sprintf("fs-owned|%s|%s|%v", other.Type, other.Destination, order), true)
				if err == nil {
					run.Violate("C05/collision-accepted/fs-owned-tree-dir+"+other.Type, map[string]any{"other": other.Type + " " + other.Destination, "tree_first": order})
				} else if !errors.Is(err, files.ErrContentCollision) {
					run.Violate("C05/collision-error-not-ErrContentCollision", map[string]any{"error": err.Error()})
				}
			}
		}
		// an explicit directory at a filesystem-owned path of a tree survives
		res, err := files.PrepareForPackager(files.Contents{{Destination: "/usr/bin", Type: "dir", FileInfo: &files.ContentFileInfo{Mode: 0o750}}, tree()}, 0o022, "rpm", false, mtime)
		run.Case("fs-owned|explicit-dir-kept", true)
		if err != nil {
			run.Violate("C05/valid-list-rejected", map[string]any{"list": "dir /usr/bin + tree /usr", "error": err.Error()})
		} else {
			for _, c := range res {
				if c.Destination == "/usr/bin/" && (c.Type != files.TypeDir || c.FileInfo.Mode != 0o750) {
					run.Violate("C05/explicit-dir-replaced-by-implied", map[string]any{"type": c.Type, "mode": fmt.Sprintf("%o", c.FileInfo.Mode)})
				}
			}
		}
	}
	// a file put INTO a directory (destination ends in '/') under a relative
	// spelling of that directory still occupies <dir>/<source name>: a second
	// entry at that path, or beneath it, collides
	for _, into := range []string{"etc/app/", "./etc/app/", "/etc/app/", "etc//app/", "/etc/./app/"} {
		for _, typ := range []string{"file", "config"} {
			first := func() *files.Content { return &files.Content{Source: fileSrc, Destination: into, Type: typ} }
			for _, other := range []*files.Content{
				{Source: fileSrc, Destination: into, Type: typ},
				{Source: fileSrc, Destination: "/etc/app/f.txt", Type: "file"},
				{Source: "/nonexistent-verif/t", Destination: "/etc/app/f.txt", Type: "symlink"},
				{Source: fileSrc, Destination: "/etc/app/f.txt/below", Type: "file"},
				{Destination: "/etc/app/f.txt/sub", Type: "dir"},
			} {
				for _, order := range []bool{true, false} {
					o := *other
					list := files.Contents{first(), &o}
					if !order {
						list = files.Contents{&o, first()}
					}
					for _, f := range []string{"deb", "rpm", "apk"} {
						_, err := files.PrepareForPackager(list, 0o022, f, false, mtime)
						run.Case(fmt.Sprintf("into-dir|%s|%s|%s %s|%v|%s", into, typ, other.Type, other.Destination, order, f), true)
						if err == nil {
							run.Violate("C05/collision-accepted/file-put-into-directory+"+other.Type, map[string]any{"into": into, "other": other.Type + " " + other.Destination, "into_first": order, "format": f})
						} else if !errors.Is(err, files.ErrContentCollision) {
							run.Violate("C05/collision-error-not-ErrContentCollision", map[string]any{"error": err.Error()})
						}
					}
				}
			}
			// and alone it lands at the normalised path
			res, err := files.PrepareForPackager(files.Contents{first()}, 0o022, "deb", false, mtime)
			if err != nil {
				run.Violate("C05/valid-list-rejected", map[string]any{"list": typ + " " + into, "error": err.Error()})
			} else {
				found := false
				for _, c := range res {
					found = found || c.Destination == "/etc/app/f.txt"
				}
				if !found {
					run.Violate("C05/invariant/destination-not-normalised", map[string]any{"into": into, "plan": ev.Short(planString(res), 300)})
				}
			}
		}
	}
	// matches of ONE source that land on the same destination collide with each
	// other (flattening a directory whose sub directories hold equally named files)
	{
		fd := filepath.Join(dir, "flat-é")
		for _, sub := range []string{"a", "b", "c/d"} {
			_ = os.MkdirAll(filepath.Join(fd, sub), 0o755)
			_ = os.WriteFile(filepath.Join(fd, sub, "app.conf"), []byte(sub+"\n"), 0o644)
		}
		_ = os.WriteFile(filepath.Join(fd, "a", "only-a.conf"), []byte("a\n"), 0o644)
		// one entry, flattened into a directory: its own matches collide
		for _, src := range []string{fd + "/", fd, fd + "/*/app.conf", fd + "/**/app.conf"} {
			for _, f := range []string{"deb", "rpm", "apk"} {
				_, err := files.PrepareForPackager(files.Contents{{Source: src, Destination: "/etc/flat/"}}, 0o022, f, false, mtime)
				run.Case(fmt.Sprintf("one-source-flattened|%s|%s", strings.TrimPrefix(src, fd), f), true)
				if err == nil {
					run.Violate("C05/collision-accepted/matches-of-one-source-flattened-into-a-directory", map[string]any{"source": "<dir>" + strings.TrimPrefix(src, fd), "destination": "/etc/flat/", "format": f})
				} else if !errors.Is(err, files.ErrContentCollision) {
					run.Violate("C05/collision-error-not-ErrContentCollision", map[string]any{"error": err.Error()})
				}
			}
		}
		for _, src := range []string{fd + "/*/app.conf", fd + "/**/app.conf", fd + "/a/app.conf"} {
			for _, f := range []string{"deb", "rpm", "apk"} {
				list := files.Contents{
					{Source: src, Destination: "/etc/flat/app.conf", Type: "config"},
					{Source: fd + "/b/app.conf", Destination: "/etc/flat/app.conf", Type: "config"},
				}
				_, err := files.PrepareForPackager(list, 0o022, f, false, mtime)
				run.Case(fmt.Sprintf("same-destination-from-one-source|%s|%s", strings.TrimPrefix(src, fd), f), true)
				if err == nil {
					run.Violate("C05/collision-accepted/matches-of-sources-at-one-destination", map[string]any{"source": strings.TrimPrefix(src, fd), "format": f})
				} else if !errors.Is(err, files.ErrContentCollision) {
					run.Violate("C05/collision-error-not-ErrContentCollision", map[string]any{"error": err.Error()})
				}
			}
		}
	}
	// glob sources below directories whose names hold multi-byte characters (F27:
	// the pattern matcher nfpm uses loses the matches when two or more extra
	// UTF-8 bytes precede a class or an alternation in the pattern)
	for _, dn := range []string{"glob-中", "glob-éü", "jürgen/projékt", "glob-é"} {
		gd := filepath.Join(dir, dn, "s")
		_ = os.MkdirAll(gd, 0o755)
		for _, n := range []string{"alpha.txt", "cee.txt", "bee.txt"} {
			_ = os.WriteFile(filepath.Join(gd, n), []byte(n+"\n"), 0o644)
		}
		// structure below the deepest common directory of the matches
		for _, sub := range []string{"a", "b"} {
			_ = os.MkdirAll(filepath.Join(gd, "deep", sub), 0o755)
			_ = os.WriteFile(filepath.Join(gd, "deep", sub, "x.txt"), []byte(sub+"\n"), 0o644)
		}
		if res, err := files.PrepareForPackager(files.Contents{{Source: gd + "/deep/*/x.txt", Destination: "/opt/g"}}, 0o022, "deb", false, mtime); err != nil {
			run.Violate("C05/valid-list-rejected", map[string]any{"list": "<dir>/" + dn + "/s/deep/*/x.txt", "error": err.Error()})
		} else {
			got := map[string]bool{}
			for _, c := range res {
				got[c.Destination] = true
			}
			run.Case("glob-below-multibyte-directory|"+dn+"|deep/*/x.txt", true)
			if !got["/opt/g/a/x.txt"] || !got["/opt/g/b/x.txt"] {
				run.Violate("C05/glob-below-directory-with-multi-byte-characters/deepest-common-directory", map[string]any{"pattern": "<dir>/" + dn + "/s/deep/*/x.txt", "plan": ev.Short(planString(res), 400), "want": "/opt/g/a/x.txt, /opt/g/b/x.txt"})
			}
		}
		for _, pat := range []string{"a*", "{a,c}*", "[ac]*", "?ee.txt", "*.txt"} {
			want := map[string]int{"a*": 1, "{a,c}*": 2, "[ac]*": 2, "?ee.txt": 2, "*.txt": 3}[pat]
			res, err := files.PrepareForPackager(files.Contents{{Source: gd + "/" + pat, Destination: "/opt/g"}}, 0o022, "deb", false, mtime)
			run.Case("glob-below-multibyte-directory|"+dn+"|"+pat, true)
			nfiles := 0
			for _, c := range res {
				if c.Type != files.TypeImplicitDir && c.Type != files.TypeDir {
					nfiles++
				}
			}
			if err != nil || nfiles != want {
				kind := "other"
				if strings.ContainsAny(pat, "{[?") {
					kind = "class-alternation-or-single-character"
				}
				run.Violate("C05/glob-below-directory-with-multi-byte-characters/"+kind, map[string]any{"pattern": "<dir>/" + dn + "/s/" + pat, "error": fmt.Sprint(err), "files_planned": nfiles, "files_matching": want})
			}
		}
	}
	// a backslash in a destination is an ordinary character of a name
	{
		list := files.Contents{
			{Source: fileSrc, Destination: "/opt/app/dos\\name.txt"},
			{Source: fileSrc, Destination: "/opt/app/dos/name.txt"},
			{Source: fileSrc, Destination: "/opt/app/a\\b\\c"},
		}
		for _, f := range []string{"deb", "rpm", "apk"} {
			res, err := files.PrepareForPackager(list, 0o022, f, false, mtime)
			run.Case("backslash-in-destination|"+f, true)
			if err != nil {
				run.Violate("C05/valid-list-rejected", map[string]any{"list": "destinations with backslashes", "format": f, "error": err.Error()})
				continue
			}
			got := map[string]bool{}
			for _, c := range res {
				got[c.Destination] = true
			}
			for _, want := range []string{"/opt/app/dos\\name.txt", "/opt/app/dos/name.txt", "/opt/app/a\\b\\c"} {
				if !got[want] {
					run.Violate("C05/backslash-in-destination-treated-as-separator", map[string]any{"format": f, "missing": want, "plan": ev.Short(planString(res), 400)})
				}
			}
			if got["/opt/app/a/"] || got["/opt/app/a/b/"] {
				run.Violate("C05/backslash-in-destination-treated-as-separator", map[string]any{"format": f, "extra": "/opt/app/a/", "plan": ev.Short(planString(res), 400)})
			}
		}
	}
	// a glob stays a glob (destination = directory for the matches) also when the
	// pattern text itself can be stat()ed: a file named like the pattern, or a
	// pattern component too long for a file name
	{
		gd := filepath.Join(dir, "globtext")
		_ = os.MkdirAll(gd, 0o755)
		for _, n := range []string{"app1.ini", "app2.ini", "app[1].ini"} {
			_ = os.WriteFile(filepath.Join(gd, n), []byte(n+"\n"), 0o644)
		}
		var alts []string
		for k := 0; k < 60; k++ {
			alts = append(alts, fmt.Sprintf("no%03d", k))
		}
		long := "{app1,app2," + strings.Join(alts, ",") + "}.ini" // > 255 bytes
		for _, pat := range []string{"app[1].ini", long} {
			want := map[bool][]string{true: {"/etc/app/conf.d/app1.ini"}, false: {"/etc/app/conf.d/app1.ini", "/etc/app/conf.d/app2.ini"}}[pat == "app[1].ini"]
			res, err := files.PrepareForPackager(files.Contents{{Source: gd + "/" + pat, Destination: "/etc/app/conf.d", Type: "config"}}, 0o022, "deb", false, mtime)
			run.Case("glob-whose-text-can-be-stat()ed|"+ev.Short(pat, 20), true)
			if err != nil {
				run.Violate("C05/valid-list-rejected", map[string]any{"list": "glob " + ev.Short(pat, 40), "error": err.Error()})
				continue
			}
			got := map[string]bool{}
			for _, c := range res {
				got[c.Destination] = true
			}
			for _, w := range want {
				if !got[w] {
					run.Violate("C05/glob-destination-not-a-directory-for-the-matches", map[string]any{"pattern": ev.Short(pat, 60), "missing": w, "plan": ev.Short(planString(res), 400)})
				}
			}
		}
	}
	// a tree whose source is the current directory itself keeps the leading dots
	// of the names it holds (serial: the working directory is process-wide)
	{
		td := filepath.Join(dir, "cwdtree")
		_ = os.MkdirAll(filepath.Join(td, ".config", "sub"), 0o755)
		for _, n := range []string{".env", "env", ".config/settings.ini", ".config/sub/.hidden", "plain.txt"} {
			_ = os.WriteFile(filepath.Join(td, n), []byte(n+"\n"), 0o644)
		}
		if wd, err := os.Getwd(); err == nil && os.Chdir(td) == nil {
			for _, src := range []string{".", "./", td} {
				res, err := files.PrepareForPackager(files.Contents{{Source: src, Destination: "/srv/app", Type: "tree"}}, 0o022, "deb", false, mtime)
				run.Case("tree-from-current-directory|"+map[bool]string{true: "absolute", false: src}[src == td], true)
				if err != nil {
					run.Violate("C05/valid-list-rejected", map[string]any{"list": "tree " + src + " (cwd is the tree)", "error": err.Error()})
					continue
				}
				got := map[string]bool{}
				for _, c := range res {
					got[strings.TrimSuffix(c.Destination, "/")] = true
				}
				for _, want := range []string{"/srv/app/.env", "/srv/app/env", "/srv/app/.config", "/srv/app/.config/settings.ini", "/srv/app/.config/sub/.hidden", "/srv/app/plain.txt"} {
					if !got[want] {
						run.Violate("C05/tree-from-current-directory/entry-missing", map[string]any{"source": src, "missing": want, "plan": ev.Short(planString(res), 400)})
					}
				}
				if len(res) != 9 { // srv, srv/app + .config, .config/sub + 5 files
					run.Violate("C05/tree-from-current-directory/entry-count", map[string]any{"source": src, "entries": len(res), "plan": ev.Short(planString(res), 500)})
				}
			}
			_ = os.Chdir(wd)
		}
	}
	// the deb changelog entry is an entry like any other: a declared entry at
	// its path collides
	{
		chg := filepath.Join(dir, "changelog.yaml")
		_ = os.WriteFile(chg, []byte("- semver: \"1.0.0\"\n  date: 2020-01-01T00:00:00Z\n  packager: \"P <p@example.com>\"\n  changes:\n    - note: \"n\"\n"), 0o644)
		for _, typ := range []string{"file", "symlink", "dir"} {
			s := &gen.Spec{Name: "chgpkg", Arch: "amd64", Version: "1.0.0", Maintainer: "M <m@example.com>", Description: "d", MTime: 1500000000, Changelog: chg}
			e := &gen.Content{Dst: "/usr/share/doc/chgpkg/changelog.Debian.gz", Type: typ}
			switch typ {
			case "file":
				e.Src = fileSrc
			case "symlink":
				e.Src = "/nonexistent-verif/t"
			}
			s.Contents = []*gen.Content{e}
			res := buildYAML(s.YAML(), "deb")
			run.Case("deb-changelog-collision|"+typ, true)
			if res.Err == nil && res.Panic == "" {
				run.Violate("C05/collision-accepted/deb-changelog+"+typ, map[string]any{"entry": typ + " at the changelog path"})
			} else if res.Err != nil && !errors.Is(res.Err, files.ErrContentCollision) {
				run.Violate("C05/collision-error-not-ErrContentCollision", map[string]any{"error": res.Err.Error()})
			}
		}
	}

	// part 3: generated larger lists through nfpm.PrepareForPackager
	n3 := ncases(150, 3000, tier)
	var big, sharedPlans int64
	parallel(n3, 8, func(i int) {
		root := newWorkDir("c05g")
		o := gen.DefaultOpts()
		o.NEntries = [2]int{4, 14}
		o.Overrides = i%2 == 1
		c, err := gen.New(uint64(run.Seed), i, root, o)
		if err != nil {
			run.Inconclusive(err.Error())
			return
		}
		y := c.Spec.YAML()
		firstOf := map[string]string{}
		defer func() {
			// the plan of a format does not depend on which settings were obtained
			// from the same parsed configuration before (library use: one parse,
			// Get per format; formats with an override block first)
			if i%2 != 1 || len(firstOf) != len(formats) {
				return
			}
			cfg, err := parseYAML(y, nil)
			if err != nil {
				return
			}
			k := (i / 2) % len(formats)
			order := append(append([]string{}, formats[k:]...), formats[:k]...)
			sort.SliceStable(order, func(a, b int) bool {
				return c.Spec.Overrides[order[a]] != nil && c.Spec.Overrides[order[b]] == nil
			})
			for pos, f := range order {
				info, err := infoFor(&cfg, f)
				if err != nil {
					run.Inconclusive(err.Error())
					return
				}
				atomic.AddInt64(&sharedPlans, 1)
				if err := nfpm.PrepareForPackager(info, f); err != nil {
					run.Violate("C05/plan-depends-on-settings-obtained-before/rejected", map[string]any{"case": i, "format": f, "obtained_before": order[:pos], "error": err.Error()})
					continue
				}
				if ps := planString(info.Contents); ps != firstOf[f] {
					run.Violate("C05/plan-depends-on-settings-obtained-before", map[string]any{"case": i, "format": f, "obtained_before": order[:pos], "plan": ev.Short(ps, 400), "fresh_parse_plan": ev.Short(firstOf[f], 400)})
				}
			}
		}()
		for _, f := range formats {
			var first string
			for rep := 0; rep < 25; rep++ {
				cfg, err := parseYAML(y, nil)
				if err != nil {
					run.Inconclusive("generated config does not parse: " + err.Error())
					return
				}
				info, err := infoFor(&cfg, f)
				if err != nil {
					run.Inconclusive(err.Error())
					return
				}
				if err := nfpm.PrepareForPackager(info, f); err != nil {
					run.Violate("C05/generated-valid-list-rejected", map[string]any{"case": i, "format": f, "error": err.Error()})
					break
				}
				ps := planString(info.Contents)
				if rep == 0 {
					first = ps
					firstOf[f] = ps
					atomic.AddInt64(&big, 1)
					run.Case("generated|"+c.Fingerprint()+"|"+f, len(info.Contents) >= 6)
					for _, pr := range planInvariants(info.Contents) {
						run.Violate("C05/invariant/"+pr.kind, map[string]any{"case": i, "format": f, "detail": pr.detail})
					}
					plan := c.Plan(f)
					got := map[string]*files.Content{}
					for _, e := range info.Contents {
						got[strings.TrimSuffix(e.Destination, "/")] = e
					}
					for p, pe := range plan {
						e := got[p]
						if pe.Implied && f == "rpm" {
							continue
						}
						if e == nil {
							run.Violate("C05/generated/entry-missing", map[string]any{"case": i, "format": f, "path": p, "type": pe.CType})
							continue
						}
						if pe.Kind == "file" && pe.Src != "" && e.Source != pe.Src {
							run.Violate("C05/generated/source-mapping/"+pe.Entry.Shape, map[string]any{"case": i, "format": f, "path": p, "got": e.Source, "want": pe.Src})
						}
					}
					for p, e := range got {
						if plan[p] == nil && !(f == "rpm" && e.Type == files.TypeImplicitDir) {
							run.Violate("C05/generated/entry-not-addressed", map[string]any{"case": i, "format": f, "path": p, "type": e.Type})
						}
					}
					// the payload of the package built from the same list holds exactly the plan
					if i%3 == 0 {
						if res := buildYAML(y, f); res.Err == nil && res.Panic == "" {
							pk := dec.Decode(f, res.Bytes, false)
							shipped := map[string]bool{}
							for _, e := range pk.Entries {
								shipped[e.Path] = true
							}
							for p, e := range got {
								if f == "rpm" && e.Type == files.TypeImplicitDir {
									continue
								}
								if e.Type == files.TypeRPMGhost && f != "rpm" {
									continue
								}
								if !shipped[p] && p != "" {
									run.Violate("C05/generated/planned-entry-not-in-package/"+ev.KeyPart(e.Type), map[string]any{"case": i, "format": f, "path": p})
								}
							}
							for p := range shipped {
								if got[p] == nil && !(f == "deb" && strings.HasSuffix(p, "changelog.Debian.gz")) && p != "/" {
									run.Violate("C05/generated/package-entry-not-in-plan", map[string]any{"case": i, "format": f, "path": p})
								}
							}
						}
					}
				} else if ps != first {
					run.Violate("C05/nondeterministic-outcome", map[string]any{"case": i, "format": f})
					break
				}
			}
		}
	})
	// the command line tool prepares the plan of the packager it was asked for and of no
	// other: entries addressed to another packager that collide among themselves (or
	// whose type only exists elsewhere) are no part of this plan and do not fail it
	if bin := nfpmBin(run); bin != "" {
		cdir := newWorkDir("c05-cli")
		a, b := filepath.Join(cdir, "a.txt"), filepath.Join(cdir, "b.txt")
		_ = os.WriteFile(a, []byte("a\n"), 0o644)
		_ = os.WriteFile(b, []byte("b\n"), 0o644)
		for _, other := range formats {
			var y strings.Builder
			y.WriteString("name: others\narch: amd64\nversion: 1.0.0\nmaintainer: \"O <o@example.com>\"\ndescription: d\nmtime: 2017-07-14T02:40:00Z\nrpm:\n  buildhost: verif-host\ncontents:\n")
			y.WriteString("  - src: " + a + "\n    dst: /opt/others/plain.txt\n")
			y.WriteString("  - src: " + a + "\n    dst: /opt/others/clash\n    packager: " + other + "\n")
			y.WriteString("  - src: " + b + "\n    dst: /opt/others/clash\n    packager: " + other + "\n")
			y.WriteString("  - src: " + b + "\n    dst: /opt/others/clash/beneath.txt\n    packager: " + other + "\n")
			cfgp := filepath.Join(cdir, "others-"+other+".yaml")
			_ = os.WriteFile(cfgp, []byte(y.String()), 0o644)
			for _, f := range formats {
				run.Case("cli-collision-among-entries-of-another-packager|"+other+"|"+f, true)
				target := filepath.Join(cdir, "out."+f)
				_ = os.Remove(target)
				so, se, code, err := runCmd(nil, cdir, nil, bin, "package", "-f", cfgp, "-p", f, "-t", target)
				out := string(so) + string(se)
				if f == other {
					if err == nil && code == 0 {
						run.Violate("C05/cli/collision-accepted/same-destination", map[string]any{"format": f, "output": ev.Short(out, 200)})
					} else if !strings.Contains(out, "content collision") {
						run.Violate("C05/cli/collision-not-named", map[string]any{"format": f, "output": ev.Short(out, 300)})
					}
					continue
				}
				if err != nil || code != 0 {
					run.Violate("C05/cli/entries-of-another-packager-fail-the-plan", map[string]any{"format": f, "entries_addressed_to": other, "exit": code, "output": ev.Short(out, 300)})
					continue
				}
				raw, _ := os.ReadFile(target)
				p := dec.Decode(f, raw, false)
				if len(p.Errs) > 0 || p.Find("/opt/others/plain.txt") == nil || p.Find("/opt/others/clash") != nil {
					run.Violate("C05/cli/entries-of-another-packager-in-the-plan", map[string]any{"format": f, "entries_addressed_to": other, "decode_errors": p.Errs})
				}
			}
		}
		removeWorkDir(cdir)
	}
	run.Set("generated_lists_prepared", big)
	run.Set("plans_from_one_parsed_configuration_compared", sharedPlans)
	run.Set("total_wall_s", int(time.Since(t0).Seconds()))
	sort.Strings(spellings)
}

// collisionShape names the shape of an accepted collision (narrow finding keys).
func collisionShape(list []c05Entry, target string) string {
	var ts []string
	for _, e := range list {
		if (e.tag == "" || e.tag == target) && !(e.typ == "ghost" && target != "rpm") {
			ts = append(ts, e.typ)
		}
	}
	sort.Strings(ts)
	return strings.Join(ts, "+")
}
