package main

import (
	"bytes"
	"encoding/json"
	"fmt"
	"os"
	"path/filepath"
	"reflect"
	"regexp"
	"sort"
	"strings"

	"github.com/goreleaser/nfpm/v2"
	"gopkg.in/yaml.v3"

	"verifharness/internal/ev"
	"verifharness/internal/gen"
	"verifharness/internal/rng"
)

func init() { register("C17", "exploration", c17) }

// ---------------------------------------------------------------- subset validator

type schemaDoc struct {
	root map[string]any
}

func (s *schemaDoc) resolve(n map[string]any) map[string]any {
	for {
		ref, ok := n["$ref"].(string)
		if !ok {
			return n
		}
		parts := strings.Split(strings.TrimPrefix(ref, "#/"), "/")
		var cur any = s.root
		for _, p := range parts {
			m, ok := cur.(map[string]any)
			if !ok {
				return n
			}
			cur = m[p]
		}
		m, ok := cur.(map[string]any)
		if !ok {
			return n
		}
		n = m
	}
}

// validate implements the subset of JSON Schema that nfpm's schema uses.
func (s *schemaDoc) validate(n map[string]any, v any, path string, errs *[]string) {
	n = s.resolve(n)
	add := func(f string, a ...any) {
		if len(*errs) < 20 {
			*errs = append(*errs, path+": "+fmt.Sprintf(f, a...))
		}
	}
	if t, ok := n["type"].(string); ok {
		okT := false
		switch t {
		case "string":
			_, okT = v.(string)
		case "boolean":
			_, okT = v.(bool)
		case "integer":
			switch x := v.(type) {
			case float64:
				okT = x == float64(int64(x))
			case int, int64:
				okT = true
			}
		case "number":
			switch v.(type) {
			case float64, int, int64:
				okT = true
			}
		case "object":
			_, okT = v.(map[string]any)
		case "array":
			_, okT = v.([]any)
		default:
			okT = true
		}
		if !okT {
			add("value %v is not of type %s", v, t)
			return
		}
	}
	if en, ok := n["enum"].([]any); ok {
		found := false
		for _, e := range en {
			if reflect.DeepEqual(e, v) {
				found = true
			}
		}
		if !found {
			add("value %v is not one of %v", v, en)
		}
	}
	if p, ok := n["pattern"].(string); ok {
		if sv, ok := v.(string); ok {
			if re, err := regexp.Compile(p); err == nil && !re.MatchString(sv) {
				add("value %q does not match pattern %s", sv, p)
			}
		}
	}
	num := func(x any) (float64, bool) {
		switch y := x.(type) {
		case float64:
			return y, true
		case int:
			return float64(y), true
		case int64:
			return float64(y), true
		}
		return 0, false
	}
	if mx, ok := num(n["maximum"]); ok {
		if x, ok := num(v); ok && x > mx {
			add("value %v exceeds maximum %v", v, mx)
		}
	}
	if mn, ok := num(n["minimum"]); ok {
		if x, ok := num(v); ok && x < mn {
			add("value %v is below minimum %v", v, mn)
		}
	}
	switch x := v.(type) {
	case map[string]any:
		props, _ := n["properties"].(map[string]any)
		for _, r := range asStrings(n["required"]) {
			if _, ok := x[r]; !ok {
				add("required property %q missing", r)
			}
		}
		for k, val := range x {
			if ps, ok := props[k].(map[string]any); ok {
				s.validate(ps, val, path+"."+k, errs)
				continue
			}
			switch ap := n["additionalProperties"].(type) {
			case bool:
				if !ap {
					add("additional property %q not allowed", k)
				}
			case map[string]any:
				s.validate(ap, val, path+"."+k, errs)
			}
		}
	case []any:
		if it, ok := n["items"].(map[string]any); ok {
			for i, el := range x {
				s.validate(it, el, fmt.Sprintf("%s[%d]", path, i), errs)
			}
		}
		if u, _ := n["uniqueItems"].(bool); u {
			seen := map[string]bool{}
			for _, el := range x {
				k, _ := json.Marshal(el)
				if seen[string(k)] {
					*errs = append(*errs, fmt.Sprintf("%s: items are not unique (%s occurs twice)", path, k))
					break
				}
				seen[string(k)] = true
			}
		}
		if mn, ok := n["minItems"].(float64); ok && float64(len(x)) < mn {
			*errs = append(*errs, fmt.Sprintf("%s: %d items, minItems %v", path, len(x), mn))
		}
		if mx, ok := n["maxItems"].(float64); ok && float64(len(x)) > mx {
			*errs = append(*errs, fmt.Sprintf("%s: %d items, maxItems %v", path, len(x), mx))
		}
	}
}

func asStrings(v any) []string {
	var out []string
	if l, ok := v.([]any); ok {
		for _, e := range l {
			if s, ok := e.(string); ok {
				out = append(out, s)
			}
		}
	}
	return out
}

// schemaPaths lists every key path the schema allows ("*" for free-form map
// keys, "[]" for list items).
func (s *schemaDoc) paths(n map[string]any, prefix string, out map[string]bool, depth int) {
	if depth > 12 {
		return
	}
	n = s.resolve(n)
	if props, ok := n["properties"].(map[string]any); ok {
		for k, v := range props {
			p := prefix + "." + k
			out[p] = true
			if m, ok := v.(map[string]any); ok {
				s.paths(m, p, out, depth+1)
			}
		}
	}
	if ap, ok := n["additionalProperties"].(map[string]any); ok {
		p := prefix + ".*"
		out[p] = true
		s.paths(ap, p, out, depth+1)
	}
	if it, ok := n["items"].(map[string]any); ok {
		s.paths(it, prefix+"[]", out, depth+1)
	}
}

// parserPaths lists every key path the strict YAML parser accepts, from the
// yaml tags of the Go types it decodes into.
func parserPaths(t reflect.Type, prefix string, out map[string]bool, depth int) {
	if depth > 12 {
		return
	}
	for t.Kind() == reflect.Ptr {
		t = t.Elem()
	}
	switch t.Kind() {
	case reflect.Struct:
		if t.String() == "time.Time" {
			return
		}
		for i := 0; i < t.NumField(); i++ {
			f := t.Field(i)
			tag := strings.Split(f.Tag.Get("yaml"), ",")
			if tag[0] == "-" || (f.PkgPath != "" && !f.Anonymous) {
				continue
			}
			inline := false
			for _, o := range tag[1:] {
				if o == "inline" {
					inline = true
				}
			}
			if inline {
				parserPaths(f.Type, prefix, out, depth+1)
				continue
			}
			name := tag[0]
			if name == "" {
				name = strings.ToLower(f.Name)
			}
			p := prefix + "." + name
			out[p] = true
			parserPaths(f.Type, p, out, depth+1)
		}
	case reflect.Map:
		p := prefix + ".*"
		out[p] = true
		parserPaths(t.Elem(), p, out, depth+1)
	case reflect.Slice:
		parserPaths(t.Elem(), prefix+"[]", out, depth+1)
	}
}

func yamlToJSONValue(y string) (any, error) {
	var v any
	if err := yaml.Unmarshal([]byte(y), &v); err != nil {
		return nil, err
	}
	return normalizeYAML(v), nil
}

func normalizeYAML(v any) any {
	switch x := v.(type) {
	case map[string]any:
		for k, e := range x {
			x[k] = normalizeYAML(e)
		}
		return x
	case map[any]any:
		m := map[string]any{}
		for k, e := range x {
			m[fmt.Sprint(k)] = normalizeYAML(e)
		}
		return m
	case []any:
		for i := range x {
			x[i] = normalizeYAML(x[i])
		}
		return x
	case int:
		return float64(x)
	case int64:
		return float64(x)
	case uint64:
		return float64(x)
	}
	if t, ok := v.(interface{ Format(string) string }); ok { // time.Time
		return t.Format("2006-01-02T15:04:05Z07:00")
	}
	return v
}

type c17Doc struct {
	label string
	yaml  string
	build []string // formats that must build it (nil: parse only)
}

func c17(run *ev.Run, tier string) {
	ngen := ncases(100, 1500, tier)
	run.Rule = "the schema is obtained by RUNNING the built binary (`nfpm jsonschema`, stdout and -o, the latter also over a pre-existing longer file) and compared byte-for-byte with www/docs/static/schema.json. (1) exhaustive: the set of key paths the schema allows (walked through $ref/properties/items/additionalProperties) must equal the set the strict parser accepts (reflection over the yaml tags of nfpm.Config); each schema path is also exercised dynamically. (2) exhaustive: every documented enumerated value (content types, deb/rpm compressions incl. levels, signature methods and types, version schemas) in a document that the parser accepts and the packager builds must validate. (3) generated valid configurations (C01/C02/C13 generators, incl. setuid/sticky explicit modes, overrides, all format blocks) that parse and build must validate. Validation = harness subset validator (type, properties, additionalProperties, required, enum, pattern, minimum/maximum, items, $ref) and python jsonschema Draft 2020-12 when installed. Also: upper/mixed-case and level-suffixed spellings of enumerated values as probes (accepted by parser and packager => schema must accept), placeholders in schema-constrained settings, repeated list items, explicit empty type, uncommon platforms, optional keys left out; jsonschema -o over longer / same-length outdated files and onto /dev/full. non-trivial = document that uses a format-specific block or an enumerated setting; distinct = document"
	run.Rule += "; rpm compression levels in other spellings as probes, a ghost entry with a source, a negative ipk alternative priority"
	bin := nfpmBin(run)
	if bin == "" {
		return
	}
	dir := newWorkDir("c17")
	defer removeWorkDir(dir)
	published, err := os.ReadFile(filepath.Join(*flagRepo, "www", "docs", "static", "schema.json"))
	if err != nil {
		run.Inconclusive("cannot read the published schema: " + err.Error())
		return
	}
	so, se, code, err := runCmd(nil, dir, nil, bin, "jsonschema")
	if err != nil || code != 0 {
		run.Violate("C17/jsonschema-command-fails", map[string]any{"exit": code, "stderr": ev.Short(string(se), 300)})
		return
	}
	outFile := filepath.Join(dir, "fresh", "schema.json")
	if _, se, code, _ := runCmd(nil, dir, nil, bin, "jsonschema", "-o", outFile); code != 0 {
		run.Violate("C17/jsonschema-command-fails", map[string]any{"exit": code, "stderr": ev.Short(string(se), 300), "args": "-o"})
		return
	}
	written, _ := os.ReadFile(outFile)
	run.Case("published-file|fresh-output", true)
	if !bytes.Equal(written, published) {
		run.Violate("C17/published-schema-differs-from-command-output", map[string]any{"published_len": len(published), "written_len": len(written), "first_difference_at": firstDiffAt(published, written)})
	}
	if !bytes.Equal(bytes.TrimRight(so, "\n"), bytes.TrimRight(written, "\n")) {
		run.Violate("C17/stdout-and-file-output-differ", map[string]any{"stdout_len": len(so), "file_len": len(written)})
	}
	// regenerate over an existing, longer file (what a maintainer does when updating the docs)
	stale := filepath.Join(dir, "stale.json")
	_ = os.WriteFile(stale, append(append([]byte{}, published...), bytes.Repeat([]byte("STALE TAIL\n"), 500)...), 0o644)
	if _, _, code, _ := runCmd(nil, dir, nil, bin, "jsonschema", "-o", stale); code == 0 {
		got, _ := os.ReadFile(stale)
		run.Case("published-file|regenerated-over-longer-file", true)
		if !bytes.Equal(got, published) {
			run.Violate("C17/published-schema-differs-from-command-output/over-existing-file", map[string]any{"published_len": len(published), "written_len": len(got)})
		}
	}
	// ... and over an outdated file that happens to have the same length
	sameLen := filepath.Join(dir, "same-length.json")
	outdated := bytes.ReplaceAll(append([]byte{}, published...), []byte("semver"), []byte("SEMVER"))
	_ = os.WriteFile(sameLen, outdated, 0o644)
	if _, _, code, _ := runCmd(nil, dir, nil, bin, "jsonschema", "-o", sameLen); code == 0 && !bytes.Equal(outdated, published) {
		got, _ := os.ReadFile(sameLen)
		run.Case("published-file|regenerated-over-outdated-file-of-the-same-length", true)
		if !bytes.Equal(got, published) {
			run.Violate("C17/published-schema-differs-from-command-output/over-existing-file", map[string]any{"existing_file": "same length, different content", "published_len": len(published), "written_len": len(got)})
		}
	}
	// a schema file that could not be written is not reported as written: the
	// published file would silently stop being what the command emits
	if _, err := os.Stat("/dev/full"); err == nil {
		_, _, code, _ := runCmd(nil, dir, nil, bin, "jsonschema", "-o", "/dev/full")
		run.Case("published-file|target-device-full", true)
		if code == 0 {
			run.Violate("C17/schema-write-failure-reported-as-success", map[string]any{"command": "nfpm jsonschema -o /dev/full", "exit": code})
		}
	}
	var sd schemaDoc
	if err := json.Unmarshal(so, &sd.root); err != nil {
		run.Violate("C17/schema-is-not-json", map[string]any{"error": err.Error()})
		return
	}

	// ---------------- (1) key paths
	sp, pp := map[string]bool{}, map[string]bool{}
	sd.paths(sd.root, "", sp, 0)
	parserPaths(reflect.TypeOf(nfpm.Config{}), "", pp, 0)
	var onlySchema, onlyParser []string
	for p := range sp {
		if !pp[p] {
			onlySchema = append(onlySchema, p)
		}
	}
	for p := range pp {
		if !sp[p] {
			onlyParser = append(onlyParser, p)
		}
	}
	sort.Strings(onlySchema)
	sort.Strings(onlyParser)
	run.Set("schema_key_paths", len(sp))
	run.Set("parser_key_paths", len(pp))
	for _, p := range onlySchema {
		run.Violate("C17/key-path-only-in-schema", map[string]any{"path": p})
	}
	for _, p := range onlyParser {
		run.Violate("C17/key-path-only-in-parser", map[string]any{"path": p})
	}
	for p := range sp {
		run.Case("path|"+p, strings.Count(p, ".") >= 2)
	}

	// ---------------- (1b) the same agreement, dynamically: wherever the schema
	// forbids additional properties the strict parser must reject an unknown key,
	// and the other way round (sites found by walking a full document in
	// parallel with the Go types, as in C16)
	if fb, err := yaml.Marshal(fullConfig()); err == nil {
		var root yaml.Node
		if yaml.Unmarshal(fb, &root) == nil {
			var sites []strictSite
			strictSites(&root, reflect.TypeOf(nfpm.Config{}), "", &sites)
			agree := 0
			for si := range sites {
				st := sites[si]
				st.node.Content = append(st.node.Content, &yaml.Node{Kind: yaml.ScalarNode, Value: "verif_unknown_key"}, &yaml.Node{Kind: yaml.ScalarNode, Value: "x"})
				b, merr := yaml.Marshal(&root)
				st.node.Content = st.node.Content[:len(st.node.Content)-2]
				if merr != nil {
					continue
				}
				_, perr := parseYAML(string(b), nil)
				v, verr := yamlToJSONValue(string(b))
				if verr != nil {
					continue
				}
				var errs []string
				sd.validate(sd.root, v, "", &errs)
				schemaRejects := false
				for _, e := range errs {
					if strings.Contains(e, "verif_unknown_key") {
						schemaRejects = true
					}
				}
				run.Case("unknown-key|"+st.path, st.path != "")
				if schemaRejects != (perr != nil) {
					run.Violate("C17/unknown-key-disagreement/"+st.t.Name(), map[string]any{"site": st.path, "schema_rejects": schemaRejects, "parser_rejects": perr != nil})
				} else {
					agree++
				}
			}
			run.Set("unknown_key_sites_where_schema_and_parser_agree", agree)
		}
	}

	// ---------------- documents
	payload := filepath.Join(dir, "p.txt")
	_ = os.WriteFile(payload, []byte("p\n"), 0o644)
	var docs []c17Doc
	base := func() *gen.Spec {
		s := &gen.Spec{Name: "schemapkg", Arch: "amd64", Version: "1.0.0", Maintainer: "S <s@example.com>", Description: "d", MTime: 1500000000}
		s.RPM.BuildHost = "verif-host"
		s.Contents = []*gen.Content{{Src: payload, Dst: "/opt/schemapkg/p.txt"}}
		return s
	}
	// the parser is as strict when the document arrives on standard input
	{
		good := base().YAML()
		for _, extra := range []string{"", "verif_unknown_key: x\n", "depend: [typo]\n"} {
			tgt := filepath.Join(dir, fmt.Sprintf("stdin-%d.deb", len(extra)))
			_, _, code, err := runCmd([]byte(good+"\n"+extra), dir, nil, bin, "package", "-f", "-", "-p", "deb", "-t", tgt)
			run.Case("stdin|unknown-key="+strings.SplitN(extra, ":", 2)[0], true)
			_, serr := os.Stat(tgt)
			switch {
			case err != nil:
			case extra == "" && (code != 0 || serr != nil):
				run.Set("stdin_note", "the tool did not build from standard input in this environment")
			case extra != "" && code == 0 && serr == nil:
				run.Violate("C17/key-path-only-in-parser/document-from-standard-input", map[string]any{"injected": strings.TrimSpace(extra)})
			}
		}
	}
	// (2) enumerated values
	for _, t := range []string{"", "file", "config", "config|noreplace", "config|missingok", "dir", "symlink", "tree", "ghost", "doc", "licence", "license", "readme"} {
		s := base()
		e := &gen.Content{Type: t, Dst: "/opt/schemapkg/entry"}
		switch t {
		case "dir", "ghost":
		case "symlink":
			e.Src = "/nonexistent-verif/t"
		case "tree":
			td := filepath.Join(dir, "treesrc")
			_ = os.MkdirAll(filepath.Join(td, "sub"), 0o755)
			_ = os.WriteFile(filepath.Join(td, "sub", "f.txt"), []byte("f\n"), 0o644)
			e.Src = td
			e.Dst = "/opt/schemapkg/tree"
		default:
			e.Src = payload
		}
		s.Contents = append(s.Contents, e)
		docs = append(docs, c17Doc{"enum|content-type|" + t, s.YAML(), formats})
	}
	for _, c := range []string{"gzip", "xz", "zstd", "none"} {
		s := base()
		s.Deb.Compression = c
		docs = append(docs, c17Doc{"enum|deb.compression|" + c, s.YAML(), []string{"deb"}})
	}
	for _, c := range []string{"gzip", "lzma", "xz", "zstd", "gzip:1", "gzip:9", "gzip:-1", "zstd:1", "zstd:19", "zstd:fastest"} {
		s := base()
		s.RPM.Compression = c
		docs = append(docs, c17Doc{"enum|rpm.compression|" + c, s.YAML(), []string{"rpm"}})
	}
	for _, m := range []string{"debsign", "dpkg-sig"} {
		for _, t := range []string{"", "origin", "maint", "archive"} {
			if m == "dpkg-sig" && t != "" {
				continue
			}
			s := base()
			s.Deb.Sig = gen.Sig{KeyFile: testKey("privkey_unprotected.asc"), Method: m, Type: t, Signer: "Signer <s@example.com>", KeyID: "bc8acdd415bd80b3"}
			docs = append(docs, c17Doc{"enum|deb.signature|" + m + "|" + t, s.YAML(), []string{"deb"}})
		}
	}
	{
		s := base()
		s.RPM.Sig = gen.Sig{KeyFile: testKey("privkey_unprotected.asc"), KeyID: "bc8acdd415bd80b3"}
		s.APK.Sig = gen.Sig{KeyFile: testKey("rsa_unprotected.priv"), KeyName: "verif"}
		docs = append(docs, c17Doc{"enum|rpm+apk.signature", s.YAML(), []string{"rpm", "apk"}})
	}
	for _, vs := range []string{"semver", "none"} {
		s := base()
		s.VersionSchema = vs
		docs = append(docs, c17Doc{"enum|version_schema|" + vs, s.YAML(), formats})
	}
	{
		// documented use of environment references inside settings the schema
		// constrains: the document (with the placeholder) is what an editor validates
		s := base()
		s.Deb.Sig = gen.Sig{KeyFile: testKey("privkey_unprotected.asc"), KeyID: "${VERIF_SIGNING_KEY_ID}"}
		s.RPM.Sig = gen.Sig{KeyFile: testKey("privkey_unprotected.asc"), KeyID: "${VERIF_SIGNING_KEY_ID}"}
		s.APK.Sig = gen.Sig{KeyFile: testKey("rsa_unprotected.priv"), KeyName: "verif", KeyID: "${VERIF_SIGNING_KEY_ID}"}
		docs = append(docs, c17Doc{"placeholder|signature.key_id", s.YAML(), []string{"deb", "rpm", "apk"}})
		s2 := base()
		s2.Release, s2.Prerelease = "${VERIF_RELEASE}", "${VERIF_PRE}"
		s2.Depends = []string{"${VERIF_DEP}", "fixed"}
		docs = append(docs, c17Doc{"placeholder|release+prerelease+depends", s2.YAML(), formats})
	}
	{
		// list members with their optional keys left out (an alternative without
		// priority, a content entry with nothing but src and dst, a trigger-less deb block)
		s := base()
		s.IPK.Alternatives = []gen.IPKAlt{{Target: "/usr/bin/tool-1", LinkName: "/usr/bin/tool"}, {Priority: 5, Target: "/usr/bin/tool-2", LinkName: "/usr/bin/tool"}}
		docs = append(docs, c17Doc{"optional-keys-left-out|ipk.alternatives", s.YAML(), []string{"ipk"}})
		s2 := base()
		s2.SetOverride("ipk", &gen.Over{IPK: gen.IPK{Alternatives: []gen.IPKAlt{{Target: "/usr/bin/tool-1", LinkName: "/usr/bin/tool"}}}})
		docs = append(docs, c17Doc{"optional-keys-left-out|overrides.ipk.alternatives", s2.YAML(), []string{"ipk"}})
	}
	for _, pl := range []string{"netbsd", "solaris", "${VERIF_GOOS}", "linux"} {
		s := base()
		s.Platform = pl
		docs = append(docs, c17Doc{"platform|" + pl, s.YAML(), []string{"deb", "rpm"}})
	}
	for _, mt := range []string{"2024-01-15T10:00:00+13:00", "2024-01-15T10:00:00+13:45", "2024-01-15T10:00:00+14:00", "2024-01-15T10:00:00-12:00", "1969-07-20T20:17:40Z", "2024-01-15T10:00:00.123456789Z"} {
		// every time stamp the parser takes is one the schema takes
		raw := strings.Replace(base().YAML(), "mtime: 2017-07-14T02:40:00Z", "mtime: "+mt, 1)
		if strings.Contains(raw, "mtime: "+mt) {
			docs = append(docs, c17Doc{"mtime|" + mt, raw, []string{"deb", "apk"}})
		}
	}
	{
		// list settings keep repeated items: the schema must not call them sets
		s := base()
		s.IPK.Tags = []string{"net", "admin", "net"}
		s.Depends = []string{"dup", "dup"}
		s.Provides = []string{"virt", "virt"}
		s.Deb.Interest = []string{"/t1", "/t1"}
		s.RPM.Prefixes = []string{"/opt", "/opt"}
		docs = append(docs, c17Doc{"repeated-list-items", s.YAML(), formats})
		// the default entry type spelled out as an empty string
		raw := base().YAML() + "\n"
		raw = strings.Replace(raw, "contents:\n", "contents:\n  - src: "+payload+"\n    dst: /opt/schemapkg/explicit-empty-type\n    type: \"\"\n", 1)
		docs = append(docs, c17Doc{"explicit-empty-type", raw, formats})
	}
	{
		s := base()
		s.Platform = "darwin"
		docs = append(docs, c17Doc{"platform|darwin", s.YAML(), []string{"deb", "rpm"}})
	}
	// every key path at once: the full document of the C16 generator
	if fb, err := yaml.Marshal(fullConfig()); err == nil {
		docs = append(docs, c17Doc{"full-document", string(fb), nil})
	}
	// (3) generated configurations
	for i := 0; i < ngen; i++ {
		root := filepath.Join(dir, fmt.Sprintf("g%d", i))
		_ = os.MkdirAll(root, 0o755)
		o := gen.DefaultOpts()
		o.NEntries = [2]int{2, 6}
		o.Overrides = i%2 == 0
		o.Changelog = i%3 == 0
		c, err := gen.New(uint64(run.Seed), i, root, o)
		if err != nil {
			run.Inconclusive(err.Error())
			continue
		}
		r := rng.New(uint64(run.Seed)).Fork(uint64(190000 + i))
		genMeta(r, c.Spec, i)
		c.Spec.Platform = ""
		docs = append(docs, c17Doc{fmt.Sprintf("generated|%d|%s", i, c.Fingerprint()), c.Spec.YAML(), formats})
	}

	// other spellings of enumerated values (upper / mixed case): the schema does
	// not list them, so a document using one is a probe - IF the parser accepts
	// it and the packager builds it, the schema has to accept it as well
	probes := map[string]bool{}
	variants := func(v string) []string {
		out := []string{strings.ToUpper(v)}
		if len(v) > 1 {
			out = append(out, strings.ToUpper(v[:1])+v[1:])
		}
		return out
	}
	for _, c := range []string{"gzip", "xz", "zstd", "none"} {
		for _, v := range append(variants(c), c+":9", c+":1") { // and the rpm-style level suffix, which the deb schema does not list
			s := base()
			s.Deb.Compression = v
			docs = append(docs, c17Doc{"probe|deb.compression|" + v, s.YAML(), []string{"deb"}})
		}
	}
	for _, c := range []string{"gzip", "lzma", "xz", "zstd", "zstd:19"} {
		for _, v := range variants(c) {
			s := base()
			s.RPM.Compression = v
			docs = append(docs, c17Doc{"probe|rpm.compression|" + v, s.YAML(), []string{"rpm"}})
		}
	}
	for _, t := range []string{"config", "config|noreplace", "dir", "symlink", "ghost", "doc", "tree"} {
		for _, v := range variants(t) {
			s := base()
			e := &gen.Content{Type: v, Dst: "/opt/schemapkg/entry", Src: payload}
			if t == "symlink" {
				e.Src = "/nonexistent-verif/t"
			}
			s.Contents = append(s.Contents, e)
			docs = append(docs, c17Doc{"probe|content-type|" + v, s.YAML(), formats})
		}
	}
	for _, vs := range []string{"semver", "none"} {
		for _, v := range variants(vs) {
			s := base()
			s.VersionSchema = v
			docs = append(docs, c17Doc{"probe|version_schema|" + v, s.YAML(), formats})
		}
	}
	for _, m := range []string{"debsign", "dpkg-sig"} {
		for _, v := range variants(m) {
			s := base()
			s.Deb.Sig = gen.Sig{KeyFile: testKey("privkey_unprotected.asc"), Method: v}
			docs = append(docs, c17Doc{"probe|deb.signature.method|" + v, s.YAML(), []string{"deb"}})
		}
	}
	for _, t := range []string{"origin", "maint", "archive"} {
		for _, v := range variants(t) {
			s := base()
			s.Deb.Sig = gen.Sig{KeyFile: testKey("privkey_unprotected.asc"), Method: "debsign", Type: v}
			docs = append(docs, c17Doc{"probe|deb.signature.type|" + v, s.YAML(), []string{"deb"}})
		}
	}
	// level spellings the rpm packager reads (names in any case, an explicit sign, an
	// empty level after the colon)
	for _, v := range []string{"zstd:BEST", "zstd:Fastest", "gzip:+9", "gzip:", "zstd:", "xz:", "lzma:"} {
		s := base()
		s.RPM.Compression = v
		docs = append(docs, c17Doc{"probe|rpm.compression|" + v, s.YAML(), []string{"rpm"}})
	}
	// combinations that are valid although one half looks superfluous: a ghost entry
	// that names a source (rpm takes its mode from there), an ipk alternative with a
	// negative priority
	{
		s := base()
		s.Contents = append(s.Contents, &gen.Content{Type: "ghost", Dst: "/var/log/schemapkg.log", Src: payload})
		docs = append(docs, c17Doc{"enum|ghost-entry-with-src", s.YAML(), formats})
		s = base()
		s.IPK.Alternatives = []gen.IPKAlt{{Priority: -10, Target: "/opt/schemapkg/p.txt", LinkName: "/usr/bin/schemapkg"}, {Priority: 0, Target: "/opt/schemapkg/p.txt", LinkName: "/usr/bin/schemapkg0"}}
		docs = append(docs, c17Doc{"enum|ipk-alternative-with-negative-priority", s.YAML(), []string{"ipk"}})
	}
	for _, d := range docs {
		if strings.HasPrefix(d.label, "probe|") {
			probes[d.label] = true
		}
	}

	// parse / build / validate
	var accepted []c17Doc
	var jsons []string
	built, probesAccepted := 0, 0
	var acceptedProbes []string
	for _, d := range docs {
		cfg, err := parseYAML(d.yaml, nil)
		if err != nil {
			if !probes[d.label] {
				run.Violate("C17/harness-document-rejected-by-parser", map[string]any{"doc": d.label, "error": err.Error()})
			}
			continue
		}
		ok := cfg.Validate() == nil || !probes[d.label]
		for _, f := range d.build {
			res := buildYAML(d.yaml, f)
			built++
			if res.Err != nil || res.Panic != "" {
				ok = false
				if !probes[d.label] {
					run.Violate("C17/harness-document-does-not-build", map[string]any{"doc": d.label, "format": f, "error": fmt.Sprint(res.Err, ev.Short(res.Panic, 200))})
				}
			}
		}
		if probes[d.label] {
			run.Case("probe|"+d.label+fmt.Sprintf("|accepted=%v", ok), true)
			if ok {
				probesAccepted++
				acceptedProbes = append(acceptedProbes, strings.TrimPrefix(d.label, "probe|"))
				if v, err := yamlToJSONValue(d.yaml); err == nil {
					var errs []string
					sd.validate(sd.root, v, "", &errs)
					if len(errs) > 0 {
						parts := strings.Split(d.label, "|")
						run.Violate("C17/value-outside-schema-accepted-by-parser-and-packager/"+parts[1], map[string]any{"setting": parts[1], "value": parts[2], "schema_errors": errs, "built_for": d.build})
					}
				}
			}
			continue
		}
		if !ok {
			continue
		}
		v, err := yamlToJSONValue(d.yaml)
		if err != nil {
			run.Inconclusive(err.Error())
			continue
		}
		jb, _ := json.Marshal(v)
		accepted = append(accepted, d)
		jsons = append(jsons, string(jb))
		nontriv := strings.HasPrefix(d.label, "enum|") || strings.Contains(d.yaml, "\ndeb:") || strings.Contains(d.yaml, "\nrpm:") || strings.Contains(d.yaml, "overrides:")
		run.Case("doc|"+d.label, nontriv)
		var errs []string
		sd.validate(sd.root, v, "", &errs)
		if len(errs) > 0 {
			run.Violate("C17/schema-rejects-accepted-document/"+schemaErrKind(errs[0]), map[string]any{"doc": d.label, "errors": errs, "json": ev.Short(string(jb), 500)})
		}
	}
	if len(accepted) > 0 {
		run.Sample(map[string]any{"doc": accepted[0].label, "json": ev.Short(jsons[0], 700)})
		run.Sample(map[string]any{"doc": accepted[len(accepted)-1].label, "json": ev.Short(jsons[len(jsons)-1], 700)})
	}
	run.Set("documents_validated", len(accepted))
	run.Set("off_schema_spellings_probed", len(probes))
	run.Set("off_schema_spellings_accepted_by_parser_and_packager", probesAccepted)
	run.Set("off_schema_spellings_accepted", acceptedProbes)
	run.Set("packages_built", built)

	// python jsonschema as a second, independent validator
	py := ""
	for _, cand := range []string{"python3-vt", "/opt/veriftools/pyvenv/bin/python"} {
		if have(cand) {
			py = cand
			break
		}
	}
	usedPy := false
	if py != "" {
		schemaPath := filepath.Join(dir, "schema.json")
		_ = os.WriteFile(schemaPath, so, 0o644)
		var all bytes.Buffer
		for _, j := range jsons {
			all.WriteString(j + "\n")
		}
		docsPath := filepath.Join(dir, "docs.jsonl")
		_ = os.WriteFile(docsPath, all.Bytes(), 0o644)
		script := `
import json, sys
try:
    import jsonschema
except Exception as e:
    print("NOJSONSCHEMA", e); sys.exit(0)
schema = json.load(open(sys.argv[1]))
cls = jsonschema.validators.validator_for(schema)
v = cls(schema)
for i, line in enumerate(open(sys.argv[2])):
    errs = sorted(v.iter_errors(json.loads(line)), key=lambda e: list(e.absolute_path))
    if errs:
        print("INVALID", i, json.dumps([("/".join(map(str, e.absolute_path)) + ": " + e.message)[:300] for e in errs[:5]]))
print("DONE")
`
		o2, e2, code, err := runCmd([]byte(script), dir, nil, py, "-", schemaPath, docsPath)
		out := string(o2)
		switch {
		case err != nil || code != 0 || !strings.Contains(out, "DONE"):
			run.Set("python_jsonschema", "present but failed: "+ev.Short(string(e2), 200))
		case strings.Contains(out, "NOJSONSCHEMA"):
			run.Set("python_jsonschema", "python present, jsonschema module missing")
		default:
			usedPy = true
			for _, l := range strings.Split(out, "\n") {
				if strings.HasPrefix(l, "INVALID ") {
					var idx int
					var rest string
					fmt.Sscanf(l, "INVALID %d", &idx)
					if k := strings.Index(l, "["); k >= 0 {
						rest = l[k:]
					}
					if idx < len(accepted) {
						run.Violate("C17/python-jsonschema-rejects-accepted-document", map[string]any{"doc": accepted[idx].label, "errors": ev.Short(rest, 600)})
					}
				}
			}
		}
	}
	run.Set("external_validators", map[string]bool{"python jsonschema (Draft 2020-12)": usedPy})
	run.Assume("documents always carry name, arch and version: the documentation marks them as required and so does the schema, although the parser would fill in defaults")
	run.Assume("deb signature types other than origin/maint/archive (arbitrary dpkg-sig roles) are not documented and not generated")
}

func schemaErrKind(e string) string {
	switch {
	case strings.Contains(e, "is not one of"):
		return "enum"
	case strings.Contains(e, "additional property"):
		return "additional-property"
	case strings.Contains(e, "not of type"):
		return "type"
	case strings.Contains(e, "does not match pattern"):
		return "pattern"
	case strings.Contains(e, "maximum") || strings.Contains(e, "minimum"):
		return "range"
	case strings.Contains(e, "required"):
		return "required"
	}
	return "other"
}

func firstDiffAt(a, b []byte) int {
	for i := 0; i < len(a) && i < len(b); i++ {
		if a[i] != b[i] {
			return i
		}
	}
	if len(a) != len(b) {
		return min(len(a), len(b))
	}
	return -1
}
