package main

import (
	"errors"
	"fmt"
	"os"
	"path/filepath"
	"reflect"
	"sort"
	"strings"
	"sync"
	"time"
	"unicode"

	"github.com/goreleaser/nfpm/v2"
	"github.com/goreleaser/nfpm/v2/files"
	"gopkg.in/yaml.v3"

	"verifharness/internal/dec"
	"verifharness/internal/ev"
	"verifharness/internal/rng"
)

func init() { register("C16", "exploration", c16) }

// fullConfig sets a value at every key path of the configuration.
func fullConfig() *nfpm.Config {
	c := &nfpm.Config{Info: nfpm.Info{
		Name: "full", Arch: "amd64", Platform: "linux", Epoch: "1", Version: "1.2.3", VersionSchema: "semver", Release: "2",
		Prerelease: "beta1", VersionMetadata: "git", Section: "utils", Priority: "extra", Maintainer: "F <f@example.com>",
		Description: "full description", Vendor: "V", Homepage: "https://example.com", License: "MIT", Changelog: "changelog.yaml",
		DisableGlobbing: true,
	}}
	leaves := overridableLeaves()
	fill := func(o *nfpm.Overridables, variant string) {
		for _, l := range leaves {
			if v, ok := sampleValue(l, variant, "/nonexistent-verif/"+variant); ok {
				reflect.ValueOf(o).Elem().FieldByIndex(l.index).Set(v)
			}
		}
		o.Contents = files.Contents{{Source: "/nonexistent-verif/src", Destination: "/opt/full/" + variant, Type: "symlink", Packager: "deb",
			FileInfo: &files.ContentFileInfo{Owner: "o", Group: "g", Mode: 0o644}, Expand: true}}
	}
	fill(&c.Info.Overridables, "base")
	c.Overrides = map[string]*nfpm.Overridables{"deb": {}, "rpm": {}}
	fill(c.Overrides["deb"], "ov")
	fill(c.Overrides["rpm"], "other")
	return c
}

type strictSite struct {
	path string
	node *yaml.Node // mapping node that belongs to a struct type
	t    reflect.Type
}

func yamlFieldOf(t reflect.Type, key string) (reflect.Type, bool) {
	for i := 0; i < t.NumField(); i++ {
		f := t.Field(i)
		tag := strings.Split(f.Tag.Get("yaml"), ",")
		if f.Anonymous && (len(tag) < 2 || tag[0] == "") && f.Type.Kind() == reflect.Struct {
			if ft, ok := yamlFieldOf(f.Type, key); ok {
				return ft, true
			}
			continue
		}
		name := tag[0]
		if name == "" {
			name = strings.ToLower(f.Name)
		}
		if name == key {
			return f.Type, true
		}
	}
	return nil, false
}

func goFieldNames(t reflect.Type) []string {
	var out []string
	for i := 0; i < t.NumField(); i++ {
		f := t.Field(i)
		if f.Anonymous && f.Type.Kind() == reflect.Struct {
			out = append(out, goFieldNames(f.Type)...)
			continue
		}
		if f.PkgPath == "" {
			out = append(out, f.Name)
		}
	}
	return out
}

// strictSites walks the YAML node tree and the Go type in parallel and lists
// every mapping that is decoded into a struct (where unknown keys must fail).
func strictSites(n *yaml.Node, t reflect.Type, path string, out *[]strictSite) {
	for t.Kind() == reflect.Ptr {
		t = t.Elem()
	}
	switch n.Kind {
	case yaml.DocumentNode:
		strictSites(n.Content[0], t, path, out)
	case yaml.MappingNode:
		switch t.Kind() {
		case reflect.Struct:
			if t.String() == "time.Time" {
				return
			}
			*out = append(*out, strictSite{path, n, t})
			for i := 0; i+1 < len(n.Content); i += 2 {
				k := n.Content[i].Value
				if ft, ok := yamlFieldOf(t, k); ok {
					strictSites(n.Content[i+1], ft, path+"."+k, out)
				}
			}
		case reflect.Map:
			for i := 0; i+1 < len(n.Content); i += 2 {
				strictSites(n.Content[i+1], t.Elem(), path+"."+n.Content[i].Value, out)
			}
		}
	case yaml.SequenceNode:
		if t.Kind() == reflect.Slice {
			for i, el := range n.Content {
				strictSites(el, t.Elem(), fmt.Sprintf("%s[%d]", path, i), out)
			}
		}
	}
}

// recorder is the env-mapping callback under observation.
type recorder struct {
	mu     sync.Mutex
	env    map[string]string
	junk   string
	looked map[string]int
}

func (r *recorder) get(k string) string {
	r.mu.Lock()
	defer r.mu.Unlock()
	r.looked[k]++
	if v, ok := r.env[k]; ok {
		return v
	}
	return r.junk
}

func newRecorder(env map[string]string, junk string) *recorder {
	return &recorder{env: env, junk: junk, looked: map[string]int{}}
}

var passVars = []string{"NFPM_PASSPHRASE", "NFPM_DEB_PASSPHRASE", "NFPM_RPM_PASSPHRASE", "NFPM_APK_PASSPHRASE"}

func c16(run *ev.Run, tier string) {
	nenv := ncases(1, 50, tier)
	run.Rule = "part 1 (exhaustive): a document with a value at every key path of nfpm.Config (built by reflection from nfpm's own types) is walked in parallel with the Go types; at EVERY mapping that decodes into a struct (root, format blocks, scripts, signature, triggers, contents entries, file_info, alternatives, every override block ...) one unknown key is injected per misspelling class (typo, case change, Go field name instead of yaml name, key valid at another level, brand-new key): ParseWithEnvMapping must fail. part 2: every field documented as expandable in configuration.md x {no '$', $V, ${V}, embedded, undefined variable, variable expanding to empty, to blanks}; content src/dst with and without expand: true; the env-mapping callback is a recorder: names referenced only in non-opt-in entries must never be looked up, names in expandable fields must be. part 3: '$'-free documents parse to the same result under a hostile environment; list items are trimmed, items expanding to nothing dropped. part 4 (exhaustive): all 16 set/unset combinations of the four passphrase variables. Also: keys of the removed v1 format as unknown keys; a reader failing at every line boundary; every string leaf of a full document set to $NAME for NAME in {VERIF_LEAF, PWD, HOME, PATH, TMPDIR, USER, OLDPWD} with mappings that define it, define it as empty, or define it as text containing another reference (single pass). non-trivial = injection at a nested (non-root) mapping / a field value that references a variable; distinct = (site, class) / (field, value shape, env)"
	run.Rule += "; part 6 (the nfpm binary): variable values containing '=', references to unset variables in description / homepage / a depends item, documents from the standard input"
	run.Rule += "; an expand: true entry whose substituted text still holds a '$'; inner white space of list items; through the nfpm binary: variable values containing '=', unknown keys in a document on standard input"
	run.SetExhaustive(true)
	var parses, injections int

	// ---------------- part 1: strictness
	full := fullConfig()
	fb, err := yaml.Marshal(full)
	if err != nil {
		run.Inconclusive("cannot marshal the full configuration: " + err.Error())
		return
	}
	if _, err := parseYAML(string(fb), nil); err != nil {
		run.Violate("C16/full-document-rejected", map[string]any{"error": err.Error(), "yaml": ev.Short(string(fb), 800)})
		return
	}
	var root yaml.Node
	if err := yaml.Unmarshal(fb, &root); err != nil {
		run.Inconclusive(err.Error())
		return
	}
	var sites []strictSite
	strictSites(&root, reflect.TypeOf(nfpm.Config{}), "", &sites)
	var sitePaths []string
	for si := range sites {
		st := sites[si]
		sitePaths = append(sitePaths, st.path)
		existing := map[string]bool{}
		for i := 0; i+1 < len(st.node.Content); i += 2 {
			existing[st.node.Content[i].Value] = true
		}
		first := ""
		if len(st.node.Content) > 0 {
			first = st.node.Content[0].Value
		}
		cands := map[string]string{"new-key": "verif_unknown_key", "valid-elsewhere": "homepage"}
		if st.path == "" {
			cands["valid-elsewhere"] = "key_file"
		}
		if first != "" {
			cands["typo"] = first + "x"
			rs := []rune(first)
			rs[0] = unicode.ToUpper(rs[0])
			cands["case"] = string(rs)
			cands["upper"] = strings.ToUpper(first)
			if strings.Contains(first, "_") {
				cands["dash-for-underscore"] = strings.ReplaceAll(first, "_", "-")
			}
		}
		for _, gn := range goFieldNames(st.t) {
			if !existing[gn] && !existing[strings.ToLower(gn)] {
				cands["go-field-name"] = gn
				break
			}
		}
		// keys of the old (v1) configuration format are unknown keys like any other
		for _, v1 := range []string{"bindir", "files", "config_files", "empty_folders", "symlinks"} {
			cands["removed-v1-key-"+v1] = v1
		}
		for class, key := range cands {
			if existing[key] {
				continue
			}
			// inject, render, remove
			st.node.Content = append(st.node.Content, &yaml.Node{Kind: yaml.ScalarNode, Value: key}, &yaml.Node{Kind: yaml.ScalarNode, Value: "x"})
			b, merr := yaml.Marshal(&root)
			st.node.Content = st.node.Content[:len(st.node.Content)-2]
			if merr != nil {
				run.Inconclusive(merr.Error())
				continue
			}
			injections++
			parses++
			run.Case(fmt.Sprintf("strict|%s|%s", st.path, class), st.path != "")
			if injections%61 == 0 {
				run.Sample(map[string]any{"site": st.path, "class": class, "injected_key": key})
			}
			if _, perr := parseYAML(string(b), nil); perr == nil {
				lvl := strings.TrimLeft(st.path, ".")
				// key by the type of the mapping, not by its position
				run.Violate("C16/unknown-key-accepted/"+st.t.Name()+"/"+class, map[string]any{"site": lvl, "injected_key": key})
			}
		}
	}
	run.Set("strict_mapping_sites", sitePaths)
	run.Set("unknown_key_injections", injections)

	// ---------------- part 2/3: expansion
	type fieldDef struct {
		name string
		list bool
		set  func(c *nfpm.Config, v string)
		get  func(c *nfpm.Config) []string
	}
	one := func(s string) []string { return []string{s} }
	ps := func(p *string) string {
		if p == nil {
			return "<nil>"
		}
		return *p
	}
	fields := []fieldDef{
		{"arch", false, func(c *nfpm.Config, v string) { c.Arch = v }, func(c *nfpm.Config) []string { return one(c.Arch) }},
		{"platform", false, func(c *nfpm.Config, v string) { c.Platform = v }, func(c *nfpm.Config) []string { return one(c.Platform) }},
		{"release", false, func(c *nfpm.Config, v string) { c.Release = v }, func(c *nfpm.Config) []string { return one(c.Release) }},
		{"maintainer", false, func(c *nfpm.Config, v string) { c.Maintainer = v }, func(c *nfpm.Config) []string { return one(c.Maintainer) }},
		{"description", false, func(c *nfpm.Config, v string) { c.Description = v }, func(c *nfpm.Config) []string { return one(c.Description) }},
		{"vendor", false, func(c *nfpm.Config, v string) { c.Vendor = v }, func(c *nfpm.Config) []string { return one(c.Vendor) }},
		{"homepage", false, func(c *nfpm.Config, v string) { c.Homepage = v }, func(c *nfpm.Config) []string { return one(c.Homepage) }},
		{"rpm.packager", false, func(c *nfpm.Config, v string) { c.RPM.Packager = v }, func(c *nfpm.Config) []string { return one(c.RPM.Packager) }},
		{"rpm.signature.key_file", false, func(c *nfpm.Config, v string) { c.RPM.Signature.KeyFile = v }, func(c *nfpm.Config) []string { return one(c.RPM.Signature.KeyFile) }},
		{"deb.signature.key_file", false, func(c *nfpm.Config, v string) { c.Deb.Signature.KeyFile = v }, func(c *nfpm.Config) []string { return one(c.Deb.Signature.KeyFile) }},
		{"apk.signature.key_file", false, func(c *nfpm.Config, v string) { c.APK.Signature.KeyFile = v }, func(c *nfpm.Config) []string { return one(c.APK.Signature.KeyFile) }},
		{"rpm.signature.key_id", false, func(c *nfpm.Config, v string) { c.RPM.Signature.KeyID = &v }, func(c *nfpm.Config) []string { return one(ps(c.RPM.Signature.KeyID)) }},
		{"deb.signature.key_id", false, func(c *nfpm.Config, v string) { c.Deb.Signature.KeyID = &v }, func(c *nfpm.Config) []string { return one(ps(c.Deb.Signature.KeyID)) }},
		{"deb.fields.X-Field", false, func(c *nfpm.Config, v string) { c.Deb.Fields = map[string]string{"X-Field": v} }, func(c *nfpm.Config) []string { return one(c.Deb.Fields["X-Field"]) }},
		{"replaces", true, func(c *nfpm.Config, v string) { c.Replaces = []string{"first", v, "middle", v, "next-to-last", "last"} }, func(c *nfpm.Config) []string { return c.Replaces }},
		{"provides", true, func(c *nfpm.Config, v string) { c.Provides = []string{"first", v, "middle", v, "next-to-last", "last"} }, func(c *nfpm.Config) []string { return c.Provides }},
		{"depends", true, func(c *nfpm.Config, v string) { c.Depends = []string{"first", v, "middle", v, "next-to-last", "last"} }, func(c *nfpm.Config) []string { return c.Depends }},
		{"recommends", true, func(c *nfpm.Config, v string) {
			c.Recommends = []string{"first", v, "middle", v, "next-to-last", "last"}
		}, func(c *nfpm.Config) []string { return c.Recommends }},
		{"suggests", true, func(c *nfpm.Config, v string) { c.Suggests = []string{"first", v, "middle", v, "next-to-last", "last"} }, func(c *nfpm.Config) []string { return c.Suggests }},
		{"conflicts", true, func(c *nfpm.Config, v string) {
			c.Conflicts = []string{"first", v, "middle", v, "next-to-last", "last"}
		}, func(c *nfpm.Config) []string { return c.Conflicts }},
		{"overrides.deb.depends", true, func(c *nfpm.Config, v string) {
			c.Overrides = map[string]*nfpm.Overridables{"deb": {Depends: []string{"first", v, "middle", v, "next-to-last", "last"}}}
		}, func(c *nfpm.Config) []string { return c.Overrides["deb"].Depends }},
		{"overrides.rpm.conflicts", true, func(c *nfpm.Config, v string) {
			c.Overrides = map[string]*nfpm.Overridables{"rpm": {Conflicts: []string{"first", v, "middle", v, "next-to-last", "last"}}}
		}, func(c *nfpm.Config) []string { return c.Overrides["rpm"].Conflicts }},
	}
	// version is expandable too; it is checked apart because the schema rewrites it
	base := func() *nfpm.Config {
		return &nfpm.Config{Info: nfpm.Info{Name: "envpkg", Arch: "amd64", Version: "1.0.0", Description: "d", Maintainer: "m", Platform: "linux"}}
	}
	for ei := 0; ei <= nenv; ei++ { // the last environment is the fixed "value contains '$'" one
		r := rng.New(uint64(run.Seed)).Fork(uint64(180000 + ei))
		vname := fmt.Sprintf("VERIF_%c%c_%d", 'A'+r.Intn(26), 'A'+r.Intn(26), r.Intn(1000))
		vval := rng.Pick(r, []string{"value", "with space", "ünï", "a$b", "x=y", "/abs/path", "v1.2.3"})
		if ei == nenv {
			vval = "cost$center ${brace}" // a substituted value is data: it must not be expanded again
		}
		env := map[string]string{vname: vval, "VERIF_EMPTY": "", "VERIF_BLANK": "   ", "VERIF_PADDED": "  padded  "}
		type shape struct {
			name, val string
			want      func(list bool) (string, bool) // expected value, kept?
			refs      []string
		}
		shapes := []shape{
			{"no-dollar", "plain value", func(bool) (string, bool) { return "plain value", true }, nil},
			{"dollar-var", "$" + vname, func(bool) (string, bool) { return vval, true }, []string{vname}},
			{"brace-var", "${" + vname + "}", func(bool) (string, bool) { return vval, true }, []string{vname}},
			{"embedded", "pre-${" + vname + "}-post", func(bool) (string, bool) { return "pre-" + vval + "-post", true }, []string{vname}},
			{"undefined", "${VERIF_UNDEFINED}", func(l bool) (string, bool) { return "", !l }, []string{"VERIF_UNDEFINED"}},
			{"empty", "$VERIF_EMPTY", func(l bool) (string, bool) { return "", !l }, []string{"VERIF_EMPTY"}},
			{"blank", "${VERIF_BLANK}", func(l bool) (string, bool) {
				if l {
					return "", false
				}
				return "   ", true
			}, []string{"VERIF_BLANK"}},
			{"padded", "$VERIF_PADDED", func(l bool) (string, bool) {
				if l {
					return "padded", true
				}
				return "  padded  ", true
			}, []string{"VERIF_PADDED"}},
			{"literal-blanks-no-dollar", "  spaced  ", func(l bool) (string, bool) {
				if l {
					return "spaced", true
				}
				return "  spaced  ", true
			}, nil},
		}
		for _, fd := range fields {
			for _, sh := range shapes {
				if !fd.list && sh.name == "literal-blanks-no-dollar" && (fd.name == "arch") {
					continue
				}
				c := base()
				fd.set(c, sh.val)
				// a content entry that does NOT opt in references another variable
				c.Contents = files.Contents{
					{Source: "/nonexistent-verif/${VERIF_NOT_OPTED_IN}", Destination: "/opt/$VERIF_NOT_OPTED_IN/x", Type: "symlink"},
					{Source: "/nonexistent-verif/${" + vname + "}", Destination: "  /opt/$" + vname + "/y", Type: "symlink", Expand: true},
				}
				yb, err := yaml.Marshal(c)
				if err != nil {
					run.Inconclusive(err.Error())
					continue
				}
				rec := newRecorder(env, "")
				cfg, perr := nfpm.ParseWithEnvMapping(strings.NewReader(string(yb)), rec.get)
				parses++
				run.Case(fmt.Sprintf("expand|%s|%s|env%d", fd.name, sh.name, ei), len(sh.refs) > 0)
				if perr != nil {
					run.Violate("C16/valid-document-rejected", map[string]any{"field": fd.name, "shape": sh.name, "error": perr.Error()})
					continue
				}
				wantV, keep := sh.want(fd.list)
				got := fd.get(&cfg)
				var want []string
				if fd.list {
					// (the item occurs twice, each time followed by items that survive: the
					// order of the survivors is part of the expectation)
					want = []string{"first"}
					if keep {
						want = append(want, wantV)
					}
					want = append(want, "middle")
					if keep {
						want = append(want, wantV)
					}
					want = append(want, "next-to-last", "last")
				} else {
					want = []string{wantV}
					if fd.name == "description" && wantV == "" {
						want = []string{"no description given"} // documented default
					}
					if fd.name == "platform" && wantV == "" {
						want = []string{"linux"}
					}
					if fd.name == "arch" && wantV == "" {
						want = []string{"amd64"}
					}
				}
				if strings.Join(got, "\x00") != strings.Join(want, "\x00") {
					kind := "expandable-field-not-substituted"
					if len(sh.refs) == 0 {
						kind = "dollar-free-value-altered"
					} else if fd.list && !keep {
						kind = "empty-list-item-kept"
					}
					run.Violate("C16/"+kind+"/"+fd.name+"/"+sh.name, map[string]any{"value": sh.val, "got": got, "want": want, "env": env})
				}
				// contents: opt-in entry expanded (and trimmed), the other one untouched
				if len(cfg.Contents) == 2 {
					a, b := cfg.Contents[0], cfg.Contents[1]
					if a.Source != "/nonexistent-verif/${VERIF_NOT_OPTED_IN}" || a.Destination != "/opt/$VERIF_NOT_OPTED_IN/x" {
						run.Violate("C16/content-entry-expanded-without-opt-in", map[string]any{"src": a.Source, "dst": a.Destination})
					}
					if b.Source != "/nonexistent-verif/"+vval || b.Destination != strings.TrimSpace("/opt/"+vval+"/y") {
						run.Violate("C16/opted-in-content-entry-not-expanded", map[string]any{"src": b.Source, "dst": b.Destination, "value": vval})
					}
				}
				// the recorder: what was looked up
				rec.mu.Lock()
				if rec.looked["VERIF_NOT_OPTED_IN"] > 0 {
					run.Violate("C16/variable-of-non-opted-in-entry-looked-up", map[string]any{"field": fd.name})
				}
				allowed := map[string]bool{vname: true}
				for _, p := range passVars {
					allowed[p] = true
				}
				for _, ref := range sh.refs {
					allowed[ref] = true
					if rec.looked[ref] == 0 {
						run.Violate("C16/referenced-variable-never-looked-up/"+fd.name, map[string]any{"variable": ref, "shape": sh.name})
					}
				}
				var extra []string
				for k := range rec.looked {
					if !allowed[k] {
						extra = append(extra, k)
					}
				}
				sort.Strings(extra)
				if len(extra) > 0 {
					run.Violate("C16/unreferenced-variable-looked-up", map[string]any{"field": fd.name, "shape": sh.name, "names": extra})
				}
				for _, p := range passVars {
					if rec.looked[p] == 0 {
						run.Violate("C16/passphrase-variable-not-consulted", map[string]any{"variable": p})
					}
				}
				rec.mu.Unlock()
			}
		}
		// version: expandable, then handed to the schema
		for _, vs := range []struct{ val, want string }{{"${VERIF_VER}", "3.4.5"}, {"$VERIF_VER", "3.4.5"}, {"1.0.0", "1.0.0"}} {
			c := base()
			c.Version = vs.val
			yb, _ := yaml.Marshal(c)
			rec := newRecorder(map[string]string{"VERIF_VER": "v3.4.5"}, "")
			cfg, perr := nfpm.ParseWithEnvMapping(strings.NewReader(string(yb)), rec.get)
			parses++
			run.Case("expand|version|"+vs.val+fmt.Sprint(ei), strings.Contains(vs.val, "$"))
			if perr != nil || cfg.Version != vs.want {
				run.Violate("C16/expandable-field-not-substituted/version", map[string]any{"value": vs.val, "got": cfg.Version, "want": vs.want, "error": fmt.Sprint(perr)})
			}
		}
	}

	// ---------------- part 3: '$'-free documents under a hostile environment
	{
		c := fullConfig()
		c.Depends = []string{"  lead", "trail  ", "\tboth\t", "plain"}
		yb, _ := yaml.Marshal(c)
		calm, err1 := nfpm.ParseWithEnvMapping(strings.NewReader(string(yb)), newRecorder(nil, "").get)
		hostile, err2 := nfpm.ParseWithEnvMapping(strings.NewReader(string(yb)), newRecorder(map[string]string{"NFPM_PASSPHRASE": ""}, "JUNK-${X}-$Y").get)
		parses += 2
		run.Case("hostile-env|full-document", true)
		if err1 != nil || err2 != nil {
			run.Violate("C16/valid-document-rejected", map[string]any{"errors": fmt.Sprint(err1, err2)})
		} else {
			// the passphrases legitimately come from the environment
			for _, x := range []*nfpm.Config{&calm, &hostile} {
				x.Deb.Signature.KeyPassphrase, x.RPM.Signature.KeyPassphrase, x.APK.Signature.KeyPassphrase = "", "", ""
			}
			if d := firstDiff(reflect.ValueOf(&calm), reflect.ValueOf(&hostile), "Config"); d != "" {
				run.Violate("C16/dollar-free-value-altered/by-environment", map[string]any{"difference": d})
			}
			if strings.Join(calm.Depends, "|") != "lead|trail|both|plain" {
				run.Violate("C16/list-items-not-trimmed", map[string]any{"got": calm.Depends})
			}
			// every string leaf of the document survives as written
			orig := fullConfig()
			orig.Depends = []string{"lead", "trail", "both", "plain"}
			orig.Info.Overridables.Deb.Signature.KeyPassphrase = ""
			if d := firstDiffStrings(reflect.ValueOf(orig), reflect.ValueOf(&calm), "Config"); d != "" {
				run.Violate("C16/dollar-free-value-altered/by-parsing", map[string]any{"difference": d})
			}
		}
	}

	// ---------------- part 3b (exhaustive over string leaves): whatever field is
	// expanded at all must be expanded with the caller-supplied mapping. Every
	// string leaf of the full document gets the value "$VERIF_LEAF"; the process
	// environment and the mapping disagree about that variable. Afterwards each
	// leaf is either untouched or holds the mapping's value - never anything else.
	// (also when the mapping has nothing for the variable: no fallback)
	// (and for names a process always knows something about: PWD, HOME, PATH ...)
	cwd, _ := os.Getwd()
	for _, combo := range [][2]string{{"VERIF_LEAF", "from-the-mapping"}, {"VERIF_LEAF", "once$VERIF_SECOND_PASS-${VERIF_SECOND_PASS}"}, {"VERIF_LEAF", ""}, {"PWD", ""}, {"HOME", ""}, {"PATH", ""}, {"TMPDIR", ""}, {"USER", ""}, {"OLDPWD", ""}} {
		leafVar, mapped := combo[0], combo[1]
		prevVal, hadVal := os.LookupEnv(leafVar)
		if leafVar == "VERIF_LEAF" {
			os.Setenv("VERIF_LEAF", "from-the-process-environment")
		}
		forbidden := []string{"process-environment", "SECOND-PASS"} // (a value supplied by the mapping is data: it is not expanded again)
		if leafVar != "VERIF_LEAF" {
			if hadVal && len(prevVal) > 3 {
				forbidden = append(forbidden, prevVal)
			}
			if (leafVar == "PWD" || leafVar == "OLDPWD") && len(cwd) > 3 {
				forbidden = append(forbidden, cwd)
			}
		}
		c := fullConfig()
		for _, e := range c.Contents {
			e.Expand = true
		}
		for _, o := range c.Overrides {
			for _, e := range o.Contents {
				e.Expand = true
			}
		}
		var setAll func(v reflect.Value)
		nleaves := 0
		setAll = func(v reflect.Value) {
			switch v.Kind() {
			case reflect.Ptr:
				if !v.IsNil() {
					setAll(v.Elem())
				}
			case reflect.Struct:
				if v.Type().String() == "time.Time" {
					return
				}
				for i := 0; i < v.NumField(); i++ {
					f := v.Type().Field(i)
					if f.PkgPath != "" || f.Tag.Get("yaml") == "-" {
						continue
					}
					switch f.Name {
					case "Type", "Packager", "VersionSchema", "Compression", "Method", "Platform", "Arch":
						continue // enumerated / format-selecting values stay valid
					}
					setAll(v.Field(i))
				}
			case reflect.String:
				if v.CanSet() {
					v.SetString("$" + leafVar)
					nleaves++
				}
			case reflect.Slice:
				for i := 0; i < v.Len(); i++ {
					setAll(v.Index(i))
				}
			case reflect.Map:
				for _, k := range v.MapKeys() {
					if v.Type().Elem().Kind() == reflect.String {
						v.SetMapIndex(k, reflect.ValueOf("$"+leafVar))
						nleaves++
					} else {
						setAll(v.MapIndex(k))
					}
				}
			}
		}
		setAll(reflect.ValueOf(c))
		c.Version = "1.0.0"
		yb, _ := yaml.Marshal(c)
		rec := newRecorder(map[string]string{leafVar: mapped, "VERIF_SECOND_PASS": "SECOND-PASS"}, "")
		cfg, perr := nfpm.ParseWithEnvMapping(strings.NewReader(string(yb)), rec.get)
		parses++
		run.Case(fmt.Sprintf("mapping-only|%d string leaves|$%s|mapping says %q", nleaves, leafVar, mapped), true)
		if perr != nil {
			if mapped != "" { // with every leaf empty the document may well be refused
				run.Violate("C16/valid-document-rejected", map[string]any{"error": perr.Error(), "doc": "every string leaf = $VERIF_LEAF"})
			}
		} else {
			var walk func(v reflect.Value, path string)
			walk = func(v reflect.Value, path string) {
				switch v.Kind() {
				case reflect.Ptr, reflect.Interface:
					if !v.IsNil() {
						walk(v.Elem(), path)
					}
				case reflect.Struct:
					if v.Type().String() == "time.Time" {
						return
					}
					for i := 0; i < v.NumField(); i++ {
						if v.Type().Field(i).PkgPath == "" {
							walk(v.Field(i), path+"."+v.Type().Field(i).Name)
						}
					}
				case reflect.String:
					for _, bad := range forbidden {
						if s := v.String(); strings.Contains(s, bad) {
							key := "C16/expanded-from-process-environment-instead-of-mapping"
							if bad == "SECOND-PASS" {
								key = "C16/value-from-the-mapping-expanded-again"
							}
							run.Violate(key, map[string]any{"field": path, "value": ev.Short(s, 120), "variable": leafVar, "mapping_says": mapped})
							break
						}
					}
				case reflect.Slice:
					for i := 0; i < v.Len(); i++ {
						walk(v.Index(i), fmt.Sprintf("%s[%d]", path, i))
					}
				case reflect.Map:
					for _, k := range v.MapKeys() {
						walk(v.MapIndex(k), fmt.Sprintf("%s[%v]", path, k))
					}
				}
			}
			walk(reflect.ValueOf(&cfg), "Config")
		}
		if leafVar == "VERIF_LEAF" {
			os.Unsetenv("VERIF_LEAF")
		}
	}

	// ---------------- part 3c: a reader that fails while the document is being read
	// (every line boundary, where the part read so far is a valid document on its
	// own): the parser reports the failure, it never accepts the truncated document
	{
		yb, _ := yaml.Marshal(fullConfig())
		doc := string(yb)
		cuts := 0
		for i := 0; i < len(doc); i++ {
			if doc[i] != '\n' || i+1 >= len(doc) {
				continue
			}
			cuts++
			fr := &failingReader{data: []byte(doc[:i+1]), err: errors.New("verif: read fault")}
			_, err := nfpm.ParseWithEnvMapping(fr, func(string) string { return "" })
			parses++
			if err == nil {
				run.Violate("C16/truncated-document-accepted-after-read-error", map[string]any{"bytes_delivered": i + 1, "document_bytes": len(doc), "last_line_delivered": ev.Short(doc[strings.LastIndex(doc[:i], "\n")+1:i], 120)})
				break
			}
		}
		run.Case(fmt.Sprintf("read-fault|%d cut points", cuts), true)
	}

	// ---------------- part 3d: size and dates. A document beyond one MiB is parsed to
	// its end (an unknown key after megabytes of comments is still an unknown
	// key); a '$'-free mtime at or before 1970-01-01 is kept as written, whatever
	// SOURCE_DATE_EPOCH says; an entry without src that opts into expansion has
	// its dst expanded
	{
		yb, _ := yaml.Marshal(fullConfig())
		pad := strings.Repeat("# "+strings.Repeat("padding ", 15)+"\n", 12000) // about 1.4 MiB of comments
		for _, tail := range []string{"verif_unknown_key_after_the_padding: x\n", "depend: [typo]\n"} {
			_, err := parseYAML(string(yb)+pad+tail, nil)
			parses++
			run.Case("strict|document-beyond-one-MiB|"+strings.SplitN(tail, ":", 2)[0], true)
			if err == nil {
				run.Violate("C16/unknown-key-accepted/Config/after-more-than-one-MiB", map[string]any{"document_bytes": len(yb) + len(pad) + len(tail), "injected_key": strings.SplitN(tail, ":", 2)[0]})
			}
		}
		prev, had := os.LookupEnv("SOURCE_DATE_EPOCH")
		_ = os.Setenv("SOURCE_DATE_EPOCH", "1234567890")
		for _, mt := range []string{"1970-01-01T00:00:00Z", "1969-07-20T20:17:40Z", "1970-01-01T00:00:01Z"} {
			doc := "name: x\narch: amd64\nversion: 1.0.0\nmtime: " + mt + "\n"
			cfg, err := parseYAML(doc, nil)
			parses++
			run.Case("dollar-free-mtime|"+mt, true)
			want, _ := time.Parse(time.RFC3339, mt)
			if err != nil {
				run.Violate("C16/valid-document-rejected", map[string]any{"doc": doc, "error": err.Error()})
			} else if !cfg.MTime.Equal(want) {
				run.Violate("C16/dollar-free-value-altered/mtime", map[string]any{"written": mt, "got": cfg.MTime.UTC().Format(time.RFC3339), "SOURCE_DATE_EPOCH": "1234567890"})
			} else if info, err := infoFor(&cfg, "deb"); err == nil && !info.MTime.Equal(want) {
				run.Violate("C16/dollar-free-value-altered/mtime", map[string]any{"written": mt, "got_in_effective_settings": info.MTime.UTC().Format(time.RFC3339), "SOURCE_DATE_EPOCH": "1234567890"})
			}
		}
		if had {
			_ = os.Setenv("SOURCE_DATE_EPOCH", prev)
		} else {
			_ = os.Unsetenv("SOURCE_DATE_EPOCH")
		}
		doc := "name: x\narch: amd64\nversion: 1.0.0\ncontents:\n  - dst: /var/lib/${VERIF_DIRNAME}/state\n    type: dir\n    expand: true\n  - dst: /var/log/${VERIF_DIRNAME}.log\n    type: ghost\n    expand: true\n  - dst: /var/lib/${VERIF_DIRNAME}/untouched\n    type: dir\noverrides:\n  rpm:\n    contents:\n      - dst: /srv/${VERIF_DIRNAME}\n        type: dir\n        expand: true\n"
		cfg, err := parseYAML(doc, func(k string) string {
			if k == "VERIF_DIRNAME" {
				return "expanded"
			}
			return ""
		})
		parses++
		run.Case("expand|entries-without-src", true)
		if err != nil {
			run.Violate("C16/valid-document-rejected", map[string]any{"doc": doc, "error": err.Error()})
		} else {
			got := []string{cfg.Contents[0].Destination, cfg.Contents[1].Destination, cfg.Contents[2].Destination, cfg.Overrides["rpm"].Contents[0].Destination}
			want := []string{"/var/lib/expanded/state", "/var/log/expanded.log", "/var/lib/${VERIF_DIRNAME}/untouched", "/srv/expanded"}
			if strings.Join(got, "|") != strings.Join(want, "|") {
				run.Violate("C16/opted-in-content-entry-not-expanded/entry-without-src", map[string]any{"got": got, "want": want})
			}
		}
	}

	// ---------------- part 4: passphrase precedence, all 16 combinations. The
	// process environment says something else all along: only the
	// caller-supplied mapping may be consulted.
	for _, p := range passVars {
		os.Setenv(p, "from-the-process-environment")
	}
	defer func() {
		for _, p := range passVars {
			os.Unsetenv(p)
		}
	}()
	for mask := 0; mask < 16; mask++ {
		env := map[string]string{}
		for i, p := range passVars {
			if mask&(1<<i) != 0 {
				env[p] = "pass-" + p
			}
		}
		c := base()
		yb, _ := yaml.Marshal(c)
		cfg, err := nfpm.ParseWithEnvMapping(strings.NewReader(string(yb)), newRecorder(env, "").get)
		parses++
		run.Case(fmt.Sprintf("passphrase|%04b", mask), mask != 0)
		if err != nil {
			run.Violate("C16/valid-document-rejected", map[string]any{"error": err.Error()})
			continue
		}
		want := func(specific string) string {
			if v := env[specific]; v != "" {
				return v
			}
			return env["NFPM_PASSPHRASE"]
		}
		for _, x := range []struct{ f, got, specific string }{
			{"deb", cfg.Deb.Signature.KeyPassphrase, "NFPM_DEB_PASSPHRASE"},
			{"rpm", cfg.RPM.Signature.KeyPassphrase, "NFPM_RPM_PASSPHRASE"},
			{"apk", cfg.APK.Signature.KeyPassphrase, "NFPM_APK_PASSPHRASE"},
		} {
			if x.got != want(x.specific) {
				run.Violate("C16/passphrase-precedence/"+x.f, map[string]any{"set_variables": env, "got": x.got, "want": want(x.specific)})
			}
		}
		// the same holds for the effective settings of a format whose override
		// block configures (part of) the signature
		c2 := base()
		c2.Overrides = map[string]*nfpm.Overridables{}
		for _, f := range []string{"deb", "rpm", "apk"} {
			o := &nfpm.Overridables{}
			o.Deb.Signature.KeyFile, o.RPM.Signature.KeyFile, o.APK.Signature.KeyFile = "override-key-"+f, "override-key-"+f, "override-key-"+f
			c2.Overrides[f] = o
		}
		yb2, _ := yaml.Marshal(c2)
		if cfg2, err := nfpm.ParseWithEnvMapping(strings.NewReader(string(yb2)), newRecorder(env, "").get); err == nil {
			parses++
			for _, f := range []string{"deb", "rpm", "apk"} {
				info, gerr := cfg2.Get(f)
				if gerr != nil {
					continue
				}
				got := map[string]string{"deb": info.Deb.Signature.KeyPassphrase, "rpm": info.RPM.Signature.KeyPassphrase, "apk": info.APK.Signature.KeyPassphrase}[f]
				kf := map[string]string{"deb": info.Deb.Signature.KeyFile, "rpm": info.RPM.Signature.KeyFile, "apk": info.APK.Signature.KeyFile}[f]
				spec := "NFPM_" + strings.ToUpper(f) + "_PASSPHRASE"
				if got != want(spec) || kf != "override-key-"+f {
					run.Violate("C16/passphrase-precedence/"+f+"/with-signature-override", map[string]any{"set_variables": env, "got": got, "want": want(spec), "key_file": kf})
				}
			}
		}
	}
	// part 5: what was substituted at parse time is final. An entry with expand: true whose
	// substituted source or destination still contains a '$' (the value of the variable
	// has one) is packaged under exactly that text, whatever the process environment holds
	{
		edir := newWorkDir("c16-dollar")
		lit := filepath.Join(edir, "price$VERIF_C16_USD.txt")
		_ = os.WriteFile(lit, []byte("literal dollar\n"), 0o644)
		_ = os.Setenv("VERIF_C16_USD", "fromprocess")
		mapping := map[string]string{"VERIF_C16_SRC": lit, "VERIF_C16_DST": "cost$VERIF_C16_USD"}
		y := "name: dollar\narch: amd64\nversion: 1.0.0\nmaintainer: \"D <d@example.com>\"\ndescription: d\nmtime: 2017-07-14T02:40:00Z\nrpm:\n  buildhost: verif-host\ncontents:\n  - src: ${VERIF_C16_SRC}\n    dst: /opt/${VERIF_C16_DST}\n    expand: true\n"
		for _, f := range []string{"deb", "rpm", "apk", "ipk", "archlinux"} {
			run.Case("substituted-value-with-dollar-is-final|"+f, true)
			cfg, err := parseYAML(y, func(k string) string { return mapping[k] })
			if err != nil {
				run.Violate("C16/expand-true/parse-error", map[string]any{"error": err.Error()})
				break
			}
			info, err := infoFor(&cfg, f)
			if err != nil {
				run.Violate("C16/expand-true/settings-error", map[string]any{"format": f, "error": err.Error()})
				continue
			}
			res := packageInfo(f, info)
			if res.Err != nil || res.Panic != "" {
				run.Violate("C16/expand-true/substituted-value-expanded-again/"+f, map[string]any{"error": fmt.Sprint(res.Err, ev.Short(res.Panic, 200)), "source_after_parse": lit, "process_environment": "VERIF_C16_USD=fromprocess"})
				continue
			}
			p := dec.Decode(f, res.Bytes, false)
			if e := p.Find("/opt/cost$VERIF_C16_USD"); len(p.Errs) > 0 || e == nil || string(e.Data) != "literal dollar\n" {
				var paths []string
				for _, e := range p.Entries {
					paths = append(paths, e.Path)
				}
				run.Violate("C16/expand-true/substituted-value-expanded-again/"+f, map[string]any{"want_entry": "/opt/cost$VERIF_C16_USD", "entries": paths})
			}
		}
		_ = os.Unsetenv("VERIF_C16_USD")
		removeWorkDir(edir)
	}
	// part 5b: list items are trimmed at their ends and nowhere else: inner runs of
	// blanks, tabs and line breaks are part of the value, with or without a reference
	{
		y := "name: inner\narch: amd64\nversion: 1.0.0\ndepends:\n  - \"  libfoo  (>=  1.2)  \"\n  - \"tab\\there\"\n  - \"two\\nlines\"\n  - \"${VERIF_C16_ITEM}\"\nprovides:\n  - \"a   b\"\nsuggests:\n  - \" x \\t y \"\n"
		run.Case("list-items-trimmed-at-the-ends-only", true)
		cfg, err := parseYAML(y, func(k string) string {
			if k == "VERIF_C16_ITEM" {
				return " from   env\twith tab "
			}
			return ""
		})
		if err != nil {
			run.Violate("C16/list-item/parse-error", map[string]any{"error": err.Error()})
		} else {
			want := map[string][]string{"depends": {"libfoo  (>=  1.2)", "tab\there", "two\nlines", "from   env\twith tab"}, "provides": {"a   b"}, "suggests": {"x \t y"}}
			got := map[string][]string{"depends": cfg.Depends, "provides": cfg.Provides, "suggests": cfg.Suggests}
			for k, w := range want {
				if strings.Join(got[k], "\x00") != strings.Join(w, "\x00") {
					run.Violate("C16/list-item/inner-white-space-changed", map[string]any{"list": k, "got": got[k], "want": w})
				}
			}
		}
	}
	// part 5c: an item that is empty as written is an item that expands to nothing (also
	// when no other item of the list changes); an item repeated next to itself stays
	{
		y := "name: items\narch: amd64\nversion: 1.0.0\ndepends:\n  - first\n  - \"\"\n  - last\nprovides:\n  - dup\n  - dup\n  - other\n  - dup\nconflicts:\n  - \"\"\nreplaces:\n  - \"  \"\n  - only\n"
		run.Case("empty-and-repeated-list-items", true)
		cfg, err := parseYAML(y, nil)
		if err != nil {
			run.Violate("C16/list-item/parse-error", map[string]any{"error": err.Error()})
		} else {
			want := map[string][]string{"depends": {"first", "last"}, "provides": {"dup", "dup", "other", "dup"}, "conflicts": {}, "replaces": {"only"}}
			got := map[string][]string{"depends": cfg.Depends, "provides": cfg.Provides, "conflicts": cfg.Conflicts, "replaces": cfg.Replaces}
			for k, w := range want {
				if strings.Join(got[k], "\x00") != strings.Join(w, "\x00") || len(got[k]) != len(w) {
					run.Violate("C16/list-item/empty-or-repeated-item-mishandled", map[string]any{"list": k, "got": got[k], "want": w})
				}
			}
		}
	}
	// part 6: the command line tool. Values of environment variables arrive whole (an '='
	// is an ordinary character of a value), and a document read from the standard input
	// is held to the same strictness as one read from a file
	if bin := nfpmBin(run); bin != "" {
		cdir := newWorkDir("c16-cli")
		src := filepath.Join(cdir, "p.txt")
		_ = os.WriteFile(src, []byte("p\n"), 0o644)
		y := "name: envvalues\narch: amd64\nversion: 1.0.0\nmaintainer: ${VERIF_C16_MAINT}\ndescription: ${VERIF_C16_DESC}\nhomepage: ${VERIF_C16_HOME}\nmtime: 2017-07-14T02:40:00Z\ndepends:\n  - ${VERIF_C16_DEP}\ncontents:\n  - src: " + src + "\n    dst: /opt/envvalues/p.txt\n"
		cfgp := filepath.Join(cdir, "nfpm.yaml")
		_ = os.WriteFile(cfgp, []byte(y), 0o644)
		env := []string{"PATH=" + os.Getenv("PATH"), "HOME=" + cdir, "VERIF_C16_MAINT=M <m=m@example.com>", "VERIF_C16_DESC=a=b=c", "VERIF_C16_HOME=https://example.com/?q=1&r=2", "VERIF_C16_DEP=libfoo (>= 1.2)"}
		target := filepath.Join(cdir, "out.deb")
		run.Case("cli-variable-values-containing-equals-signs", true)
		so, se, code, err := runCmd(nil, cdir, env, bin, "package", "-f", cfgp, "-p", "deb", "-t", target)
		if err != nil || code != 0 {
			run.Violate("C16/cli/build-failed/variable-values-containing-equals-signs", map[string]any{"exit": code, "output": ev.Short(string(so)+string(se), 300)})
		} else {
			raw, _ := os.ReadFile(target)
			p := dec.Decode("deb", raw, false)
			for field, want := range map[string]string{"Maintainer": "M <m=m@example.com>", "Description": "a=b=c", "Homepage": "https://example.com/?q=1&r=2", "Depends": "libfoo (>= 1.2)"} {
				if got, _ := p.MetaGet(field); got != want {
					run.Violate("C16/cli/variable-value-not-substituted-whole", map[string]any{"field": field, "got": got, "want": want})
				}
			}
		}
		// references to variables that are not set expand to nothing, through the
		// command as through the library: the field is empty, the list item is gone
		yu := "name: envunset\narch: amd64\nversion: 1.0.0\nmaintainer: \"M <m@example.com>\"\ndescription: d${VERIF_C16_UNSET_DESC}\nhomepage: ${VERIF_C16_UNSET_HOME}\nmtime: 2017-07-14T02:40:00Z\ndepends:\n  - libc6\n  - ${VERIF_C16_UNSET_DEP}\ncontents:\n  - src: " + src + "\n    dst: /opt/envunset/p.txt\n"
		cfgu := filepath.Join(cdir, "unset.yaml")
		_ = os.WriteFile(cfgu, []byte(yu), 0o644)
		targetU := filepath.Join(cdir, "unset.deb")
		run.Case("cli-references-to-unset-variables", true)
		if so, se, code, err := runCmd(nil, cdir, env, bin, "package", "-f", cfgu, "-p", "deb", "-t", targetU); err != nil || code != 0 {
			run.Violate("C16/cli/build-failed/references-to-unset-variables", map[string]any{"exit": code, "output": ev.Short(string(so)+string(se), 300)})
		} else {
			raw, _ := os.ReadFile(targetU)
			p := dec.Decode("deb", raw, false)
			for field, want := range map[string]string{"Description": "d", "Homepage": "", "Depends": "libc6"} {
				if got, _ := p.MetaGet(field); got != want {
					run.Violate("C16/cli/unset-variable-not-expanded-to-nothing", map[string]any{"field": field, "got": got, "want": want})
				}
			}
		}
		plain := strings.NewReplacer("${VERIF_C16_MAINT}", "\"M <m@example.com>\"", "${VERIF_C16_DESC}", "d", "${VERIF_C16_HOME}", "https://example.com", "${VERIF_C16_DEP}", "libfoo").Replace(y)
		for _, probe := range []struct{ name, doc string }{
			{"top-level", plain + "verif_unknown_key: 1\n"},
			{"nested", strings.Replace(plain, "    dst: /opt/envvalues/p.txt\n", "    dst: /opt/envvalues/p.txt\n    verif_unknown_key: 1\n", 1)},
		} {
			run.Case("cli-document-from-standard-input|unknown-key-"+probe.name, true)
			_ = os.Remove(target)
			if _, _, code, err := runCmd([]byte(plain), cdir, env, bin, "package", "-f", "-", "-p", "deb", "-t", target); err != nil || code != 0 {
				run.Violate("C16/cli/standard-input/well-formed-document-rejected", map[string]any{"exit": code})
				break
			}
			_ = os.Remove(target)
			so, se, code, err := runCmd([]byte(probe.doc), cdir, env, bin, "package", "-f", "-", "-p", "deb", "-t", target)
			if err == nil && code == 0 {
				run.Violate("C16/unknown-key-accepted/document-from-standard-input/"+probe.name, map[string]any{"output": ev.Short(string(so)+string(se), 200)})
			}
		}
		removeWorkDir(cdir)
	}
	run.Set("documents_parsed", parses)
	run.Assume("the must-expand set is the set of fields whose documentation in www/docs/configuration.md says 'This will expand any env var' (plus content src/dst with expand: true); fields the code also expands but the documentation does not mention (name, prerelease, predepends, ipk fields) are not given '$' values")
}

// firstDiffStrings compares only string-typed leaves (and string lists/maps)
// that are non-empty in a; b may have additional defaults filled in.
func firstDiffStrings(a, b reflect.Value, path string) string {
	for a.Kind() == reflect.Ptr || a.Kind() == reflect.Interface {
		if a.IsNil() {
			return ""
		}
		if b.Kind() != a.Kind() || b.IsNil() {
			return path + ": missing on the parsed side"
		}
		a, b = a.Elem(), b.Elem()
	}
	switch a.Kind() {
	case reflect.String:
		if a.String() != "" && a.String() != b.String() {
			return fmt.Sprintf("%s: %q vs %q", path, a.String(), b.String())
		}
	case reflect.Struct:
		if a.Type().String() == "time.Time" {
			return ""
		}
		for i := 0; i < a.NumField(); i++ {
			f := a.Type().Field(i)
			if f.PkgPath != "" || f.Tag.Get("yaml") == "-" {
				continue
			}
			if d := firstDiffStrings(a.Field(i), b.Field(i), path+"."+f.Name); d != "" {
				return d
			}
		}
	case reflect.Slice:
		if a.Len() != b.Len() {
			return fmt.Sprintf("%s: length %d vs %d", path, a.Len(), b.Len())
		}
		for i := 0; i < a.Len(); i++ {
			if d := firstDiffStrings(a.Index(i), b.Index(i), fmt.Sprintf("%s[%d]", path, i)); d != "" {
				return d
			}
		}
	case reflect.Map:
		for _, k := range a.MapKeys() {
			bv := b.MapIndex(k)
			if !bv.IsValid() {
				return fmt.Sprintf("%s[%v]: missing", path, k)
			}
			if d := firstDiffStrings(a.MapIndex(k), bv, fmt.Sprintf("%s[%v]", path, k)); d != "" {
				return d
			}
		}
	}
	return ""
}

// failingReader delivers data and then fails with err (not io.EOF).
type failingReader struct {
	data []byte
	err  error
}

func (r *failingReader) Read(p []byte) (int, error) {
	if len(r.data) == 0 {
		return 0, r.err
	}
	n := copy(p, r.data)
	r.data = r.data[n:]
	return n, nil
}
